#!/bin/bash
# seed_confirm.sh <seed-id> <src-dir (patch.diff, zz_seed_demo_test.go)> <demo-pkg-dir relative to repo root> [go test -run pattern]
# Confirms in a scratch worktree (outside /repo and /verif) that the change compiles, passes the
# repository's suite, and that the demonstration fails with it and passes without it; then stores
# it under /verif/seeded/<seed-id>/. Nothing is ever committed to /repo.
set -u
export GOFLAGS=-mod=mod GOPROXY=off GOSUMDB=off GOTOOLCHAIN=local
ID="$1"; SRC="$2"; PKG="$3"; RUN="${4:-.}"
WT=/tmp/sw_$ID
git -C /repo worktree remove --force "$WT" >/dev/null 2>&1
git -C /repo worktree add --detach "$WT" HEAD -q || exit 2
cleanup() { git -C /repo worktree remove --force "$WT" >/dev/null 2>&1; }
trap cleanup EXIT
cd "$WT"
git apply "$SRC/patch.diff" || { echo "SEED $ID: patch does not apply"; exit 1; }
go build ./... || { echo "SEED $ID: does not compile"; exit 1; }
if go test -count=1 ./... > /tmp/sw_$ID.suite.log 2>&1; then SUITE=pass; else SUITE=fail; fi
cp "$SRC/zz_seed_demo_test.go" "$PKG/zz_seed_demo_test.go"
if (cd "$PKG" && go test ${SEED_GOTEST_FLAGS:-} -count=1 -run "$RUN" . > /tmp/sw_$ID.with.log 2>&1); then WITH=pass; else WITH=fail; fi
git checkout -q -- . 
if (cd "$PKG" && go test ${SEED_GOTEST_FLAGS:-} -count=1 -run "$RUN" . > /tmp/sw_$ID.without.log 2>&1); then WITHOUT=pass; else WITHOUT=fail; fi
echo "SEED $ID: suite_with_change=$SUITE demo_with_change=$WITH demo_without_change=$WITHOUT"
if [ "$SUITE" = pass ] && [ "$WITH" = fail ] && [ "$WITHOUT" = pass ]; then
  mkdir -p /verif/seeded/$ID
  cp "$SRC/patch.diff" "$SRC/zz_seed_demo_test.go" /verif/seeded/$ID/
  [ -f "$SRC/README.md" ] && cp "$SRC/README.md" /verif/seeded/$ID/README.md
  echo "$PKG" > /verif/seeded/$ID/demo_pkg.txt
  echo "SEED $ID: confirmed and stored"
  exit 0
fi
tail -5 /tmp/sw_$ID.suite.log /tmp/sw_$ID.with.log /tmp/sw_$ID.without.log
exit 1
