#!/usr/bin/env python3
"""Generate a `go build -overlay` map from the CURRENT working tree of the repository.

mode full : "sync"/"sync/atomic" imports of library files are rewritten to the verif/mc/vsync shim,
            and the hook files are added (go-corelib's LoadingCache.Get gets its scheduling
            points from the patched copy under mc/third_party, selected by a go.mod replace).
mode hooks: only the hook files (used for the free-running -race binary, real sync.Pool/atomics).

Nothing under the repository is modified. Exit status 2 = the tree cannot be instrumented (reported
as a harness problem, never as a property violation).
"""
import json, os, re, subprocess, sys

repo = os.path.realpath(os.environ.get("VERIF_REPO", "/repo"))
out = sys.argv[1]
mode = sys.argv[2] if len(sys.argv) > 2 else "full"
os.makedirs(out, exist_ok=True)
replace = {}
notes = []

def emit(target, text):
    name = re.sub(r"[^A-Za-z0-9_.]", "_", os.path.relpath(target, "/"))
    p = os.path.join(out, name)
    with open(p, "w") as f:
        f.write(text)
    replace[target] = p

def rewrite_sync(text):
    n = 0
    def sub(pat, rep, s):
        nonlocal n
        s2, k = re.subn(pat, rep, s, flags=re.M)
        n += k
        return s2
    text = sub(r'^(\s*)"sync"\s*$', r'\1sync "verif/mc/vsync"', text)
    text = sub(r'^(\s*)"sync/atomic"\s*$', r'\1atomic "verif/mc/vsync/vatomic"', text)
    text = sub(r'^import\s+"sync"\s*$', r'import sync "verif/mc/vsync"', text)
    text = sub(r'^import\s+"sync/atomic"\s*$', r'import atomic "verif/mc/vsync/vatomic"', text)
    return text, n

skip_dirs = {"cli", ".git", "sponsors", "doc"}
if mode == "full":
    for root, dirs, files in os.walk(repo):
        rel = os.path.relpath(root, repo)
        top = rel.split(os.sep)[0]
        if top in skip_dirs:
            dirs[:] = []
            continue
        for fn in files:
            if not fn.endswith(".go") or fn.endswith("_test.go"):
                continue
            p = os.path.join(root, fn)
            src = open(p).read()
            if '"sync' not in src:
                continue
            new, n = rewrite_sync(src)
            if n:
                emit(p, new)
                notes.append("sync-shim:%s" % os.path.relpath(p, repo))

# per-record transform-result cache switch
parse = os.path.join(repo, "extensions/omniv21/transform/parse.go")
src = open(parse).read() if os.path.exists(parse) else ""
if src:
    base = replace.get(parse)
    if base:
        src = open(base).read()
    new, k = re.subn(r"disableTransformCache:\s*false,", "disableTransformCache: VerifDisableTransformCache,", src)
    if k == 1:
        emit(parse, new)
        notes.append("transform-cache-switch")
        tc_switch = "true"
    else:
        tc_switch = "false"
        notes.append("transform-cache-switch:NOT-FOUND")
else:
    tc_switch = "false"

# scheduling points at every xpath navigator step (switched on per scenario through idr.VerifNavStep)
nav = os.path.join(repo, "idr/navigator.go")
nav_steps = "false"
if mode == "full" and os.path.exists(nav):
    src = open(replace.get(nav, nav)).read()
    new, k = re.subn(r"(func \(nav \*navigator\) (?:MoveToChild|MoveToNext|MoveToParent|MoveToNextAttribute|MoveToFirst|MoveToPrevious)\(\) bool \{)", r"\1\n\tverifNavStep()", src)
    if k >= 3:
        emit(nav, new)
        notes.append("navigator-steps:%d" % k)
        nav_steps = "true"
    else:
        notes.append("navigator-steps:NOT-FOUND")

def add(relpath, text):
    emit(os.path.join(repo, relpath), text)

# process-wide xpath classification cache (added to /repo by fix c6325e5): reset hook if present
query_go = os.path.join(repo, "idr/query.go")
has_kind_cache = os.path.exists(query_go) and "nodeSetXPathCache = caches.NewLoadingCache()" in open(query_go).read()
kind_cache_reset = "nodeSetXPathCache = caches.NewLoadingCache()" if has_kind_cache else ""
add("idr/zz_verif_hooks.go", """//go:build verif

package idr
""" + ('\nimport "github.com/jf-tech/go-corelib/caches"\n' if has_kind_cache else "") + """
// VerifSetNodeCaching switches node pooling and returns the previous setting.
func VerifSetNodeCaching(on bool) bool { old := nodeCaching; nodeCaching = on; return old }

// VerifResetNodePool replaces the process-wide node pool by an empty one.
func VerifResetNodePool() { resetNodePool() }

// VerifNodeID / VerifSetNodeID expose the process-wide ID counter.
func VerifNodeID() int64     { return nodeID }
func VerifSetNodeID(v int64) { nodeID = v }

// VerifNodePool exposes the pool object (a *vsync.Pool under the shim overlay).
func VerifNodePool() interface{} { return &nodePool }

// VerifNavStep, when set, is called at every xpath navigator move (overlay rewrite of navigator.go).
var VerifNavStep func()

// VerifNavStepsInstalled tells whether the overlay could install the navigator scheduling points.
const VerifNavStepsInstalled = %s

func verifNavStep() {
	if f := VerifNavStep; f != nil {
		f()
	}
}

// VerifResetXPathKindCache empties the process-wide 'is this xpath a node-set expression' cache, if the tree has one.
func VerifResetXPathKindCache() { %s }
""" % (nav_steps, kind_cache_reset))
add("extensions/omniv21/customfuncs/zz_verif_hooks.go", """//go:build verif

package customfuncs

// VerifSetDisableCaching switches all javascript caches and returns the previous setting.
func VerifSetDisableCaching(off bool) bool { old := disableCaching; disableCaching = off; return old }

// VerifResetCaches replaces program cache, VM pool and node-JSON cache by empty ones.
func VerifResetCaches() { resetCaches() }

// VerifRuntimePool exposes the VM pool object.
func VerifRuntimePool() interface{} { return &jsRuntimePool }
""")
add("extensions/omniv21/transform/zz_verif_hooks.go", """//go:build verif

package transform

// VerifDisableTransformCache is read by NewParseCtx (overlay rewrite) for every new record context.
var VerifDisableTransformCache = false

// VerifTransformCacheSwitchable tells whether the overlay could install the switch.
const VerifTransformCacheSwitchable = %s
""" % tc_switch)

with open(os.path.join(out, "overlay.json"), "w") as f:
    json.dump({"Replace": replace}, f, indent=1)
with open(os.path.join(out, "notes.txt"), "w") as f:
    f.write("\n".join(notes) + "\n")
