#!/bin/bash
# seed_run_scratch.sh <seed-id> <check-id>... : like seed_run.sh, but the change is applied to a scratch
# worktree of /repo (VERIF_REPO mode of bin/check), so /repo and /verif/evidence stay untouched. Used while
# a long-running check is building from /repo in the background.
set -u
ID="$1"; shift
cd /verif
WT=/tmp/sr_$ID
git -C /repo worktree remove --force $WT >/dev/null 2>&1
git -C /repo worktree add --detach $WT HEAD -q || exit 2
B=/verif/.build/alt-$(echo "$WT" | md5sum | cut -c1-10)
trap 'rm -rf "$B"; git -C /repo worktree remove --force $WT >/dev/null 2>&1' EXIT
git -C $WT apply /verif/seeded/$ID/patch.diff || { echo "patch does not apply"; exit 2; }
for C in "$@"; do
  out=$(VERIF_REPO=$WT bin/check $C ${SEED_TIER:-quick} 2>&1); rc=$?
  if [ $rc -eq 1 ] && echo "$out" | grep -q "^VIOLATION property=$C"; then
    echo "SEED $ID check $C: DETECTED ($(echo "$out" | grep -A1 '^VIOLATION' | grep -m1 'signature=' | sed 's/^ *//' | cut -c1-200))"
  else
    echo "SEED $ID check $C: MISSED (exit $rc) $(echo "$out" | tail -1 | cut -c1-200)"
  fi
done
