#!/usr/bin/env python3
"""Regenerate MANIFEST.json from bin/manifest_checks.json (the per-property entries)."""
import json, os
root = os.path.dirname(os.path.dirname(os.path.realpath(__file__)))
checks = json.load(open(os.path.join(root, "bin", "manifest_checks.json")))
props = [json.loads(l) for l in open(os.path.join(root, "properties.jsonl")) if l.strip()]
claimed = {c["property_id"] for c in checks["checks"]}
na = []
for p in props:
    if p["id"] not in claimed:
        na.append({"property_id": p["id"], "reason": checks["not_applicable"].get(p["id"], "check not built yet (construction in progress; see DESIGN.md section 6)")})
out = []
for c in checks["checks"]:
    i = c["property_id"]
    e = {
        "property_id": i,
        "quick_cmd": "bin/check %s quick" % i,
        "thorough_cmd": "bin/check %s thorough" % i,
        "evidence_file": "/verif/evidence/%s.json" % i,
        "replay_cmd_template": "bin/check replay {path}",
        "engine": c.get("engine", "mc"),
        "level_claimed": {"category": c["category"], "text": c["text"], "design_ref": c.get("design_ref", "DESIGN.md section 3 / " + i)},
        "level_note": c["note"],
        "technique": c["technique"],
    }
    out.append(e)
m = {
    "version": 1,
    "setup_cmd": "bin/check build",
    "hooks": {
        "guard": "verif",
        "enable": "bin/genoverlay.py generates a `go build -tags verif -overlay` map from /repo's current tree (sync -> verif/mc/vsync import rewrite, added //go:build verif hook files, transform-cache switch); nothing in /repo is edited",
        "baseline_off_cmd": "cd /repo && GOFLAGS=-mod=mod go test -json -vet=off -count=1 -timeout 25m ./...",
        "source_commits": [],
        "add_only": True,
    },
    "engines": [
        {"name": "mc", "path": "/verif/mc", "serves_properties": sorted(claimed),
         "kind_free_text": "hand-written Go explorer: deviation-bounded stateless DFS over hooked choice points (reader chunking, faults, pool answers), cooperative scheduler over a sync shim for goroutine interleavings, BFS/exhaustive small-scope enumeration against reference models; sharded over worker processes with a hang/memory watchdog"},
    ],
    "checks": out,
    "not_applicable": na,
    "notes": checks.get("notes", ""),
}
json.dump(m, open(os.path.join(root, "MANIFEST.json"), "w"), indent=1)
print("claimed:", sorted(claimed), "not claimed:", [x["property_id"] for x in na])
