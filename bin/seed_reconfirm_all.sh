#!/bin/bash
# seed_reconfirm_all.sh: re-confirm every stored seed against /repo's current HEAD (patch applies, suite passes with it,
# demonstration fails with it and passes without), 5 at a time; writes bin/seed_reconfirm.txt
cd "$(dirname "$0")/.."
export OUT=/verif/bin/seed_reconfirm.txt; : > $OUT
one() {
  s=$1; flags=""
  case $s in C14-*|C12-r3m1|C12-r2m1) flags="-race";; esac
  r=$(SEED_GOTEST_FLAGS=$flags bin/seed_confirm.sh $s /verif/seeded/$s "$(cat seeded/$s/demo_pkg.txt)" 'Test.*SeedDemo' 2>&1 | grep "SEED.*suite" | head -1)
  echo "${r:-SEED $s: NO RESULT}" >> $OUT
}
export -f one
ls seeded | grep -v INDEX | xargs -P 5 -I{} bash -c 'one {}'
sort $OUT -o $OUT
grep -vc "suite_with_change=pass demo_with_change=fail demo_without_change=pass" $OUT
