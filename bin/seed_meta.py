#!/usr/bin/env python3
"""Write /verif/seeded/<id>/meta.json and /verif/seeded/INDEX.md from the table below (what each
seeded change breaks, what it needs to manifest, what was run) and from bin/seed_results.txt
(output lines of bin/seed_run.sh)."""
import json, os, re
root = os.path.dirname(os.path.dirname(os.path.realpath(__file__)))
T = {
 "C01-m1": ("transform.go: bytes forced to nil only for continuable errors", "a caller-supplied ingester that returns record bytes together with io.EOF / a fatal error (built-in readers never do)"),
 "C01-m2": ("ingester.go: Read returns (nil, nil) when FINAL_OUTPUT evaluates to nothing", "a record whose FINAL_OUTPUT has no value at all (all-empty csv row, JSON object without mapped members)"),
 "C02-m1": ("validate.go: template reference's xpath left out of the declaration hash (two cooperating edits)", "one template referenced twice with different site xpaths as siblings evaluated from one node, result cache on"),
 "C02-m2": ("parse.go: object key found by a backwards scan that ignores escape parity", "an object member whose name ends in '%' and that has children"),
 "C03-m1": ("fixedlength2 decl.go: ASCII fast path with unchecked start+length", "column length near MaxInt64 with start_pos >= 2 on a pure-ASCII line (panic)"),
 "C03-m2": ("edi/reader.go: max:0 segments skipped without consuming", "repeatable segment_group whose first child has max:0 and an input segment with that name (Read never returns)"),
 "C04-m1": ("idr/util.go: quote skipping in removeLastFilterInXPath stops at any quote", "final-step predicate whose literal contains the other quote character and that depends on text/child values"),
 "C04-m2": ("idr/xmlreader.go: closed candidate without children rejected without evaluating the filter (rebased)", "a bare element (no attribute, text, child) with a predicate that holds for empty nodes"),
 "C05-m1": ("csv2 reader.go: popFrontLinesBuf shifts lines field by field but not the cached line text", "lines left over after a failed footer look-ahead at EOF, then matched by header-based declarations (3 declarations)"),
 "C05-m2": ("edi/seg.go: group identified by its first direct non-group child", "a group whose first member is itself a group and that has a plain segment as a later member"),
 "C06-m1": ("csv2 reader.go: delimiter taken as first byte instead of first rune", "a delimiter >= U+0080"),
 "C06-m2": ("fixedlength2 reader.go: copy-on-next-read skipped when the next line is already buffered", "envelope of >= 3 lines, input > 4096 bytes, buffer refill cutting the 3rd or later line of an envelope"),
 "C07-m1": ("edi/reader2.go: escape parity lost in endsWithSegDelim", "release character configured and a segment whose last value ends with an escaped release character (??~)"),
 "C07-m2": ("edi/reader2.go: TrimRight of all CRs before an LF delimiter", "segment_delimiter LF, ignore_crlf off, CRLF line ends and a last value ending in CR"),
 "C08-m1": ("idr/jsonreader.go: whole-valued floats formatted through int64", "an integer-valued JSON number >= 2^63 (1e19, 18446744073709551615)"),
 "C08-m2": ("idr/xmlreader.go: 'duplicate attribute' guard compares local names only", "one element with two attributes of the same local name in different namespaces (k and p:k)"),
 "C09-m1": ("fixedlength2 reader.go: line copy skipped when the next line is buffered (stale reference survives)", "envelope of >= 3 lines and a chunk boundary after >= 2 lines of an envelope"),
 "C09-m2": ("old fixed-length ioErrRecorder: bytes delivered together with io.EOF are dropped", "a source returning its last bytes together with io.EOF after a delivery that ended at a line end"),
 "C10-m1": ("idr/node.go: IDs refreshed only for the root of a released tree", "javascript_with_context on a non-root node over several records (stale node-JSON cache entry)"),
 "C10-m2": ("idr xmlnode.go + node.go: recycled nodes keep FormatSpecific", "one process transforming namespaced XML (or JSON) and then csv/EDI/fixed-length input"),
 "C11-m1": ("idr/navigator.go MoveToFirst jumps to Parent.FirstChild (an attribute)", "last() with a parent that has attributes and a context node that is not the first non-attribute child"),
 "C11-m2": ("idr/node.go InnerText fast path returns the last text child", "element with attributes and mixed/element content whose last child is text, string-value observed"),
 "C12-m1": ("idr/node.go reset() no longer clears FormatSpecific", "XML/JSON node released, then a plain CreateNode obtains it"),
 "C12-m2": ("ingester.go keeps its reference to an already released record node", "good record, then a continuable failure of the reader itself (malformed csv row), then another Read -> node released twice"),
 "C13-m1": ("parse.go: failed evaluations cached as nil", "a declaration that fails on a record, evaluated first inside xpath_dynamic (errors swallowed) and then as an ordinary member on the same node"),
 "C13-m2": ("javascript.go: argument cleanup skipped when the script throws (rebased; same change as C20-m1)", "a throwing call holding argument x followed on the pooled VM by a script probing x"),
 "C14-m1": ("transform: scratch argument buffer stored on the shared CustomFuncDecl", "two goroutines on one Schema, one inside prepArgValues while the other completes a call of the same declaration"),
 "C14-m2": ("javascript.go: VM returned to the pool before its arguments are wiped (rebased)", "goroutine B takes the VM between A's Put and A's wipe loop"),
 "C15-m1": ("idr/node.go reset() keeps Type and FormatSpecific", "an earlier JSON/XML transform in the same process, then csv/fixed-length/EDI: raw records and checksums depend on history"),
 "C15-m2": ("idr/xmlreader.go: namespace prefix chosen by map iteration", "XML with one URI bound to two prefixes, repeated runs"),
 "C16-m1": ("old fixed-length NewReader bypasses the ioErrRecorder for *bufio.Reader inputs", "by_header_footer envelopes through NewTransform and a fault inside an envelope's header line"),
 "C16-m2": ("csv2 Read rebuilds the error with FmtErr when lines are buffered (loses the fatal type)", "multi-line record and a persistent fault after its first line: endless continuable failures"),
 "C17-m1": ("edi/reader.go: filter-rejected targets parked in a single slot", "two or more rejected targets in a row, repeated"),
 "C17-m2": ("ingester.go + hierarchyReader.go: failed records not released (two cooperating sites)", "csv2/fixedlength2 records whose transform fails, recurring"),
 "C18-m1": ("header.go: iso-8859-1 decoded with the windows-1252 table", "encoding iso-8859-1 and a byte in 0x80-0x9F"),
 "C18-m2": ("schema.go: BOM stripped before decoding", "single-byte encoding and an input starting with the bytes EF BB BF"),
 "C19-m1": ("datetime.go: zone offset looked up at the wall clock taken as UTC", "zone-less input with fromTZ in a zone with DST, within |offset| of a transition"),
 "C19-m2": ("datetime.go: SECOND computed as msec/1000 (truncation toward zero)", "unit SECOND, instant before 1970 with a fractional second >= 1 ms"),
 "C20-m1": ("javascript.go: argument cleanup skipped when the script throws (rebased)", "a throwing call with argument X, then a call on the recycled VM that references X"),
 "C20-m2": ("javascript.go: node-JSON cache keyed by node address instead of ID (rebased)", "a node released and re-acquired between two javascript_with_context calls"),
 # round 2 (a second, independent set of sub-agents, after every round-1 change was detected)
 "C01-r2m1": ("transform.go: terminal latch driven by a 'resumable' flag that the fatal / EOF path forgets to clear", "a terminal result on the Read immediately after a continuable failure, and a reader that does not repeat itself after its terminal result"),
 "C01-r2m2": ("ingester.go: fast path quoting a plain-string FINAL_OUTPUT with strconv.Quote", "FINAL_OUTPUT evaluating to a scalar string that contains an invalid UTF-8 byte, a control character / DEL or a non-printable rune"),
 "C03-r2m1": ("invokeCustomFunc.go getFuncArgType: index clamp only for variadic functions", "a non-variadic custom_func called with one argument too many whose surplus argument evaluates to nil on a record (panic)"),
 "C03-r2m2": ("old csv reader: headerChecked set only after checkHeader succeeds", "csv with a delimiter encoding/csv rejects, data_row_index >= 2 and no header_row_index: every Read repeats the same continuable error"),
 "C04-r2m2": ("idr/jsonreader.go: rejected array elements that are containers are emptied but left linked", "filtered target whose candidates are container elements spread over two or more arrays, a rejected one in an earlier array"),
 "C07-r2m1": ("edi/reader.go rawSegToNode: element scan resumes at the previous declaration's match", "component delimiter configured and two components of one element declared with the higher component_index first"),
 "C07-r2m2": ("edi/reader2.go: ignore_crlf strips CR/LF only at the beginning of each segment token", "ignore_crlf and a CR/LF that is not directly behind a segment delimiter"),
 "C08-r2m1": ("customfuncs.go CopyFunc: leaf fast path returns the single text child's raw string", "copy applied to a non-string JSON scalar (number, boolean, null)"),
 "C08-r2m2": ("idr/xmlreader.go addTextChild returns early on empty text", "an attribute with an empty value or an empty CDATA section"),
 "C10-r2m1": ("fixedlength2 reader.go readLine: copy of the last retained line skipped when a newline is already buffered", "envelope of >= 3 lines (or 2 with an empty line between), the 4096-byte buffer boundary in its 3rd-or-later line, >= 4 KB of input after it"),
 "C10-r2m2": ("ingester.go + parse.go: one parseCtx reused across records, its cache reset only after a successful record", "a failed record directly followed by another, and a declaration evaluated on a surviving ancestor (xpath '..') whose value differs between the two"),
 "C11-r2m1": ("idr/navigator.go MoveTo refuses to leave an attribute node", "a predicate on an attribute step with more than one candidate (//item/@id[. != 'a'])"),
 "C11-r2m2": ("idr/query.go MatchAll fast path for a bare child name matches on the local name only", "MatchAll with a bare-name expression and a child element carrying a namespace prefix"),
 "C12-r2m1": ("idr/node.go newNodeID: atomic add followed by a separate atomic load", "node acquisitions racing on several goroutines (two read back the same counter value)"),
 "C12-r2m2": ("idr/jsonreader.go releases the root at io.EOF (although a rejected root candidate was released already)", "JSON target xpath selecting the document root itself with a filter that rejects it"),
 "C15-r2m1": ("validate.go validateObject sorts children by the last namelet of the fqdn only", "sibling object keys containing dots that share their last part, both failing on one record, schema loaded more than once (map iteration order decides the error text)"),
 "C15-r2m2": ("parse.go parseExternal memoises the typed external value in the Schema's declaration", "a typed external (int/float/boolean), ONE Schema object used for two transforms with different property values"),
 "C17-r2m1": ("idr/xmlreader.go keeps a lone attribute-vs-literal filter in the candidate xpath", "XML, exactly one last-step filter of the form [@a='x'] and records that fail it: they are never candidates, so never removed"),
 "C17-r2m2": ("flatfile hierarchyReader.go: Release hardened to ignore non-target nodes + reject branch calling Release", "csv2 / fixedlength2 with a FINAL_OUTPUT xpath filter and records that fail it"),
 "C18-r2m1": ("schema.go: BOM stripped before the declared encoding is decoded", "iso-8859-1 / windows-1252 input whose first three bytes are EF BB BF (content there, not a BOM)"),
 "C18-r2m2": ("header.go: hand-written iso-8859-1 transformer advancing nSrc past bytes it could not copy", "iso-8859-1, a byte >= 0x80 in a 4096-byte block and the 4096-byte output boundary inside an ASCII run"),
 "C19-r2m1": ("customfuncs/datetime.go: zone bonding by 'convert then subtract the offset' (offset taken at the wrong instant)", "zone-less input with fromTZ in a zone with offset changes, wall clock within |offset| hours of a transition"),
 "C19-r2m2": ("customfuncs/datetime.go EpochToDateTimeRFC3339: MILLISECOND split simplified to n/1000 (truncates toward zero)", "MILLISECOND unit, an instant before 1970 with a non-zero millisecond part"),
 "C20-r2m1": ("javascript.go: result check rewritten with math.IsInf(f, 1)", "a script whose result is exactly negative infinity (-1/0, Math.log(0))"),
 "C20-r2m2": ("javascript.go: cleanup skips _node", "a javascript_with_context call followed, on the same pooled VM, by a call without a node whose script mentions _node"),
 # round 3 (third independent set; prompts listed all earlier ideas)
 "C01-r3m1": ("ingester.go: undoes json.Marshal's HTML-safe escapes (\\u003c ...) with bytes.ReplaceAll", "a value that itself contains the six characters backslash-u003c / u003e / u0026"),
 "C01-r3m2": ("transform.go RawRecord hands the record over and forgets it", "two RawRecord calls in a row after one successful Read"),
 "C02-r3m1": ("ingester.go keeps ONE parse context (result cache) for all records", "XML/JSON, a declaration anchored on a node that outlives the record (xpath '..') reading record data, >= 2 records"),
 "C02-r3m2": ("value.go normalizeAndSaveValue trims a no_trim value that is all white space", "no_trim with a value of nothing but white space"),
 "C03-r3m1": ("edi reader2.go endsWithSegDelim loop guard i > 0", "release_character of 2+ bytes and a segment shorter than it"),
 "C03-r3m2": ("csv2 reader.go linesToNode indexes buffered lines directly by line_index", "column with line_index k and a record instance of fewer than k lines"),
 "C04-r3m1": ("idr/query.go matchesNode: the LAST selected node decides (rebased onto 108730b)", "filtered target that can match at several depths, candidate containing a nested matching node"),
 "C04-r3m2": ("idr/xmlreader.go keeps a filter starting with [@ in the candidate xpath and drops the final check", "attribute-first filter that also looks at children (and / or / second filter)"),
 "C05-r3m1": ("edi/reader.go segDone: filtered-out instance returns before the max check", "target xpath filter, finite max, exactly the max-th instance filtered out, another same-named segment next"),
 "C05-r3m2": ("fixedlength2 reader.go footer search reads one new line per line examined", "header/footer envelope (>= 2 lines) first in a group, fewer lines after its footer than it has after its header"),
 "C06-r3m1": ("fixedlength2 linesToNode skips line matching for one-line envelopes", "column with line_pattern / line_index and an envelope instance of exactly one line it does not select"),
 "C06-r3m2": ("csv2 popFrontLinesBuf takes the shift through a pointer into the slice it shifts", "a pop that leaves more lines buffered than it removes (failed look-ahead at EOF, then one-line records)"),
 "C09-r3m1": ("idr/jsonreader.go caps the tracked newlines at 64", "JSON, > 64 newlines inside one decoder refill, big chunks, a failing record (line number in the error)"),
 "C09-r3m2": ("edi reader2.go one-pass CR/LF filter returning (0, nil) for CR/LF-only chunks", "ignore_crlf, >= 101 consecutive CR/LF bytes, small-chunk delivery"),
 "C10-r3m1": ("javascript.go argument cleanup only when the script succeeds", "a record whose script throws while holding arguments, then a script reading that name undeclared"),
 "C10-r3m2": ("idr/xmlreader.go candidate fast path: same parent and same local name as the previous candidate", "same-local-name siblings under different namespace prefixes, unfiltered target xpath"),
 "C12-r3m1": ("idr/node.go recycle(): Put before reset", "a concurrent release overlapping a concurrent acquisition"),
 "C12-r3m2": ("old fixed-length Read no longer clears r.target after the auto-release", "caller skips Release, next Read ends in EOF, then Read once more"),
 "C13-r3m1": ("javascript.go node-JSON cache stamp covers direct children only", "javascript_with_context anchored two or more levels above the record, >= 2 records"),
 "C13-r3m2": ("ingester.go one parse context for all records (same idea as C02-r3m1)", "declaration anchored on an ancestor, value differing per record"),
 "C14-r3m1": ("idr/xmlreader.go: every XML reader shares one package-level namespace table", "two XML transforms alive at once whose inputs declare namespaces"),
 "C14-r3m2": ("idr/node.go reset() keeps Type/Data/FormatSpecific (same idea as C13-r2m1)", "namespaced XML and a flat format sharing the node pool"),
 "C15-r3m1": ("javascript.go argument cleanup only when the script succeeds (same idea as C10-r3m1)", "an earlier throwing script with arguments, a later script reading a global it was not given"),
 "C15-r3m2": ("customfuncs.Merge builds its result in the first argument (the global CommonCustomFuncs)", "a caller's extension overriding a built-in name, then a built-in-extension schema using that name"),
 "C16-r3m1": ("old csv checkHeader returns any error of the data-row jump as io.EOF", "rows skipped before the first data row and a fault inside them"),
 "C16-r3m2": ("old fixed-length: cut-line guard moved into the by_rows path only", "by_header_footer envelopes and a fault within the first bytes of a header line"),
 "C20-r3m1": ("javascript.go node-JSON cache stamp covers direct children only (same idea as C13-r3m1)", "javascript_with_context on the grandparent of the record"),
 "C20-r3m2": ("ingester.go one parse context for all records (same idea as C02-r3m1)", "javascript (or its arguments) evaluated with a long-lived ancestor as context node across records"),
 "C07-r3m1": ("edi reader2.go: without a release character, bytes.SplitN with the old capacity hints as hard limits", "no release_character and > 4 repetitions / > 8 components / >= 32 elements"),
 "C07-r3m2": ("edi reader.go rawSegToNode: the declared default goes through ByteUnescape too", "release_character declared, a default containing it, element absent"),
 "C08-r3m1": ("idr/xmlreader.go endNamespaceScope restores forwards", "one element binding the same URI twice, then a later sibling using the outer prefix"),
 "C08-r3m2": ("idr/marshal2.go isChildArray as a switch that misses JSONProp|JSONObj", "an object whose only key is empty and that is the value of another object's member"),
 "C11-r3m1": ("idr/navigator.go MoveToRoot walks up to the top of the whole tree", "query started from an inner node with an expression reaching the root via / or //"),
 "C11-r3m2": ("idr/query.go loadXPathExpr collapses white space of the expression before the cached compile", "a string literal with a tab, line break or run of spaces, default caching mode"),
 "C17-r3m1": ("old fixed-length Read: a filter that cannot be evaluated returns a continuable error and leaves the envelope attached", "numeric filter meeting a non-numeric value"),
 "C17-r3m2": ("flatfile hierarchyReader Release refuses nodes of stack entries whose decl has children", "target declaration with children repeating in place"),
 "C18-r3m1": ("schema.go: BOM check on a single short read", "BOM-prefixed utf-8 input whose first Read returns fewer than 3 bytes"),
 "C18-r3m2": ("header.go WrapEncoding skipped for xml", "xml with encoding iso-8859-1 / windows-1252 and a byte >= 0x80"),
 "C19-r3m1": ("datetime.go shortcut when fromTZ equals toTZ", "equal non-empty zones and an input that carries its own zone"),
 "C19-r3m2": ("datetime.go process-wide parse cache keyed by the text only", "an earlier call that read the identical text with another layout / layoutTZ flag"),
 "C02-r2m1": ("value.go normalizeAndSaveValue: a declared type makes keep_empty_or_null forget a null result", "a field with both type and keep_empty_or_null whose value is null / absent"),
 "C02-r2m2": ("invokeCustomFunc.go: ignore_error hands back the failed function's return value instead of null", "custom_func with ignore_error whose function fails while returning a non-nil first value, with keep_empty_or_null"),
 "C05-r2m1": ("flatfile hierarchyReader.go: EOF unwind loops recNext before looking at the target", "last target instance closed by end of input AND a later minimum in the same unwind unmet (csv2 / fixedlength2)"),
 "C05-r2m2": ("edi/reader.go segNext: 'occurred at least once' taken for 'minimum met'", "a segment or group with min >= 2 occurring between 1 and min-1 times"),
 "C06-r2m1": ("old csv reader jumpTo counts csv rows instead of physical lines", "header_row_index / data_row_index skipping over a quoted multi-line record or blank lines"),
 "C06-r2m2": ("old fixed-length lineToColumnValue: ASCII fast path slices bytes when only the prefix up to the column end is checked wrongly", "a column whose range is preceded by / contains multi-byte runes in a particular byte/rune count coincidence"),
 "C09-r2m1": ("schema.go: BOM sniffing with ONE Read of 3 bytes instead of ios.StripBOM", "a source whose first Read returns fewer than 3 bytes of a BOM-prefixed input"),
 "C09-r2m2": ("edi/reader2.go: segment scanner resumes the delimiter search mid-segment and forgets the release character before the resume point", "release character + escaped segment delimiter falling exactly at a buffer-fill boundary"),
 "C13-r2m1": ("idr/node.go reset() stops clearing Type/Data/FormatSpecific", "an XML/JSON transform earlier in the process, then a flat-format transform whose CreateNode obtains the recycled node"),
 "C13-r2m2": ("javascript.go getProgram: cache key is the whitespace-collapsed script", "two scripts that differ only in whitespace that matters (inside a literal, or a line break ending a // comment)"),
 "C14-r2m1": ("old fixed-length decl.go: per-envelope columnsDone flags hoisted onto the shared EnvelopeDecl", "two goroutines on one Schema, both inside a multi-line envelope (by_rows >= 2 or header/footer)"),
 "C14-r2m2": ("idr/query.go MatchAny evaluates the cached xpath expression itself instead of a per-query clone", "two goroutines whose FINAL_OUTPUT xpath text is the same, both inside the reader's record filter; wrong results only with a boolean-valued filter, otherwise a pure data race"),
 "C16-r2m1": ("edi/reader.go Read: 'all declarations completed' tested before the kind of error", "bounded last top-level declaration already at max, fault at end of input or between interchanges -> clean EOF"),
 "C16-r2m2": ("idr/xmlreader.go: any tokenizer error after the root's end tag returned as io.EOF", "fault positioned after </root> (end of input, trailing whitespace / comment / PI)"),
}
res = {}
p = os.path.join(root, "bin", "seed_results.txt")
if os.path.exists(p):
    for line in open(p):
        m = re.match(r"SEED (\S+) check (\S+): (DETECTED|MISSED)(.*)", line.strip())
        if m:
            res.setdefault(m.group(1), {})[m.group(2)] = (m.group(3), m.group(4).strip())
rows = []
for sid, (what, needs) in sorted(T.items()):
    d = os.path.join(root, "seeded", sid)
    if not os.path.isdir(d):
        continue
    prop = sid.split("-")[0]
    pkg = open(os.path.join(d, "demo_pkg.txt")).read().strip() if os.path.exists(os.path.join(d, "demo_pkg.txt")) else "?"
    r = res.get(sid, {})
    meta = {
        "seed": sid, "breaks_property": prop, "change": what, "needs_to_manifest": needs,
        "demonstration": {"file": "zz_seed_demo_test.go", "package_dir": pkg},
        "confirmed_by": "bin/seed_confirm.sh in a scratch worktree: builds, repository suite passes with the change, demonstration fails with it and passes without",
        "checks_run": {c: {"result": v[0], "detail": v[1]} for c, v in sorted(r.items())},
        "how_run": "bin/seed_run.sh %s %s  (git -C /repo apply; bin/check <id> quick; git -C /repo checkout -- .)" % (sid, prop),
    }
    json.dump(meta, open(os.path.join(d, "meta.json"), "w"), indent=1)
    own = r.get(prop, ("not run", ""))
    rows.append("| %s | %s | %s | %s | %s |" % (sid, what, needs, own[0], re.sub(r"\|", "/", own[1])[:110]))
with open(os.path.join(root, "seeded", "INDEX.md"), "w") as f:
    f.write("# Seeded defects (written by independent sub-agents that saw only the property text)\n\n")
    f.write("Each directory holds patch.diff, the demonstration test, the agent's README.md and meta.json. None of these changes is ever committed to /repo.\n\n")
    f.write("| seed | change | needs | own check (quick) | first violation signature |\n|---|---|---|---|---|\n")
    f.write("\n".join(rows) + "\n")
print(len(rows), "seeds indexed")
