#!/usr/bin/env python3
"""mkround.py <round-number> [ids...]: prepare /tmp/out<r>_<ID>/ (property.json, INSTRUCTIONS.md) and a scratch
worktree /tmp/wt<r>_<ID> of /repo for a round of seed-writing sub-agents. Prior ideas per property come
from the table in bin/seed_meta.py. Nothing from /verif but the property text goes to the agents."""
import json, os, re, subprocess, sys
root = os.path.dirname(os.path.dirname(os.path.dirname(os.path.realpath(__file__))))
r = sys.argv[1]
ids = sys.argv[2:] or ['C%02d' % i for i in range(1, 21)]
src = open(os.path.join(root, 'bin/seed_meta.py')).read()
T = {}
for m in re.finditer(r'^ "(C\d\d-[^"]+)": \((".*?"), (".*?")\),$', src, re.M):
    T[m.group(1)] = json.loads(m.group(2))
props = {json.loads(l)['id']: json.loads(l) for l in open(os.path.join(root, 'properties.jsonl'))}
tmpl = open(os.path.join(root, 'bin/agent/round5_prompt.txt')).read().replace('wt5_', 'wt%s_' % r).replace('out5_', 'out%s_' % r)
for pid in ids:
    out = '/tmp/out%s_%s' % (r, pid)
    os.makedirs(out, exist_ok=True)
    json.dump(props[pid], open(out + '/property.json', 'w'), indent=1)
    prior = ''.join(' - %s\n' % v for k, v in sorted(T.items()) if k.startswith(pid + '-'))
    open(out + '/INSTRUCTIONS.md', 'w').write(tmpl.replace('@ID@', pid).replace('@PRIOR@', prior))
    wt = '/tmp/wt%s_%s' % (r, pid)
    subprocess.run(['git', '-C', '/repo', 'worktree', 'remove', '--force', wt], capture_output=True)
    subprocess.run(['git', '-C', '/repo', 'worktree', 'add', '--detach', wt, 'HEAD', '-q'], check=True)
    print(pid, len(prior.splitlines()), 'prior ideas')
