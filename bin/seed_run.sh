#!/bin/bash
# seed_run.sh <seed-id> <check-id>... : apply /verif/seeded/<seed-id>/patch.diff to /repo, run the quick
# checks, undo the change straight afterwards. Prints DETECTED / MISSED per check.
set -u
ID="$1"; shift
cd /verif
if ! git -C /repo diff --quiet; then echo "/repo has uncommitted changes; refusing"; exit 2; fi
git -C /repo apply /verif/seeded/$ID/patch.diff || { echo "patch does not apply"; exit 2; }
# evidence files must describe the unchanged tree: keep them aside while the mutated tree is checked
EVBAK=$(mktemp -d /tmp/evbak.XXXXXX); cp -a /verif/evidence/. "$EVBAK"/ 2>/dev/null
trap 'git -C /repo checkout -q -- .; rm -rf /verif/evidence; mkdir -p /verif/evidence; cp -a "$EVBAK"/. /verif/evidence/; rm -rf "$EVBAK"' EXIT
for C in "$@"; do
  out=$(bin/check $C ${SEED_TIER:-quick} 2>&1); rc=$?
  if [ $rc -eq 1 ] && echo "$out" | grep -q "^VIOLATION property=$C"; then
    echo "SEED $ID check $C: DETECTED ($(echo "$out" | grep -A1 '^VIOLATION' | grep -m1 'signature=' | sed 's/^ *//'))"
  else
    echo "SEED $ID check $C: MISSED (exit $rc) $(echo "$out" | tail -1)"
  fi
done
