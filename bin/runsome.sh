#!/bin/bash
# runsome.sh <tier> <id>... : like runall.sh for the listed checks only
cd "$(dirname "$0")/.."
TIER="$1"; shift
for id in "$@"; do
  out=$(bin/check $id $TIER 2>&1); rc=$?
  echo "rc=$rc $(echo "$out" | tail -1)"
  [ $rc -ne 0 ] && echo "$out" | grep -E "^VIOLATION|HARNESS" | head -5
done
true
