#!/bin/bash
# seed_process.sh <round> <ID>... : for the deliverables of a seed-writing agent in /tmp/out<round>_<ID>/m1, m2:
# find the demo's package directory, confirm the seed in a scratch worktree (bin/seed_confirm.sh), store it
# as seeded/<ID>-r<round>m<k> and run the property's own quick check against it (bin/seed_run_scratch.sh).
cd "$(dirname "$0")/.."
R=$1; shift
pkgdir() { # $1 = dir with zz_seed_demo_test.go and README.md
  local pkg; pkg=$(grep -m1 '^package ' "$1/zz_seed_demo_test.go" | awk '{print $2}'); pkg=${pkg%_test}
  local cands; cands=$(cd /repo && git ls-files '*.go' | xargs -n50 grep -l "^package $pkg\$" 2>/dev/null | xargs -n1 dirname | sort -u)
  local n; n=$(echo "$cands" | grep -c .)
  if [ "$n" = 1 ]; then echo "$cands"; return; fi
  # several packages of that name (or an external test package): take the one the README names, longest first
  for d in $(echo "$cands" | awk '{print length, $0}' | sort -rn | cut -d' ' -f2); do
    if grep -q "$d" "$1/README.md"; then echo "$d"; return; fi
  done
  echo "$cands" | head -1
}
for ID in "$@"; do
  for m in m1 m2; do
    D=/tmp/out${R}_$ID/$m; S=$ID-r$R$m
    [ -f $D/patch.diff ] || { echo "SEED $S: no deliverable"; continue; }
    P=$(pkgdir $D)
    flags=""; case $ID in C14|C12) grep -q "race" $D/README.md && flags="-race";; esac
    SEED_GOTEST_FLAGS=$flags bin/seed_confirm.sh $S $D "$P" 'Test.*SeedDemo' 2>&1 | grep '^SEED'
    [ -d seeded/$S ] && bin/seed_run_scratch.sh $S $ID 2>&1 | grep '^SEED'
  done
done
