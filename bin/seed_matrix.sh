#!/bin/bash
# seed_matrix.sh [seed ...] : run EVERY check (quick) against every seeded change, each in a scratch
# worktree of /repo (VERIF_REPO), without touching /repo or /verif/evidence. Appends lines
# "SEED <seed> check <id>: DETECTED|MISSED ..." to bin/seed_matrix.txt.
cd "$(dirname "$0")/.."
SEEDS="${*:-$(ls seeded | grep -v INDEX)}"
CHECKS=$(python3 -c "import json;print(' '.join(c['property_id'] for c in json.load(open('MANIFEST.json'))['checks']))")
for S in $SEEDS; do
  WT=/tmp/mx_$S
  git -C /repo worktree remove --force $WT >/dev/null 2>&1
  git -C /repo worktree add --detach $WT HEAD -q || continue
  if ! git -C $WT apply /verif/seeded/$S/patch.diff; then echo "SEED $S: patch does not apply" >> bin/seed_matrix.txt; git -C /repo worktree remove --force $WT; continue; fi
  for C in $CHECKS; do
    out=$(VERIF_REPO=$WT VERIF_HANG_S=20 bin/check $C quick 2>&1); rc=$?
    if [ $rc -eq 1 ] && echo "$out" | grep -q "^VIOLATION property=$C"; then
      echo "SEED $S check $C: DETECTED ($(echo "$out" | grep -A1 '^VIOLATION' | grep -m1 'signature=' | sed 's/^ *//' | cut -c1-150))" >> bin/seed_matrix.txt
    else
      echo "SEED $S check $C: MISSED (exit $rc)" >> bin/seed_matrix.txt
    fi
  done
  B=/verif/.build/alt-$(echo "$WT" | md5sum | cut -c1-10); rm -rf "$B"
  git -C /repo worktree remove --force $WT
done
