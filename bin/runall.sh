#!/bin/bash
# runall.sh [quick|thorough] : run every claimed check, one line per check
cd "$(dirname "$0")/.."
TIER="${1:-quick}"
for id in $(python3 -c "import json;print(' '.join(c['property_id'] for c in json.load(open('MANIFEST.json'))['checks']))"); do
  out=$(bin/check $id $TIER 2>&1); rc=$?
  echo "rc=$rc $(echo "$out" | tail -1)"
  [ $rc -ne 0 ] && echo "$out" | grep -E "^VIOLATION|HARNESS" | head -5
  # a quick run that hit its time budget ends with exit 0 and exhaustive=false: not an alarm, but it must not go unnoticed
  [ "$TIER" = quick ] && echo "$out" | tail -1 | grep -q "exhaustive=false" && echo "  NOTE: $id quick was not exhaustive (time budget reached - machine loaded, or a plan grew)"
done
true
