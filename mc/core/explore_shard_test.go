package core

import "testing"

// 2 threads x 40 steps modelled as 80 binary non-free points: shards must be roughly balanced.
func TestShardBalance(t *testing.T) {
	for sh := 0; sh < 16; sh++ {
		st := Explore(2, sh, 16, 0, func(x *Exec) {
			for i := 0; i < 80; i++ {
				x.Choose(2, false)
			}
		}, func(x *Exec) bool { return true })
		t.Logf("shard %d: %d executions", sh, st.Executions)
	}
}
