package core

import "testing"

// 3 binary non-free points: bound k must give sum_{i<=k} C(3,i) executions, all distinct.
func TestExploreCounts(t *testing.T) {
	for bound, want := range map[int]int{0: 1, 1: 4, 2: 7, 3: 8} {
		for _, ns := range []int{1, 3} {
			seen := map[[3]int]bool{}
			total := 0
			for sh := 0; sh < ns; sh++ {
				st := Explore(bound, sh, ns, 0, func(x *Exec) {
					for i := 0; i < 3; i++ {
						x.Choose(2, false)
					}
				}, func(x *Exec) bool {
					var k [3]int
					copy(k[:], x.Choices())
					if seen[k] {
						t.Fatalf("duplicate %v", k)
					}
					seen[k] = true
					return true
				})
				total += st.Executions
			}
			if total != want || len(seen) != want {
				t.Fatalf("bound %d shards %d: got %d/%d want %d", bound, ns, total, len(seen), want)
			}
		}
	}
	// free points do not consume budget
	st := Explore(0, 0, 1, 0, func(x *Exec) { x.Choose(3, true); x.Choose(2, false) }, func(*Exec) bool { return true })
	if st.Executions != 3 {
		t.Fatalf("free: %d", st.Executions)
	}
}
