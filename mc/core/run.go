package core

import (
	"bufio"
	"crypto/sha1"
	"encoding/hex"
	"encoding/json"
	"fmt"
	"hash/fnv"
	"os"
	"os/exec"
	"path/filepath"
	"runtime"
	"runtime/debug"
	"sort"
	"strconv"
	"strings"
	"sync"
	"sync/atomic"
	"time"
)

// VerifDir is the root of the verification tree (known findings, build directory).
var VerifDir = func() string {
	if d := os.Getenv("VERIF_DIR"); d != "" {
		return d
	}
	return "/verif"
}()

// OutDir is where evidence and replay files go: VerifDir, unless VERIF_OUT redirects it (used
// when a check is run against a scratch copy of the repository, so that the evidence of the real
// tree is not touched).
var OutDir = func() string {
	if d := os.Getenv("VERIF_OUT"); d != "" {
		return d
	}
	return VerifDir
}()

// Prop is one registered property check.
type Prop struct {
	ID    string
	Level string // evidence level: model_checking | exploration | fault_enumeration
	Rule  string // how cases are enumerated and what makes one distinct/non-trivial
	// Assumptions and trusted base, copied into the evidence.
	Assumptions []string
	// Run enumerates this worker's share of the cases.
	Run func(c *Ctx)
	// Replay re-executes one case from a replay file; it returns the violation signature ("" if
	// the case does not violate) and a human-readable observation.
	Replay func(raw json.RawMessage) (sig string, detail string)
	// MaxShards limits the number of worker processes (0 = number of CPUs).
	MaxShards int
	// Budget in seconds for (quick, thorough); 0 = defaults.
	BudgetQuick, BudgetThorough int
	// HangSeconds overrides the no-progress limit after which the running case is reported as a hang.
	HangSeconds int
}

var registry = map[string]*Prop{}

// Register adds a property check.
func Register(p *Prop) { registry[p.ID] = p }

// Violation is one reported violation (or known finding).
type Violation struct {
	Sig    string `json:"signature"`
	Detail string `json:"detail"`
	Replay string `json:"replay"`
	Flaky  string `json:"flaky,omitempty"`
}

// Report is what one worker hands back.
type Report struct {
	Evaluations int64             `json:"evaluations"`
	Distinct    []uint64          `json:"distinct"`
	DistinctCap bool              `json:"distinct_capped"`
	Counters    map[string]int64  `json:"counters"`
	Maxima      map[string]int64  `json:"maxima"`
	Samples     []json.RawMessage `json:"samples"`
	Violations  []Violation       `json:"violations"`
	SigCounts   map[string]int64  `json:"sig_counts"`
	NotExh      []string          `json:"not_exhaustive"`
	Notes       []string          `json:"notes"`
	HarnessErr  []string          `json:"harness_errors"`
}

const distinctCap = 400000

// Ctx is the worker-side context handed to Prop.Run.
type Ctx struct {
	ticks int // calls of TimeUpEvery
	Prop    *Prop
	Tier    string
	Shard   int
	NShards int
	Seed    int64

	deadline time.Time
	rep      Report
	distinct map[uint64]struct{}
	progress int64
	cur      atomic.Value // func() interface{}
	mu       sync.Mutex
	outPath  string
	perSig   map[string]int
}

// Quick reports whether the quick tier runs.
func (c *Ctx) Quick() bool { return c.Tier != "thorough" }

// Mine tells whether case number i belongs to this worker.
func (c *Ctx) Mine(i int) bool { return i%c.NShards == c.Shard }

// Begin records the case about to be executed (for hang reports) and counts progress.
func (c *Ctx) Begin(desc func() interface{}) {
	atomic.AddInt64(&c.progress, 1)
	c.cur.Store(desc)
	if traceCaseFile != "" {
		// crash-attribution rerun: the case is written out BEFORE it is executed, so that it survives a
		// fatal runtime error (stack overflow, concurrent map writes, out of memory) that kills the process
		func() {
			defer func() { recover() }()
			if b, err := json.Marshal(desc()); err == nil {
				os.WriteFile(traceCaseFile, b, 0o644)
			}
		}()
	}
}

// traceCaseFile (env VERIF_TRACE_CASE) makes Begin write every case to that file before it runs.
var traceCaseFile = os.Getenv("VERIF_TRACE_CASE")

// Eval counts one evaluated case; key identifies its outcome class for the distinct count.
func (c *Ctx) Eval(key string) {
	c.EvalN(key, 1)
}

// EvalN counts n evaluated cases sharing one outcome class.
func (c *Ctx) EvalN(key string, n int64) {
	atomic.AddInt64(&c.progress, 1)
	c.rep.Evaluations += n
	if len(c.distinct) < distinctCap {
		h := fnv.New64a()
		h.Write([]byte(key))
		c.distinct[h.Sum64()] = struct{}{}
	} else {
		c.rep.DistinctCap = true
	}
}

// Count adds to a named counter reported in the evidence.
func (c *Ctx) Count(name string, n int64) { c.rep.Counters[name] += n }

// Member adds a member to a named set; the evidence reports the number of distinct members over
// all workers under that name.
func (c *Ctx) Member(set, member string) { c.rep.Counters["set:"+set+":"+member] = 1 }

// Max records the maximum of a named quantity.
func (c *Ctx) Max(name string, v int64) {
	if v > c.rep.Maxima[name] {
		c.rep.Maxima[name] = v
	}
}

// Sample keeps up to 4 sample cases per worker.
func (c *Ctx) Sample(v interface{}) {
	if len(c.rep.Samples) >= 4 {
		return
	}
	b, err := json.Marshal(v)
	if err == nil {
		c.rep.Samples = append(c.rep.Samples, b)
	}
}

// WantSample tells whether another sample would be kept.
func (c *Ctx) WantSample() bool { return len(c.rep.Samples) < 4 }

// TimeUp reports whether the internal budget is exhausted; the caller stops enumerating and the
// evidence says exhaustive:false.
func (c *Ctx) TimeUp() bool {
	if time.Now().After(c.deadline) {
		c.NotExhaustive("internal time budget reached")
		return true
	}
	return false
}

// NotExhaustive records that a cap was hit.
func (c *Ctx) NotExhaustive(reason string) {
	for _, r := range c.rep.NotExh {
		if r == reason {
			return
		}
	}
	c.rep.NotExh = append(c.rep.NotExh, reason)
}

// Note adds a free-text note to the evidence.
func (c *Ctx) Note(s string) {
	for _, r := range c.rep.Notes {
		if r == s {
			return
		}
	}
	if len(c.rep.Notes) < 40 {
		c.rep.Notes = append(c.rep.Notes, s)
	}
}

// HarnessError records a problem of the machinery itself (exit 2, never a VIOLATION).
func (c *Ctx) HarnessError(s string) {
	if len(c.rep.HarnessErr) < 20 {
		c.rep.HarnessErr = append(c.rep.HarnessErr, s)
	}
}

const maxReplaysPerSig = 2

// Violation reports a violating case. sig classifies it (known findings are matched on sig);
// recheck, when non-nil, re-executes the case and returns the signature it then produces (used
// to make sure the same case fails every time).
func (c *Ctx) Violation(sig, detail string, replayCase interface{}, recheck func() string) {
	c.mu.Lock()
	defer c.mu.Unlock()
	c.rep.SigCounts[sig]++
	if c.perSig[sig] >= maxReplaysPerSig {
		return
	}
	c.perSig[sig]++
	flaky := ""
	if recheck != nil {
		same := 0
		const n = 4
		for i := 0; i < n; i++ {
			if recheck() == sig {
				same++
			}
		}
		if same != n {
			flaky = fmt.Sprintf("reproduced %d/%d on immediate re-execution", same, n)
		}
	}
	path := c.writeReplay(sig, detail, replayCase)
	c.rep.Violations = append(c.rep.Violations, Violation{Sig: sig, Detail: trunc(detail, 600), Replay: path, Flaky: flaky})
}

// fatalLine extracts the Go runtime's "fatal error: ..." line (or an unrecovered panic / kill signal) from a worker's output.
func fatalLine(stderr string) string {
	for _, l := range strings.Split(stderr, "\n") {
		l = strings.TrimSpace(l)
		if strings.HasPrefix(l, "fatal error:") || strings.HasPrefix(l, "runtime: goroutine stack exceeds") {
			return strings.TrimPrefix(l, "fatal error: ")
		}
	}
	return ""
}

func trunc(s string, n int) string {
	if len(s) > n {
		return s[:n] + "…"
	}
	return s
}

func (c *Ctx) writeReplay(sig, detail string, replayCase interface{}) string {
	dir := filepath.Join(OutDir, "replays", c.Prop.ID)
	os.MkdirAll(dir, 0o755)
	b, err := json.MarshalIndent(map[string]interface{}{
		"property": c.Prop.ID, "signature": sig, "detail": detail, "case": replayCase,
	}, "", " ")
	if err != nil {
		b, _ = json.Marshal(map[string]interface{}{"property": c.Prop.ID, "signature": sig, "detail": detail, "case_error": err.Error()})
	}
	h := sha1.Sum(b)
	p := filepath.Join(dir, hex.EncodeToString(h[:6])+".json")
	os.WriteFile(p, b, 0o644)
	return p
}

func (c *Ctx) flush() {
	c.rep.Distinct = c.rep.Distinct[:0]
	for h := range c.distinct {
		c.rep.Distinct = append(c.rep.Distinct, h)
	}
	b, _ := json.Marshal(&c.rep)
	os.WriteFile(c.outPath, b, 0o644)
}

// TimeUpEvery is TimeUp asked on every n-th call of THIS worker (a test on a global case index would be
// reached by one shard only when n is a multiple of the number of shards).
func (c *Ctx) TimeUpEvery(n int) bool {
	c.ticks++
	return c.ticks%n == 0 && c.TimeUp()
}

// Alive tells the watchdog that the worker is waiting for a long-running step of its own (a subprocess with a
// deadline of its own), not stuck inside a case.
func (c *Ctx) Alive() { atomic.AddInt64(&c.progress, 1) }

// HangTimeout is how long a worker may make no progress before the current case is reported as a
// hang (normal cases take microseconds to milliseconds).
var HangTimeout = 120 * time.Second

func (c *Ctx) watchdog() {
	last := int64(-1)
	lastChange := time.Now()
	for {
		time.Sleep(500 * time.Millisecond)
		p := atomic.LoadInt64(&c.progress)
		if p != last {
			last, lastChange = p, time.Now()
		}
		var ms runtime.MemStats
		tooBig := false
		if time.Since(lastChange) > 2*time.Second {
			runtime.ReadMemStats(&ms)
			tooBig = ms.HeapAlloc > 6<<30
		}
		if time.Since(lastChange) > HangTimeout || tooBig {
			var cs interface{}
			if f, ok := c.cur.Load().(func() interface{}); ok && f != nil {
				func() {
					defer func() { recover() }()
					cs = f()
				}()
			}
			kind := "hang"
			if hs, ok := cs.(interface{ HangSig() string }); ok {
				kind = "hang:" + hs.HangSig()
			}
			detail := fmt.Sprintf("no progress for %s inside one case", HangTimeout)
			if tooBig {
				kind, detail = "memory-blowup", fmt.Sprintf("heap grew to %d MB inside one case", ms.HeapAlloc>>20)
			}
			c.Violation(kind, detail, cs, nil)
			c.NotExhaustive("worker aborted: " + kind)
			c.flush()
			os.Exit(3)
		}
	}
}

// Safe runs f and converts a panic into a description (value plus the innermost frames).
func Safe(f func()) (pv interface{}, site string) {
	defer func() {
		if r := recover(); r != nil {
			if d, ok := r.(Divergence); ok {
				panic(d)
			}
			pv = r
			site = PanicSite(string(debug.Stack()))
		}
	}()
	f()
	return nil, ""
}

// PanicSite extracts the innermost non-runtime, non-reflect frame below the panic from a stack
// dump, as "pkg.func @ file.go:line" (no addresses or argument values, so it is stable).
func PanicSite(stack string) string {
	lines := strings.Split(stack, "\n")
	seenPanic := false
	for i := 0; i+1 < len(lines); i++ {
		fn := lines[i]
		if strings.HasPrefix(fn, "\t") || strings.HasPrefix(fn, "goroutine ") || fn == "" {
			continue
		}
		if strings.HasPrefix(fn, "panic(") {
			seenPanic = true
			continue
		}
		if !seenPanic {
			continue
		}
		if strings.HasPrefix(fn, "runtime.") || strings.HasPrefix(fn, "reflect.") || strings.HasPrefix(fn, "runtime/") {
			continue
		}
		if k := strings.LastIndex(fn, "("); k > 0 {
			fn = fn[:k]
		}
		if k := strings.LastIndex(fn, "/"); k >= 0 {
			fn = fn[k+1:]
		}
		loc := strings.TrimSpace(lines[i+1])
		if k := strings.Index(loc, " +0x"); k > 0 {
			loc = loc[:k]
		}
		if k := strings.LastIndex(loc, "/"); k >= 0 {
			loc = loc[k+1:]
		}
		return fn + " @ " + loc
	}
	return "unknown"
}

// ---------------------------------------------------------------------------------------------
// worker / parent

// WorkerMain runs one shard of a property in this process.
func WorkerMain(id, tier string, shard, nshards int, out string) int {
	debug.SetMaxStack(96 << 20) // a runaway recursion in the code under test ends in the runtime's fatal error quickly (attributed to its case by the parent)
	p := registry[id]
	if p == nil {
		fmt.Fprintf(os.Stderr, "unknown property %s\n", id)
		return 2
	}
	c := &Ctx{Prop: p, Tier: tier, Shard: shard, NShards: nshards, outPath: out,
		distinct: map[uint64]struct{}{}, perSig: map[string]int{}}
	c.rep.Counters = map[string]int64{}
	c.rep.Maxima = map[string]int64{}
	c.rep.SigCounts = map[string]int64{}
	c.Seed, _ = strconv.ParseInt(os.Getenv("VERIF_SEED"), 10, 64)
	budget := p.BudgetQuick
	if budget == 0 {
		budget = 90
	}
	if tier == "thorough" {
		budget = p.BudgetThorough
		if budget == 0 {
			budget = 1500
		}
	}
	if s, err := strconv.Atoi(os.Getenv("VERIF_BUDGET_S")); err == nil && s > 0 {
		budget = s
	}
	c.deadline = time.Now().Add(time.Duration(budget) * time.Second)
	if p.HangSeconds > 0 {
		HangTimeout = time.Duration(p.HangSeconds) * time.Second
	}
	if s, err := strconv.Atoi(os.Getenv("VERIF_HANG_S")); err == nil && s > 0 {
		HangTimeout = time.Duration(s) * time.Second
	}
	go c.watchdog()
	code := 0
	func() {
		defer func() {
			if r := recover(); r != nil {
				c.HarnessError(fmt.Sprintf("worker panic: %v\n%s", r, debug.Stack()))
				code = 2
			}
		}()
		p.Run(c)
	}()
	c.flush()
	return code
}

type knownFinding struct {
	Property  string `json:"property"`
	Status    string `json:"status"` // "known" | "fixed"
	Signature string `json:"signature"`
	What      string `json:"what"`
	Commit    string `json:"commit,omitempty"`
}

func loadKnown(id string) map[string]knownFinding {
	m := map[string]knownFinding{}
	f, err := os.Open(filepath.Join(VerifDir, "known_findings.jsonl"))
	if err != nil {
		return m
	}
	defer f.Close()
	sc := bufio.NewScanner(f)
	sc.Buffer(make([]byte, 1<<20), 1<<24)
	for sc.Scan() {
		line := strings.TrimSpace(sc.Text())
		if line == "" || strings.HasPrefix(line, "#") {
			continue
		}
		var k knownFinding
		if json.Unmarshal([]byte(line), &k) == nil && k.Property == id && k.Status == "known" {
			m[k.Signature] = k
		}
	}
	return m
}

// ParentMain runs a property over worker processes, merges their reports, writes the evidence file
// and prints the verdict lines. Exit code: 0 held, 1 violation, 2 harness problem.
func ParentMain(id, tier string) int {
	p := registry[id]
	if p == nil {
		fmt.Fprintf(os.Stderr, "unknown property %s\n", id)
		return 2
	}
	start := time.Now()
	n := runtime.NumCPU()
	if n > 16 {
		n = 16
	}
	if p.MaxShards > 0 && p.MaxShards < n {
		n = p.MaxShards
	}
	if s, err := strconv.Atoi(os.Getenv("VERIF_SHARDS")); err == nil && s > 0 {
		n = s
	}
	os.MkdirAll(filepath.Join(OutDir, ".build"), 0o755)
	tmp, err := os.MkdirTemp(filepath.Join(OutDir, ".build"), "run-"+id+"-")
	if err != nil {
		tmp, err = os.MkdirTemp(filepath.Join(OutDir, ".build"), "run-"+id+"-")
		if err != nil {
			fmt.Fprintln(os.Stderr, err)
			return 2
		}
	}
	defer os.RemoveAll(tmp)
	os.RemoveAll(filepath.Join(OutDir, "replays", id))
	self, _ := os.Executable()
	type res struct {
		rep  Report
		code int
		err  string
	}
	results := make([]res, n)
	var wg sync.WaitGroup
	for i := 0; i < n; i++ {
		wg.Add(1)
		go func(i int) {
			defer wg.Done()
			out := filepath.Join(tmp, fmt.Sprintf("w%d.json", i))
			cmd := exec.Command(self, "worker", id, tier, strconv.Itoa(i), strconv.Itoa(n), out)
			cmd.Env = append(os.Environ(), "GOMAXPROCS=2")
			var stderr strings.Builder
			cmd.Stderr = &stderr
			cmd.Stdout = &stderr
			err := cmd.Run()
			r := res{}
			if err != nil {
				if ee, ok := err.(*exec.ExitError); ok {
					r.code = ee.ExitCode()
				} else {
					r.code = 2
				}
				r.err = trunc(stderr.String(), 4000)
			}
			b, rerr := os.ReadFile(out)
			if rerr != nil || json.Unmarshal(b, &r.rep) != nil {
				if r.code == 0 {
					r.code = 2
				}
				r.err += " (no worker report)"
				// The worker died without a report. If the Go runtime killed it (fatal error: stack overflow,
				// concurrent map writes, out of memory ...), run the shard once more with every case written
				// out before it is executed, and report the case it dies in as a violation.
				if fatal := fatalLine(stderr.String()); fatal != "" {
					tf := filepath.Join(tmp, fmt.Sprintf("trace%d.json", i))
					cmd2 := exec.Command(self, "worker", id, tier, strconv.Itoa(i), strconv.Itoa(n), out)
					cmd2.Env = append(os.Environ(), "GOMAXPROCS=2", "VERIF_TRACE_CASE="+tf)
					var se2 strings.Builder
					cmd2.Stderr, cmd2.Stdout = &se2, &se2
					err2 := cmd2.Run()
					cb, cerr := os.ReadFile(tf)
					if err2 != nil && cerr == nil && fatalLine(se2.String()) != "" {
						var cs interface{}
						json.Unmarshal(cb, &cs)
						sig := "process-killed:" + fatalLine(se2.String())
						rb, _ := json.MarshalIndent(map[string]interface{}{"property": id, "signature": sig, "detail": trunc(se2.String(), 3000), "case": cs}, "", " ")
						dir := filepath.Join(OutDir, "replays", id)
						os.MkdirAll(dir, 0o755)
						rp := filepath.Join(dir, fmt.Sprintf("killed-%d.json", i))
						os.WriteFile(rp, rb, 0o644)
						r.rep = Report{Counters: map[string]int64{}, Maxima: map[string]int64{}, SigCounts: map[string]int64{sig: 1},
							Violations: []Violation{{Sig: sig, Detail: "the Go runtime killed the process inside this case: " + trunc(se2.String(), 500), Replay: rp}},
							NotExh:     []string{"worker killed by the Go runtime: " + fatalLine(se2.String())}}
						r.code, r.err = 0, ""
					}
				}
			}
			results[i] = r
		}(i)
	}
	wg.Wait()

	// merge
	var evals int64
	distinct := map[uint64]struct{}{}
	capped := false
	counters := map[string]int64{}
	maxima := map[string]int64{}
	sigCounts := map[string]int64{}
	var samples []json.RawMessage
	var viols []Violation
	var notExh, notes, herrs []string
	for i, r := range results {
		if r.code != 0 && r.code != 3 {
			herrs = append(herrs, fmt.Sprintf("worker %d exited %d: %s", i, r.code, r.err))
		}
		evals += r.rep.Evaluations
		for _, h := range r.rep.Distinct {
			if len(distinct) < 4*distinctCap {
				distinct[h] = struct{}{}
			}
		}
		capped = capped || r.rep.DistinctCap
		for k, v := range r.rep.Counters {
			counters[k] += v
		}
		for k, v := range r.rep.Maxima {
			if v > maxima[k] {
				maxima[k] = v
			}
		}
		for k, v := range r.rep.SigCounts {
			sigCounts[k] += v
		}
		viols = append(viols, r.rep.Violations...)
		notExh = appendUniq(notExh, r.rep.NotExh...)
		notes = appendUniq(notes, r.rep.Notes...)
		herrs = append(herrs, r.rep.HarnessErr...)
	}
	for k := 0; k < 4 && len(samples) < 5; k++ { // round-robin over workers for variety
		for _, r := range results {
			if k < len(r.rep.Samples) && len(samples) < 5 {
				samples = append(samples, r.rep.Samples[k])
			}
		}
	}
	known := loadKnown(id)
	exit := 0
	printed := map[string]int{}
	sigs := make([]string, 0, len(sigCounts))
	for s := range sigCounts {
		sigs = append(sigs, s)
	}
	sort.Strings(sigs)
	nviol := 0
	var knownSeen []string
	for _, s := range sigs {
		if k, ok := known[s]; ok {
			fmt.Printf("KNOWN-FINDING: property=%s %s [signature=%s, %d cases]\n", id, k.What, s, sigCounts[s])
			knownSeen = append(knownSeen, s)
			continue
		}
		nviol++
	}
	for _, v := range viols {
		if _, ok := known[v.Sig]; ok {
			continue
		}
		if printed[v.Sig] >= maxReplaysPerSig {
			continue
		}
		printed[v.Sig]++
		extra := ""
		if v.Flaky != "" {
			extra = " (" + v.Flaky + ")"
		}
		fmt.Printf("VIOLATION property=%s replay=%s\n", id, v.Replay)
		fmt.Printf("  signature=%s cases=%d%s\n  %s\n", v.Sig, sigCounts[v.Sig], extra, strings.ReplaceAll(trunc(v.Detail, 400), "\n", "\n  "))
		exit = 1
	}
	if len(herrs) > 0 {
		for _, h := range herrs {
			fmt.Fprintf(os.Stderr, "HARNESS-ERROR %s: %s\n", id, h)
		}
		if exit == 0 {
			exit = 2
		}
	}
	dn := int64(len(distinct))
	cov := map[string]interface{}{
		"evaluations":         evals,
		"distinct_nontrivial": dn,
		"rule":                p.Rule,
		"samples":             samples,
		"exhaustive":          len(notExh) == 0 && len(herrs) == 0,
		"workers":             n,
	}
	if capped {
		cov["distinct_note"] = "distinct set capped; distinct_nontrivial is a lower bound"
	}
	if len(notExh) > 0 {
		cov["caps_hit"] = notExh
	}
	if len(notes) > 0 {
		cov["notes"] = notes
	}
	setSizes := map[string]int64{}
	for k, v := range counters {
		if strings.HasPrefix(k, "set:") {
			parts := strings.SplitN(k, ":", 3)
			setSizes[parts[1]]++
			continue
		}
		cov[k] = v
	}
	for k, v := range setSizes {
		cov[k] = v
	}
	for k, v := range maxima {
		cov["max_"+k] = v
	}
	if len(knownSeen) > 0 {
		cov["known_findings_observed"] = knownSeen
	}
	if len(samples) == 0 {
		cov["samples"] = []string{"(no sample recorded)"}
	}
	if p.Level == "model_checking" {
		for _, k := range []string{"states", "transitions", "traces_validated_against_impl"} {
			if _, ok := cov[k]; !ok {
				cov[k] = int64(0)
			}
		}
	}
	seed, _ := strconv.ParseInt(os.Getenv("VERIF_SEED"), 10, 64)
	ev := map[string]interface{}{
		"property_id": id,
		"tier":        tier,
		"seed":        seed,
		"level":       p.Level,
		"coverage":    cov,
		"assumptions": p.Assumptions,
		"wall_s":      float64(int(time.Since(start).Seconds()*100)) / 100,
		"violations":  nviol,
	}
	b, _ := json.MarshalIndent(ev, "", " ")
	os.MkdirAll(filepath.Join(OutDir, "evidence"), 0o755)
	if err := os.WriteFile(filepath.Join(OutDir, "evidence", id+".json"), append(b, '\n'), 0o644); err != nil {
		fmt.Fprintln(os.Stderr, "cannot write evidence:", err)
		if exit == 0 {
			exit = 2
		}
	}
	fmt.Printf("%s %s: evaluations=%d distinct=%d violations=%d known=%d exhaustive=%v wall=%.1fs\n",
		id, tier, evals, dn, nviol, len(knownSeen), cov["exhaustive"], time.Since(start).Seconds())
	return exit
}

func appendUniq(dst []string, src ...string) []string {
	for _, s := range src {
		found := false
		for _, d := range dst {
			if d == s {
				found = true
				break
			}
		}
		if !found {
			dst = append(dst, s)
		}
	}
	return dst
}

// ReplayMain re-executes a replay file without the explorer.
func ReplayMain(path string) int {
	b, err := os.ReadFile(path)
	if err != nil {
		fmt.Fprintln(os.Stderr, err)
		return 2
	}
	var f struct {
		Property  string          `json:"property"`
		Signature string          `json:"signature"`
		Case      json.RawMessage `json:"case"`
	}
	if err := json.Unmarshal(b, &f); err != nil {
		fmt.Fprintln(os.Stderr, err)
		return 2
	}
	p := registry[f.Property]
	if p == nil || p.Replay == nil {
		fmt.Fprintf(os.Stderr, "property %s has no replay function\n", f.Property)
		return 2
	}
	sig, detail := p.Replay(f.Case)
	fmt.Println(detail)
	if sig != "" {
		fmt.Printf("VIOLATION property=%s replay=%s\n  signature=%s (recorded: %s)\n", f.Property, path, sig, f.Signature)
		return 1
	}
	fmt.Println("no violation on replay")
	return 0
}

// Props lists the registered ids.
func Props() []string {
	var ids []string
	for id := range registry {
		ids = append(ids, id)
	}
	sort.Strings(ids)
	return ids
}
