package core

import "fmt"

// Point is one choice point of an execution.
type Point struct {
	N      int  // number of alternatives (>= 2)
	Free   bool // alternatives do not consume the deviation budget
	Chosen int
}

// Exec is one execution under the explorer: it replays Prefix and answers 0 afterwards.
type Exec struct {
	Prefix []int
	Points []Point
}

// Divergence is raised when a replayed prefix does not fit the choice points met (nondeterminism
// escaped the harness). It is a harness error, never a property violation.
type Divergence struct{ Msg string }

func (d Divergence) Error() string { return "replay divergence: " + d.Msg }

// Choose answers a choice point with n alternatives; n <= 1 is not a choice point.
func (x *Exec) Choose(n int, free bool) int {
	if n <= 1 {
		return 0
	}
	c := 0
	i := len(x.Points)
	if i < len(x.Prefix) {
		c = x.Prefix[i]
		if c >= n {
			panic(Divergence{fmt.Sprintf("point %d has %d alternatives, prefix wants %d", i, n, c)})
		}
	}
	x.Points = append(x.Points, Point{N: n, Free: free, Chosen: c})
	return c
}

// Choices returns the complete choice sequence of the execution.
func (x *Exec) Choices() []int {
	out := make([]int, len(x.Points))
	for i, p := range x.Points {
		out[i] = p.Chosen
	}
	return out
}

// ExploreStats reports what a bounded exploration covered.
type ExploreStats struct {
	Executions int
	Points     int // total choice points met
	MaxPoints  int // longest execution, in choice points
	Bound      int
	Capped     bool // the execution cap was hit: not exhaustive within Bound
}

// Explore runs body for every choice sequence with at most bound costly deviations (a deviation is
// a non-zero answer at a non-free point). Executions always run to completion. shard/nshards
// distribute the alternatives of the root execution over workers (the root execution itself is
// visited by shard 0 only; other shards run it silently to learn its choice points).
// visit returns false to stop the exploration early. maxExec <= 0 means no cap.
func Explore(bound, shard, nshards, maxExec int, body func(x *Exec), visit func(x *Exec) bool) ExploreStats {
	st := ExploreStats{Bound: bound}
	type item struct {
		prefix []int
		cost   int
	}
	run := func(prefix []int) *Exec {
		x := &Exec{Prefix: prefix}
		body(x)
		if len(x.Points) < len(prefix) {
			panic(Divergence{fmt.Sprintf("execution met %d points, prefix has %d", len(x.Points), len(prefix))})
		}
		return x
	}
	expand := func(x *Exec, from, cost int, push func(item)) {
		c := cost
		// alternatives are pushed deepest-first so that the DFS pops shallow ones last; order is
		// irrelevant for coverage.
		for i := from; i < len(x.Points); i++ {
			p := x.Points[i]
			nc := c
			if !p.Free {
				nc = c + 1
			}
			if nc <= bound {
				for alt := 1; alt < p.N; alt++ {
					np := make([]int, i+1)
					for k := 0; k < i; k++ {
						np[k] = x.Points[k].Chosen
					}
					np[i] = alt
					push(item{np, nc})
				}
			}
			// points after the prefix were answered 0: no cost accrues while walking on
		}
	}
	root := run(nil)
	var stack []item
	if shard == 0 {
		st.Executions++
		st.Points += len(root.Points)
		st.MaxPoints = len(root.Points)
		if !visit(root) {
			return st
		}
	}
	if nshards <= 1 {
		expand(root, 0, 0, func(it item) { stack = append(stack, it) })
	} else {
		// Work is handed out at level 2: the executions of level 1 (one deviation from the root) are
		// run by every shard (silently, except on shard 0) to learn their choice points, and their
		// alternatives are dealt round-robin. Level-1 subtrees can be very uneven (a free choice at
		// the very first point mirrors the whole tree), level-2 subtrees are not.
		var level1 []item
		expand(root, 0, 0, func(it item) { level1 = append(level1, it) })
		idx := 0
		for _, it := range level1 {
			x := run(it.prefix)
			if shard == 0 {
				st.Executions++
				st.Points += len(x.Points)
				if len(x.Points) > st.MaxPoints {
					st.MaxPoints = len(x.Points)
				}
				if !visit(x) {
					return st
				}
			}
			expand(x, len(it.prefix), it.cost, func(n item) {
				if idx%nshards == shard {
					stack = append(stack, n)
				}
				idx++
			})
		}
	}
	for len(stack) > 0 {
		if maxExec > 0 && st.Executions >= maxExec {
			st.Capped = true
			return st
		}
		it := stack[len(stack)-1]
		stack = stack[:len(stack)-1]
		x := run(it.prefix)
		st.Executions++
		st.Points += len(x.Points)
		if len(x.Points) > st.MaxPoints {
			st.MaxPoints = len(x.Points)
		}
		if !visit(x) {
			return st
		}
		expand(x, len(it.prefix), it.cost, func(n item) { stack = append(stack, n) })
	}
	return st
}
