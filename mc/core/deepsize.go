package core

import (
	"reflect"
	"unsafe"
)

// DeepSize returns the number of bytes of memory reachable from root (a pointer or interface
// holding one): every object behind a pointer, the backing array of every slice (its capacity), the
// bytes of every string and an estimate for maps (entries x (key + value size)). Shared objects are
// counted once. Functions, channels and unsafe pointers are not followed. It is used as a measure
// of "what an object retains"; only its growth matters, not its absolute value.
func DeepSize(root interface{}) int64 {
	w := &sizeWalker{seen: map[uintptr]bool{}}
	v := reflect.ValueOf(root)
	w.walk(v, 0)
	return w.total
}

type sizeWalker struct {
	seen  map[uintptr]bool
	total int64
}

// addressable returns a settable/addressable copy handle of v's storage when v is addressable,
// clearing the read-only flag reflect puts on values reached through unexported fields.
func open(v reflect.Value) reflect.Value {
	if v.CanAddr() {
		return reflect.NewAt(v.Type(), unsafe.Pointer(v.UnsafeAddr())).Elem()
	}
	return v
}

func (w *sizeWalker) walk(v reflect.Value, depth int) {
	if !v.IsValid() || depth > 10000 {
		return
	}
	v = open(v)
	switch v.Kind() {
	case reflect.Ptr:
		if v.IsNil() {
			return
		}
		p := v.Pointer()
		if w.seen[p] {
			return
		}
		w.seen[p] = true
		w.total += int64(v.Type().Elem().Size())
		w.walk(v.Elem(), depth+1)
	case reflect.Interface:
		if v.IsNil() {
			return
		}
		e := v.Elem()
		if e.Kind() != reflect.Ptr && e.Kind() != reflect.Map && e.Kind() != reflect.Slice && e.Kind() != reflect.Func && e.Kind() != reflect.Chan {
			// a value boxed in the interface: copy it into addressable storage to be able to look inside
			w.total += int64(e.Type().Size())
			c := reflect.New(e.Type()).Elem()
			func() {
				defer func() { recover() }()
				c.Set(e)
			}()
			w.walk(c, depth+1)
			return
		}
		w.walk(e, depth+1)
	case reflect.Slice:
		if v.IsNil() {
			return
		}
		p := v.Pointer()
		if p != 0 && !w.seen[p] {
			w.seen[p] = true
			w.total += int64(v.Cap()) * int64(v.Type().Elem().Size())
		} else if p != 0 {
			return
		}
		if hasPointers(v.Type().Elem()) {
			for i := 0; i < v.Len(); i++ {
				w.walk(v.Index(i), depth+1)
			}
		}
	case reflect.String:
		if v.Len() == 0 {
			return
		}
		p := uintptr(unsafe.Pointer(unsafe.StringData(v.String())))
		if !w.seen[p] {
			w.seen[p] = true
			w.total += int64(v.Len())
		}
	case reflect.Map:
		if v.IsNil() {
			return
		}
		p := v.Pointer()
		if w.seen[p] {
			return
		}
		w.seen[p] = true
		t := v.Type()
		w.total += int64(v.Len()) * int64(t.Key().Size()+t.Elem().Size()+8)
		if !hasPointers(t.Key()) && !hasPointers(t.Elem()) {
			return
		}
		it := v.MapRange()
		for it.Next() {
			k := reflect.New(t.Key()).Elem()
			k.Set(it.Key())
			w.walk(k, depth+1)
			e := reflect.New(t.Elem()).Elem()
			e.Set(it.Value())
			w.walk(e, depth+1)
		}
	case reflect.Struct:
		for i := 0; i < v.NumField(); i++ {
			if hasPointers(v.Field(i).Type()) {
				w.walk(v.Field(i), depth+1)
			}
		}
	case reflect.Array:
		if hasPointers(v.Type().Elem()) {
			for i := 0; i < v.Len(); i++ {
				w.walk(v.Index(i), depth+1)
			}
		}
	}
}

var ptrFree = map[reflect.Type]bool{}

// hasPointers tells whether values of type t can reference other memory (strings included).
func hasPointers(t reflect.Type) bool {
	if v, ok := ptrFree[t]; ok {
		return !v
	}
	r := false
	switch t.Kind() {
	case reflect.Ptr, reflect.Interface, reflect.Slice, reflect.String, reflect.Map:
		r = true
	case reflect.Func, reflect.Chan, reflect.UnsafePointer:
		r = false
	case reflect.Array:
		r = t.Len() > 0 && hasPointers(t.Elem())
	case reflect.Struct:
		ptrFree[t] = true // break recursion on self-referential struct types reached via arrays
		for i := 0; i < t.NumField(); i++ {
			if hasPointers(t.Field(i).Type) {
				r = true
				break
			}
		}
	}
	ptrFree[t] = !r
	return r
}
