package props

import (
	"encoding/json"
	"fmt"
	"sort"
	"strings"

	"github.com/jf-tech/omniparser"
	"github.com/jf-tech/omniparser/customfuncs"
	v21 "github.com/jf-tech/omniparser/extensions/omniv21/customfuncs"
	"github.com/jf-tech/omniparser/extensions/omniv21/transform"
	"github.com/jf-tech/omniparser/transformctx"

	"verif/mc/core"
	"verif/mc/corpus"
	"verif/mc/gen"
	"verif/mc/hx"
)

// C03 — no panic, no hang: schemas and inputs are untrusted data. Exhaustive structural mutation
// of schemas, exhaustive custom_func signature misuse, token-string / mutated inputs, all under a
// per-case watchdog.

type c03Case struct {
	Family string `json:"family"`
	Schema string `json:"schema,omitempty"`
	Input  []byte `json:"input_bytes,omitempty"`
	InputS string `json:"input,omitempty"`
	Decls  gd     `json:"transform_declarations,omitempty"`
	Note   string `json:"note,omitempty"`
}

// HangSig names the case family (and mutated position) for hang reports.
func (cs c03Case) HangSig() string {
	n := cs.Note
	if k := strings.Index(n, "="); k > 0 {
		n = n[:k]
	}
	return cs.Family + ":" + n
}

func (cs c03Case) input() string {
	if cs.Input != nil {
		return string(cs.Input)
	}
	return cs.InputS
}

// c03Input runs one input through an accepted schema.
func c03Input(schema omniparser.Schema, item, input string) (sig, detail string, reads int) {
	limit := 2*len(input) + 8
	r := hx.Run(schema, strings.NewReader(input), hx.Opts{MaxReads: limit, AfterTerminal: 1, NoChecksum: false})
	switch {
	case r.PanicSite != "":
		return "panic:" + r.PanicSite, fmt.Sprintf("%s: panic %s with input %q after %d results", item, r.PanicVal, trunc2(input, 300), len(r.Steps)), len(r.Steps)
	case r.Capped:
		return "no-terminal-result-within-2n+8-reads:" + item, fmt.Sprintf("input of %d bytes %q: %d Reads without a terminal result; last: %s", len(input), trunc2(input, 200), limit, r.Steps[len(r.Steps)-1]), len(r.Steps)
	}
	return "", "", len(r.Steps)
}

// c03Schema tries one schema text; if accepted, runs the given inputs.
func c03Schema(text, item string, inputs []string) (sig, detail string, accepted bool) {
	schema, err, site := hx.NewSchema("s", text)
	if site != "" {
		return "panic-in-newschema:" + site, fmt.Sprintf("%v\nschema: %s", err, trunc2(text, 1500)), false
	}
	if err != nil || schema == nil {
		return "", "", false
	}
	for _, in := range inputs {
		if s, d, _ := c03Input(schema, item, in); s != "" {
			return s, d + "\nschema: " + trunc2(text, 1500), true
		}
	}
	return "", "", true
}

func c03FuncNames() []string {
	all := customfuncs.Merge(customfuncs.CommonCustomFuncs, v21.OmniV21CustomFuncs)
	var names []string
	for n := range all {
		names = append(names, n)
	}
	sort.Strings(names)
	return names
}

var c03ArgKinds = []gd{
	{"const": "x"}, {"const": "1", "type": "int"}, {"const": "1.5", "type": "float"}, {"const": "true", "type": "boolean"},
	{"array": []interface{}{gd{"const": "x"}}}, {"xpath": "nomatch"},
}

// c03Func evaluates one custom_func call shape directly (validate + ParseNode on a record).
func c03Func(decls gd) (sig, detail string) {
	all := customfuncs.Merge(customfuncs.CommonCustomFuncs, v21.OmniV21CustomFuncs)
	content, _ := json.Marshal(gd{"transform_declarations": decls})
	var fd *transform.Decl
	var err error
	if pv, site := core.Safe(func() { fd, err = transform.ValidateTransformDeclarations(content, all, nil) }); pv != nil {
		return "panic-in-validation:" + site, fmt.Sprintf("%v: %s", pv, content)
	}
	if err != nil {
		return "", ""
	}
	rec := c02LoadRecord(c02Records[0])
	if pv, site := core.Safe(func() {
		_, _ = transform.NewParseCtx(&transformctx.Ctx{}, all, nil).ParseNode(rec, fd)
	}); pv != nil {
		return "panic-in-custom-func-call:" + site, fmt.Sprintf("%v: %s", pv, content)
	}
	return "", ""
}

func c03Seeds(quick bool) []corpus.Item {
	items := corpus.Minimal()
	for _, it := range c09Corpus()[len(corpus.Minimal()):] {
		var ins []string
		for _, b := range it.Inputs {
			ins = append(ins, string(b))
		}
		f := "?"
		var h struct {
			P struct {
				F string `json:"file_format_type"`
			} `json:"parser_settings"`
		}
		json.Unmarshal([]byte(it.Schema), &h)
		f = h.P.F
		items = append(items, corpus.Item{Name: it.Name, Format: f, Schema: it.Schema, Inputs: ins})
	}
	if !quick {
		for _, s := range corpus.Samples() {
			if len(s.Schema) < 20000 && len(s.Inputs[0]) < 6000 {
				items = append(items, s)
			}
		}
	}
	return items
}

func init() {
	core.Register(&core.Prop{
		ID:    "C03",
		Level: "exploration",
		Rule:  "E1: for every corpus schema every single structural mutation at every JSON position (value replaced by each of 12 values, member/element deleted, object<->array swapped, key duplicated with a second value) and every pair of mutations inside file_declaration (reduced value set), plus raw byte strings over {{,},\",:,a,0xFF} to length 6; every accepted mutant is run on the corpus inputs. E2: every registered custom_func x argument count 0..4 x argument kinds {string,int,float,boolean,array,absent}. E3: every corpus schema on every token string up to length L, every single-token deletion/duplication of its inputs, concatenations of two inputs and a 0x00-0xFF byte ramp. Oracle: NewSchema/NewTransform/Read return (no panic), a terminal result within 2*len+8 Reads, no call exceeding the watchdog. Distinct by (family, schema or function shape, input); outcome class = (family, accepted?, number of results); replacement values include integer spellings only a validator accepts (1.0, 1e0, 1e20); every single mutation is also hidden from validation (case-variant section after the intact one; earlier occurrence whose member the later one leaves out); ~330 xpath expressions at every xpath position, in 8 contexts and from the input; odd JavaScript results; adversarial regexes; comparisons used as node-sets inside predicates and function arguments (23 expressions + 7 accepted look-alikes); documents nested 100 ... 1 000 000 levels deep x 4 declarations that walk the tree; E3l: 9 csv2 schemas (header/footer record whose footer never comes / comes / no such record, then a rows 1..3 target) x every sequence of up to 5 (thorough 6) lines over six lines of different field counts",
		Assumptions: []string{
			"user JavaScript that loops and caller-registered functions are outside the claim",
			"a hang is a case that makes no progress for 45 s (normal cases take microseconds to milliseconds); memory blow-up beyond 6 GB is reported the same way",
		},
		BudgetQuick: 300, BudgetThorough: 1700, HangSeconds: 45,
		Run:    c03Run,
		Replay: c03Replay,
	})
}

func c03Replay(raw json.RawMessage) (string, string) {
	var cs c03Case
	if err := json.Unmarshal(raw, &cs); err != nil {
		return "harness:bad-replay", err.Error()
	}
	if cs.Decls != nil {
		sig, detail := c03Func(normGD(cs.Decls).(gd))
		if sig == "" {
			detail = "no panic"
		}
		return sig, detail
	}
	name := cs.Family
	if i := strings.Index(name, ":"); i >= 0 {
		name = name[i+1:] // "schema-mutation:<seed>" -> the seed's name, as used in signatures
	} else if m := map[string]string{"raw-schema-bytes": "raw", "adversarial-declarations": "adversarial"}[name]; m != "" {
		name = m
	}
	sig, detail, acc := c03Schema(cs.Schema, name, []string{cs.input()})
	if sig == "" {
		detail = fmt.Sprintf("no panic, terminal result reached (schema accepted: %v)", acc)
	}
	return sig, detail
}

func c03Run(c *core.Ctx) {
	idx := 0
	report := func(sig, detail string, cs c03Case) {
		c.Violation(sig, detail, cs, func() string { s, _ := c03Replay(mustJSON(cs)); return s })
	}
	seeds := c03Seeds(c.Quick())
	// ---- E1: schema mutations ----
	for _, it := range seeds {
		var doc interface{}
		if err := json.Unmarshal([]byte(it.Schema), &doc); err != nil {
			c.HarnessError("seed schema not JSON: " + it.Name)
			continue
		}
		inputs := it.Inputs
		if len(inputs) > 2 {
			inputs = inputs[:2]
		}
		try := func(text, note string) bool {
			idx++
			if !c.Mine(idx) {
				return true
			}
			cs := c03Case{Family: "schema-mutation:" + it.Name, Schema: text, InputS: inputs[0], Note: note}
			c.Begin(func() interface{} { return cs })
			sig, detail, acc := c03Schema(text, it.Name, inputs)
			c.Eval(fmt.Sprintf("E1|%s|%v|%s", it.Name, acc, strings.SplitN(note, "=", 2)[0]))
			if acc {
				c.Count("mutated_schemas_accepted", 1)
			}
			c.Count("mutated_schemas", 1)
			if sig != "" {
				// find the input that fails for the replay file
				for _, in := range inputs {
					if s2, _, _ := c03Schema(text, it.Name, []string{in}); s2 == sig {
						cs.InputS = in
						break
					}
				}
				report(sig, detail+"\nmutation: "+note, cs)
			} else if acc && c.WantSample() && idx%211 == 0 {
				c.Sample(map[string]interface{}{"family": "accepted schema mutant", "seed": it.Name, "mutation": note})
			}
			return !c.TimeUpEvery(4)
		}
		positions := gen.Positions(doc)
		for _, p := range positions {
			cur := gen.Get(doc, p)
			for _, r := range gen.Replacements() {
				if gen.Marshal(r) == gen.Marshal(cur) {
					continue
				}
				mutated := gen.Replace(doc, p, r)
				if !try(gen.Marshal(mutated), fmt.Sprintf("%s=%s", p, gen.Marshal(r))) {
					return
				}
				// the same mutation hidden from validation: (a) the mutated section under a key that differs in
				// letter case only, after the intact one (validation does not know that key, the decoder
				// matches it and lets it win); (b) the mutated section first and, under the same key, the
				// section with that member left out after it (validation looks at the last one, the decoder
				// merges both, so the member of the first survives)
				if len(p.Path) >= 2 {
					sec, _ := p.Path[0].(string)
					if mm, ok := mutated.(map[string]interface{}); ok && sec != "" {
						if t, ok := gen.ShadowSection(doc, strings.ToUpper(sec[:1])+sec[1:], mm[sec], true); ok {
							if !try(t, fmt.Sprintf("%s=%s <in a section spelled with a capital letter, after the intact one>", p, gen.Marshal(r))) {
								return
							}
						}
						if _, isKey := p.Path[len(p.Path)-1].(string); isKey {
							if without, ok := gen.Replace(doc, p, gen.Delete).(map[string]interface{}); ok {
								if t, ok := gen.ShadowSection(without, sec, mm[sec], false); ok {
									if !try(t, fmt.Sprintf("%s=%s <in a section written before one that leaves the member out>", p, gen.Marshal(r))) {
										return
									}
								}
							}
						}
					}
				}
			}
			if len(p.Path) > 0 {
				if !try(gen.Marshal(gen.Replace(doc, p, gen.Delete)), fmt.Sprintf("%s=<deleted>", p)) {
					return
				}
				for _, second := range []interface{}{nil, "x", float64(0)} {
					if t, ok := gen.DuplicateKey(doc, p, second); ok {
						if !try(t, fmt.Sprintf("%s=<duplicated with %s>", p, gen.Marshal(second))) {
							return
						}
					}
				}
			}
			if sw, ok := gen.SwapKind(cur); ok {
				if !try(gen.Marshal(gen.Replace(doc, p, sw)), fmt.Sprintf("%s=<object/array swapped>", p)) {
					return
				}
			}
		}
		// pairs inside file_declaration (and, thorough, on xpath/template/custom_func fields)
		var fdPos []gen.JSONPos
		for _, p := range positions {
			if len(p.Path) >= 2 && p.Path[0] == "file_declaration" {
				switch gen.Get(doc, p).(type) {
				case map[string]interface{}, []interface{}:
					continue
				}
				fdPos = append(fdPos, p)
			}
		}
		pairVals := []interface{}{float64(0), float64(-1), float64(2), "", "\"", gen.Delete}
		if !c.Quick() {
			pairVals = []interface{}{float64(0), float64(-1), float64(2), float64(1 << 31), "", "x", nil, "\"", "\n", gen.Delete}
		}
		for i := 0; i < len(fdPos); i++ {
			for j := i + 1; j < len(fdPos); j++ {
				if c.Quick() && (i+j)%3 != 0 {
					continue
				}
				for _, a := range pairVals {
					for _, b := range pairVals {
						d2 := gen.Replace(gen.Replace(doc, fdPos[i], a), fdPos[j], b)
						if !try(gen.Marshal(d2), fmt.Sprintf("%s=%s & %s=%s", fdPos[i], gen.Marshal(a), fdPos[j], gen.Marshal(b))) {
							return
						}
					}
				}
			}
		}
	}
	// ---- E1x: xpath expressions of every kind at every place an xpath can be written or computed ----
	xexprs := c03XPathExprs()
	for _, it := range seeds {
		if strings.HasPrefix(it.Name, "sample/") {
			continue
		}
		var doc interface{}
		if json.Unmarshal([]byte(it.Schema), &doc) != nil {
			continue
		}
		inputs := it.Inputs
		if len(inputs) > 2 {
			inputs = inputs[:2]
		}
		for _, p := range gen.Positions(doc) {
			if len(p.Path) == 0 {
				continue
			}
			if k, ok := p.Path[len(p.Path)-1].(string); !ok || k != "xpath" {
				continue
			}
			if _, ok := gen.Get(doc, p).(string); !ok {
				continue
			}
			for _, xe := range xexprs {
				idx++
				if !c.Mine(idx) {
					continue
				}
				text := gen.Marshal(gen.Replace(doc, p, xe))
				cs := c03Case{Family: "xpath-expression:" + it.Name, Schema: text, InputS: inputs[0], Note: fmt.Sprintf("%s=%q", p, xe)}
				c.Begin(func() interface{} { return cs })
				sig, detail, acc := c03Schema(text, it.Name, inputs)
				c.Eval(fmt.Sprintf("E1x|%s|%v", it.Name, acc))
				c.Count("xpath_expression_schemas", 1)
				if sig != "" {
					// find the input that fails for the replay file
					for _, in := range inputs {
						if s2, _, _ := c03Schema(text, it.Name, []string{in}); s2 == sig {
							cs.InputS = in
							break
						}
					}
					report(sig, detail+"\nxpath: "+cs.Note, cs)
				}
			}
		}
		if c.TimeUp() {
			return
		}
	}
	// ---- deep nesting: documents nested N levels deep, N around the readers' limit and far beyond, with
	// declarations that walk the whole tree (its text, a copy of it, _node); each Read returns ----
	for _, deep := range []struct{ name, format, open, leaf, close string }{
		{"json-arrays", "json", "[", "1", "]"}, {"json-objects", "json", `{"a":`, "1", "}"}, {"xml-elements", "xml", "<a>", "x", "</a>"}, {"xml-elements-with-attributes", "xml", `<a k="1">`, "x", "</a>"}} {
		for di, decl := range []string{`"object":{"v":{"xpath":"."}}`, `"custom_func":{"name":"copy"}`, `"object":{"v":{"custom_func":{"name":"javascript_with_context","args":[{"const":"_node.length"}]}}}`,
			`"object":{"v":{"xpath":".//*[.='1']","keep_empty_or_null":true}}`} {
			for _, n := range []int{100, 9999, 10000, 10001, 50000, 1000000} {
				idx++
				if !c.Mine(idx) {
					continue
				}
				target := `"xpath":"/a",`
				if deep.format == "json" {
					target = ""
				}
				text := `{"parser_settings":{"version":"omni.2.1","file_format_type":"` + deep.format + `"},"transform_declarations":{"FINAL_OUTPUT":{` + target + decl + `}}}`
				cs := c03Case{Family: "deep-nesting:" + deep.name, Schema: text, Note: fmt.Sprintf("declaration %d; input = %q x %d + %q + %q x %d", di, deep.open, n, deep.leaf, deep.close, n)}
				c.Begin(func() interface{} {
					cs.InputS = strings.Repeat(deep.open, n) + deep.leaf + strings.Repeat(deep.close, n)
					return cs
				})
				sig, detail, _ := c03Schema(text, "deep-nesting", []string{strings.Repeat(deep.open, n) + deep.leaf + strings.Repeat(deep.close, n)})
				c.Eval(fmt.Sprintf("deep|%s|%d|%v", deep.name, di, n > 10000))
				c.Count("deep_nesting_inputs", 1)
				if sig != "" {
					cs.InputS = strings.Repeat(deep.open, n) + deep.leaf + strings.Repeat(deep.close, n)
					report(sig, trunc2(detail, 2000)+"\n"+cs.Note, cs)
				}
			}
		}
	}
	{
		xhdr := `"parser_settings":{"version":"omni.2.1","file_format_type":"xml"}`
		xin := `<r><o k="1"><a>1</a><b>x</b><e>a='1' and b='x'</e></o><o><a>2</a><e>true()</e><e>position()</e></o></r>`
		q := func(x string) string { b, _ := json.Marshal(x); return string(b) }
		ctxs := []func(x string) string{
			func(x string) string {
				return `{"FINAL_OUTPUT":{"xpath":"/r/o","object":{"v":{"array":[{"xpath":` + q(x) + `}]}}}}`
			},
			func(x string) string {
				return `{"FINAL_OUTPUT":{"xpath":"/r/o","object":{"v":{"xpath":` + q(x) + `,"object":{"w":{"xpath":"."}}}}}}`
			},
			func(x string) string {
				return `{"FINAL_OUTPUT":{"xpath":"/r/o","object":{"v":{"custom_func":{"name":"concat","args":[{"xpath":` + q(x) + `},{"const":"|"}]}}}}}`
			},
			func(x string) string {
				return `{"FINAL_OUTPUT":{"xpath":"/r/o","object":{"v":{"xpath_dynamic":{"const":` + q(x) + `}}}}}`
			},
			func(x string) string {
				return `{"FINAL_OUTPUT":{"xpath":"/r/o","object":{"v":{"array":[{"xpath_dynamic":{"const":` + q(x) + `}}]}}}}`
			},
			func(x string) string {
				return `{"FINAL_OUTPUT":{"xpath":"/r/o","object":{"v":{"xpath":` + q(x) + `,"template":"T"}}},"T":{"object":{"w":{"xpath":"."}}}}`
			},
			func(x string) string {
				return `{"FINAL_OUTPUT":{"xpath":"/r/o","object":{"v":{"xpath":` + q(x) + `,"custom_func":{"name":"copy"}}}}}`
			},
			func(x string) string {
				return `{"FINAL_OUTPUT":{"xpath":"/r/o","object":{"v":{"custom_func":{"name":"javascript_with_context","args":[{"const":"_node"}]},"xpath":` + q(x) + `}}}}`
			},
		}
		for _, xe := range xexprs {
			for ci, cx := range ctxs {
				idx++
				if !c.Mine(idx) {
					continue
				}
				text := `{` + xhdr + `,"transform_declarations":` + cx(xe) + `}`
				cs := c03Case{Family: "xpath-expression:context", Schema: text, InputS: xin, Note: fmt.Sprintf("context %d xpath %q", ci, xe)}
				c.Begin(func() interface{} { return cs })
				sig, detail, _ := c03Schema(text, "context", []string{xin})
				c.Eval(fmt.Sprintf("E1x|ctx%d", ci))
				c.Count("xpath_expression_schemas", 1)
				if sig != "" {
					report(sig, detail+"\n"+cs.Note, cs)
				}
			}
		}
		// the expression arrives with the INPUT: xpath_dynamic computed from a value of the record
		dyn := `{` + xhdr + `,"transform_declarations":{"FINAL_OUTPUT":{"xpath":"/r/o","object":{"v":{"xpath_dynamic":{"xpath":"e"}},"all":{"array":[{"xpath_dynamic":{"xpath":"e"}}]}}}}}`
		for _, xe := range xexprs {
			idx++
			if !c.Mine(idx) {
				continue
			}
			esc := strings.NewReplacer("&", "&amp;", "<", "&lt;", ">", "&gt;").Replace(xe)
			in := `<r><o><a>1</a><b>x</b><e>` + esc + `</e></o><o><a>2</a><e>a</e></o></r>`
			cs := c03Case{Family: "xpath-expression:from-input", Schema: dyn, InputS: in, Note: fmt.Sprintf("xpath %q", xe)}
			c.Begin(func() interface{} { return cs })
			sig, detail, _ := c03Schema(dyn, "from-input", []string{in})
			c.Eval("E1x|from-input")
			c.Count("xpath_expression_schemas", 1)
			if sig != "" {
				report(sig, detail+"\n"+cs.Note, cs)
			}
		}
	}
	// raw byte strings as schemas
	tokStrings([]string{"{", "}", "\"", ":", "a", "\xff"}, 6, func(s string, k int) bool {
		idx++
		if c.Mine(idx) {
			cs := c03Case{Family: "raw-schema-bytes", Schema: s}
			c.Begin(func() interface{} { return cs })
			sig, detail, _ := c03Schema(s, "raw", nil)
			c.Eval("E1raw|" + fmt.Sprint(len(s)))
			if sig != "" {
				report(sig, detail, cs)
			}
		}
		return true
	})
	// adversarial hand-written schema shapes: template cycles, self reference, deep nesting
	hdr := `"parser_settings":{"version":"omni.2.1","file_format_type":"xml"}`
	adversarial := []string{
		`{"FINAL_OUTPUT":{"template":"A"},"A":{"template":"B"},"B":{"template":"A"}}`,
		`{"FINAL_OUTPUT":{"template":"FINAL_OUTPUT"}}`,
		`{"FINAL_OUTPUT":{"object":{"a":{"template":"A"}}},"A":{"object":{"b":{"template":"A"}}}}`,
		`{"FINAL_OUTPUT":{"xpath_dynamic":{"template":"A"},"object":{}},"A":{"xpath_dynamic":{"template":"A"}}}`,
		`{"FINAL_OUTPUT":{"custom_func":{"name":"concat","args":[{"template":"A"}]}},"A":{"custom_func":{"name":"concat","args":[{"template":"A"}]}}}`,
		`{"FINAL_OUTPUT":{"xpath_dynamic":{"custom_func":{"name":"concat","args":[null]}}}}`,
		`{"FINAL_OUTPUT":{"xpath_dynamic":{"const":5}}}`,
		`{"FINAL_OUTPUT":{"xpath_dynamic":{"object":{"a":null}}}}`,
		`{"FINAL_OUTPUT":{"xpath_dynamic":{"array":[null]}}}`,
		`{"FINAL_OUTPUT":{"xpath_dynamic":{"xpath_dynamic":{"xpath_dynamic":{"const":"a"}}}}}`,
		`{"FINAL_OUTPUT":{"xpath_dynamic":{"template":"nope"}}}`,
		`{"FINAL_OUTPUT":{"object":{"a":{"xpath_dynamic":{"custom_func":{"name":"upper","args":[]}}}}}}`,
		`{"FINAL_OUTPUT":{"object":{"a":{"xpath_dynamic":{"custom_func":{"name":"nope"}}}}}}`,
	}
	// every declaration body that the JSON-schema validation does not look into (xpath_dynamic contents),
	// with null / wrong-typed / dangling parts, in every context a declaration can be reached from
	bodies := []string{
		`{"xpath_dynamic":{"array":[null]}}`,
		`{"xpath_dynamic":{"array":[{"const":"a"},null]}}`,
		`{"xpath_dynamic":{"object":{"a":null}}}`,
		`{"xpath_dynamic":{"object":{"a":{"object":{"b":null}}}}}`,
		`{"xpath_dynamic":{"custom_func":{"name":"concat","args":[null]}}}`,
		`{"xpath_dynamic":{"custom_func":{"name":"concat","args":[{"const":"a"},null,{"const":"b"}]}}}`,
		`{"xpath_dynamic":{"custom_func":{"name":"concat","args":[{"custom_func":{"name":"concat","args":[null]}}]}}}`,
		`{"xpath_dynamic":{"custom_func":{"name":"concat","args":null}}}`,
		`{"xpath_dynamic":{"custom_func":null}}`,
		`{"xpath_dynamic":{"custom_func":{}}}`,
		`{"xpath_dynamic":{"custom_func":{"name":"concat","args":[{"xpath_dynamic":null}]}}}`,
		`{"xpath_dynamic":{"xpath_dynamic":null}}`,
		`{"xpath_dynamic":{"xpath_dynamic":{"array":[null]}}}`,
		`{"xpath_dynamic":{"template":null}}`,
		`{"xpath_dynamic":{"template":"nope"}}`,
		`{"xpath_dynamic":{"template":5}}`,
		`{"xpath_dynamic":{"const":null}}`,
		`{"xpath_dynamic":{"const":5}}`,
		`{"xpath_dynamic":{"const":"a","type":"nope"}}`,
		`{"xpath_dynamic":{"external":"nope"}}`,
		`{"xpath_dynamic":{"xpath":null}}`,
		`{"xpath_dynamic":{"xpath":"[","object":{}}}`,
		`{"xpath_dynamic":{"object":null}}`,
		`{"xpath_dynamic":{"array":null}}`,
		`{"xpath_dynamic":{"object":{"a":{"xpath":"a","xpath_dynamic":{"const":"a"}}}}}`,
		`{"xpath_dynamic":{"const":"a","xpath":"a","object":{},"array":[],"template":"T","custom_func":{"name":"upper","args":[]}}}`,
		`{"xpath_dynamic":{}}`,
		`{"xpath_dynamic":{"result_type":"nope","const":"a"}}`,
		`{"xpath_dynamic":{"const":"a","keep_empty_or_null":"x"}}`,
	}
	contexts := []func(b string) string{
		func(b string) string { return `{"FINAL_OUTPUT":` + b + `}` },
		func(b string) string { return `{"FINAL_OUTPUT":{"template":"T"},"T":` + b + `}` },
		func(b string) string { return `{"FINAL_OUTPUT":{"object":{"k":{"template":"T"}}},"T":` + b + `}` },
		func(b string) string { return `{"FINAL_OUTPUT":{"object":{"k":` + b + `}}}` },
		func(b string) string { return `{"FINAL_OUTPUT":{"array":[` + b + `]}}` },
		func(b string) string {
			return `{"FINAL_OUTPUT":{"template":"U"},"U":{"object":{"k":{"template":"T"}}},"T":` + b + `}`
		},
		func(b string) string {
			return `{"FINAL_OUTPUT":{"object":{"k":{"custom_func":{"name":"concat","args":[{"template":"T"}]}}}},"T":` + b + `}`
		},
		func(b string) string { return `{"FINAL_OUTPUT":{"object":{"k":{"const":"1"}}},"UNUSED":` + b + `}` },
	}
	for _, b := range bodies {
		for _, cx := range contexts {
			adversarial = append(adversarial, cx(b))
		}
	}
	for _, td := range adversarial {
		idx++
		if !c.Mine(idx) {
			continue
		}
		text := `{` + hdr + `,"transform_declarations":` + td + `}`
		cs := c03Case{Family: "adversarial-declarations", Schema: text, InputS: `<r><a>1</a></r>`}
		c.Begin(func() interface{} { return cs })
		sig, detail, _ := c03Schema(text, "adversarial", []string{cs.InputS})
		c.Eval("E1adv|" + td)
		if sig != "" {
			report(sig, detail, cs)
		}
	}
	// ---- E2: custom_func signatures ----
	for _, name := range c03FuncNames() {
		maxArgs := 4
		if c.Quick() {
			maxArgs = 3
		}
		for argc := 0; argc <= maxArgs; argc++ {
			radix := make([]int, argc)
			for i := range radix {
				radix[i] = len(c03ArgKinds)
			}
			gen.Counter(radix, func(d []int) bool {
				idx++
				if !c.Mine(idx) {
					return true
				}
				args := make([]interface{}, argc)
				for i := range args {
					args[i] = c03ArgKinds[d[i]]
				}
				for _, ctxv := range []gd{
					{"FINAL_OUTPUT": gd{"object": gd{"k": gd{"custom_func": gd{"name": name, "args": args}}}}},
					{"FINAL_OUTPUT": gd{"object": gd{"k": gd{"xpath": "a", "custom_func": gd{"name": name, "args": args, "ignore_error": true}, "type": "int"}}}},
				} {
					cs := c03Case{Family: "custom-func-signature:" + name, Decls: ctxv}
					c.Begin(func() interface{} { return cs })
					sig, detail := c03Func(ctxv)
					c.Eval(fmt.Sprintf("E2|%s|%d", name, argc))
					c.Count("custom_func_call_shapes", 1)
					if sig != "" {
						report(sig, detail, cs)
					}
				}
				return true
			})
		}
		if c.TimeUp() {
			return
		}
	}
	// ---- E2b: custom_func argument VALUES: one special string at one position, the others benign ----
	special := []string{"", " ", "0", "-0", "-1", "1", "00", "1.5", "1e400", "-1e400", "1e-400", "NaN", "Inf", "9223372036854775807", "9223372036854775808", "-9223372036854775809", "18446744073709551616",
		"true", "TRUE", "x", "\x00", "\xff", "\u00e9", "%", "%s", "%!", "\\", "[", "(", ")", "*", "?", "+", "|", ",", "\n", "\t", "2006-01-02", "2006-01-02T15:04:05Z", "0000-00-00", "9999-12-31T23:59:59.999999999Z", "10000-01-01",
		"America/New_York", "Invalid/Zone", "UTC", "Local", "../../etc/passwd", "SECOND", "MILLISECOND", "MINUTE", "yyyy-MM-dd", "01/02/2006", "Mon Jan _2", strings.Repeat("9", 400), strings.Repeat("a", 70000), "{}", "[1]", "{\"a\":", "null"}
	for _, name := range c03FuncNames() {
		if name == "javascript" || name == "javascript_with_context" {
			continue // the first argument is program text: user scripts are outside the claim
		}
		for argc := 1; argc <= 4; argc++ {
			for pos := 0; pos < argc; pos++ {
				for _, benign := range []string{"1", "x"} {
					for _, sp := range special {
						idx++
						if !c.Mine(idx) {
							continue
						}
						args := make([]interface{}, argc)
						for i := range args {
							args[i] = gd{"const": benign}
						}
						args[pos] = gd{"const": sp, "no_trim": true}
						ctxv := gd{"FINAL_OUTPUT": gd{"object": gd{"k": gd{"custom_func": gd{"name": name, "args": args}}}}}
						cs := c03Case{Family: "custom-func-argument-value:" + name, Decls: ctxv}
						c.Begin(func() interface{} { return cs })
						sig, detail := c03Func(ctxv)
						c.Eval(fmt.Sprintf("E2b|%s|%d|%d", name, argc, pos))
						c.Count("custom_func_argument_values", 1)
						if sig != "" {
							report(sig, detail, cs)
						}
					}
				}
			}
		}
		if c.TimeUp() {
			return
		}
	}
	// ---- E2c: odd JavaScript results - as the record's value and handed on as an argument to other functions ----
	oddJS := []string{
		"var a={}; a.a=a; a", "var a=[]; a[0]=a; a", "var a={b:{}}; a.b.c=a; a", "var a=[]; var b=a; for (var i=0;i<20000;i++){ b[0]=[]; b=b[0] } a",
		"var o={}; var p=o; for (var i=0;i<20000;i++){ p.k={}; p=p.k } o", "new Array(100000).join('x')", "new Date(0)", "(function(){})", "Symbol('s')",
		"new Proxy({}, {get: function(){ throw 'x' }})", "({get a(){ throw 1 }})", "({toJSON: function(){ throw 2 }})", "new Uint8Array(4)", "new Map([[1,2]])", "new Set([1])",
		"/re/g", "new Error('e')", "[1,,3]", "Object.create(null)", "(function(){ return arguments })(1,2)", "new Boolean(false)", "this", "JSON", "Math",
		"[NaN, Infinity, -0, undefined, null]", "({a: undefined, b: NaN})", "'\\ud800'", "String.fromCharCode(0)", "1e400", "-1e400", "new Array(5000000)",
		// odd THROWN values: getting the text of the error runs script code again
		"throw {toString: function(){ return 'late ' + typeof zz }}", "throw {toString: function(){ throw 1 }}", "throw {toString: function(){ return {} }, valueOf: function(){ return {} }}",
		"throw Object.create(null)", "throw {toString: 5, valueOf: 5}", "throw new Proxy({}, {get: function(){ throw 2 }})", "var e = new Error('x'); e.toString = function(){ throw 3 }; throw e",
		"var e = new Error('x'); Object.defineProperty(e, 'message', {get: function(){ throw 4 }}); throw e", "throw Symbol('s')", "throw {get message(){ throw 5 }}", "throw null", "throw undefined", "throw [1,[2]]",
	}
	for _, js := range oddJS {
		inner := gd{"custom_func": gd{"name": "javascript", "ignore_error": false, "args": []interface{}{gd{"const": js}}}}
		for vi, ctxv := range []gd{
			{"FINAL_OUTPUT": gd{"object": gd{"k": inner}}},
			{"FINAL_OUTPUT": inner},
			{"FINAL_OUTPUT": gd{"object": gd{"k": gd{"custom_func": gd{"name": "javascript", "args": []interface{}{gd{"const": "typeof x"}, gd{"const": "x"}, inner}}}}}},
			{"FINAL_OUTPUT": gd{"object": gd{"k": gd{"custom_func": gd{"name": "javascript", "args": []interface{}{gd{"const": "JSON.stringify(x)"}, gd{"const": "x"}, inner}}}}}},
			{"FINAL_OUTPUT": gd{"object": gd{"k": gd{"custom_func": gd{"name": "concat", "args": []interface{}{gd{"const": "<"}, inner}}}}}},
			{"FINAL_OUTPUT": gd{"object": gd{"a": inner, "b": inner, "k": gd{"custom_func": gd{"name": "javascript", "args": []interface{}{gd{"const": "x === y"}, gd{"const": "x"}, inner, gd{"const": "y"}, inner}}}}}},
			{"FINAL_OUTPUT": gd{"array": []interface{}{inner, inner}}},
			{"FINAL_OUTPUT": gd{"object": gd{"k": gd{"xpath_dynamic": inner}}}},
			{"FINAL_OUTPUT": gd{"object": gd{"k": cp(inner, "type", "string")}}},
			{"FINAL_OUTPUT": gd{"object": gd{"k": cp(inner, "type", "int")}}},
			{"FINAL_OUTPUT": gd{"object": gd{"k": cp(inner, "type", "boolean", "keep_empty_or_null", true)}}},
			{"FINAL_OUTPUT": gd{"object": gd{"k": gd{"custom_func": gd{"name": "upper", "args": []interface{}{inner}}}}}},
			{"FINAL_OUTPUT": gd{"object": gd{"k": gd{"custom_func": gd{"name": "coalesce", "args": []interface{}{inner, gd{"const": "x"}}}}}}},
		} {
			idx++
			if !c.Mine(idx) {
				continue
			}
			cs := c03Case{Family: "odd-javascript-result", Decls: ctxv, Note: fmt.Sprintf("context %d", vi)}
			c.Begin(func() interface{} { return cs })
			sig, detail := c03Func(ctxv)
			c.Eval(fmt.Sprintf("E2c|%d", vi))
			c.Count("odd_javascript_results", 1)
			if sig != "" {
				report(sig, detail, cs)
			}
		}
	}
	// ---- E1r: regular expressions at every place a pattern can be written ----
	regexes := []string{"", ".*", "^", "$", "^$", "(", ")", "[", "[a", "a*", "a**", "(?i)x", "\\", "\\d+", "[^\\n]*", "(a|b)*", "x|", "|", ".{0,1000}", ".{1001}", "\\pL", "(?P<n>x)", "(?s).*", "(?m)^", "\\b", "\\z", "a{2,1}", "\\1", "(?=x)", "^H", "^.", "^\\s*$", ".", "\\x00", "\u00e9+", "^(H|D|T)", ".*?", "(((((((((((a)))))))))))"}
	for _, it := range seeds {
		if strings.HasPrefix(it.Name, "sample/") {
			continue
		}
		var doc interface{}
		if json.Unmarshal([]byte(it.Schema), &doc) != nil {
			continue
		}
		inputs := it.Inputs
		if len(inputs) > 2 {
			inputs = inputs[:2]
		}
		for _, p := range gen.Positions(doc) {
			if len(p.Path) == 0 {
				continue
			}
			k, ok := p.Path[len(p.Path)-1].(string)
			if !ok || (k != "line_pattern" && k != "header" && k != "footer") {
				continue
			}
			if _, ok := gen.Get(doc, p).(string); !ok {
				continue
			}
			for _, re := range regexes {
				idx++
				if !c.Mine(idx) {
					continue
				}
				text := gen.Marshal(gen.Replace(doc, p, re))
				cs := c03Case{Family: "regex:" + it.Name, Schema: text, InputS: inputs[0], Note: fmt.Sprintf("%s=%q", p, re)}
				c.Begin(func() interface{} { return cs })
				sig, detail, acc := c03Schema(text, it.Name, inputs)
				c.Eval(fmt.Sprintf("E1r|%s|%v", it.Name, acc))
				c.Count("regex_schemas", 1)
				if sig != "" {
					for _, in := range inputs {
						if s2, _, _ := c03Schema(text, it.Name, []string{in}); s2 == sig {
							cs.InputS = in
							break
						}
					}
					report(sig, detail+"\npattern: "+cs.Note, cs)
				}
			}
		}
	}
	// ---- E3l: csv2 line sequences over lines of different field counts ----
	// a header/footer record whose footer never comes keeps every line in the reader's buffer; the records
	// after it (rows 1..3) then take the buffered lines from the front, lines of different field counts
	{
		lines := []string{"B,1,2,3,4", "a", "b,c", "E,9", "", "x,y,z"}
		LL := 5
		if !c.Quick() {
			LL = 6
		}
		for rows := 1; rows <= 3; rows++ {
			for _, first := range []string{`{"name":"A","header":"^B","footer":"^NEVER","min":0,"max":1,"columns":[{"name":"a1","index":2}]},`, `{"name":"A","header":"^B","footer":"^E","min":0,"columns":[{"name":"a1","index":2}]},`, ``} {
				name := fmt.Sprintf("csv2/header-footer-then-rows%d", rows)
				text := `{"parser_settings":{"version":"omni.2.1","file_format_type":"csv2"},"file_declaration":{"delimiter":",","records":[` + first +
					fmt.Sprintf(`{"name":"R","rows":%d,"is_target":true,"columns":[{"name":"c1","index":1,"line_index":1},{"name":"c2","index":2,"line_index":%d}]}]},`, rows, rows) +
					`"transform_declarations":{"FINAL_OUTPUT":{"object":{"c1":{"xpath":"c1"},"c2":{"xpath":"c2"}}}}}`
				schema, err, _ := hx.NewSchema("s", text)
				if err != nil {
					c.HarnessError("csv2 line-sequence schema rejected: " + err.Error())
					return
				}
				gen.Sequences(len(lines), LL, func(seq []int) bool {
					idx++
					if !c.Mine(idx) {
						return true
					}
					var b strings.Builder
					for _, l := range seq {
						b.WriteString(lines[l] + "\n")
					}
					cs := c03Case{Family: "line-sequence:" + name, Schema: text, Input: []byte(b.String())}
					c.Begin(func() interface{} { return cs })
					sig, detail, n := c03Input(schema, name, b.String())
					c.Eval(fmt.Sprintf("E3l|%s|%d|%d", name, len(first), n))
					c.Count("csv2_line_sequences", 1)
					if sig != "" {
						report(sig, detail, cs)
					}
					return true
				})
			}
		}
	}
	// ---- E3: inputs ----
	L := 5
	if !c.Quick() {
		L = 6
	}
	for _, it := range seeds {
		schema, err, _ := hx.NewSchema("s", it.Schema)
		if err != nil {
			continue
		}
		try := func(in, fam string) bool {
			idx++
			if !c.Mine(idx) {
				return true
			}
			cs := c03Case{Family: fam + ":" + it.Name, Schema: it.Schema, Input: []byte(in)}
			c.Begin(func() interface{} { return cs })
			sig, detail, n := c03Input(schema, it.Name, in)
			c.Eval(fmt.Sprintf("E3|%s|%s|%d", it.Name, fam, n))
			c.Count("inputs", 1)
			if sig != "" {
				report(sig, detail, cs)
			}
			return !c.TimeUpEvery(16)
		}
		toks := tokAlphabets[it.Format]
		l := L
		for pow, n := 1, 0; n < l; n++ {
			pow *= len(toks)
			if pow > 200000 {
				l = n
				break
			}
		}
		ok := true
		if strings.HasPrefix(it.Name, "sample/") {
			l = 3
		}
		tokStrings(toks, l, func(s string, k int) bool {
			ok = try(s, "token-string")
			return ok
		})
		if !ok {
			return
		}
		for _, in := range it.Inputs {
			// every single deletion / duplication of a chunk between token-ish boundaries (bytes for short inputs)
			step := 1
			if len(in) > 400 {
				step = len(in) / 400
			}
			for i := 0; i < len(in); i += step {
				j := i + step
				if j > len(in) {
					j = len(in)
				}
				if !try(in[:i]+in[j:], "deletion") || !try(in[:j]+in[i:j]+in[j:], "duplication") || !try(in[:i], "truncation") {
					return
				}
			}
			for _, other := range it.Inputs {
				if !try(in+other, "concatenation") || !try(in+" "+other, "concatenation") || !try(in+"\n"+other, "concatenation") {
					return
				}
			}
			ramp := make([]byte, 256)
			for i := range ramp {
				ramp[i] = byte(i)
			}
			if !try(string(ramp), "byte-ramp") || !try(in+string(ramp), "byte-ramp") || !try(string(ramp[128:])+in, "byte-ramp") {
				return
			}
		}
	}
}

func mustJSON(v interface{}) json.RawMessage {
	b, _ := json.Marshal(v)
	return b
}

// c03XPathExprs: expressions of every result kind of the xpath language (node-sets over every axis,
// booleans from comparisons / and / or / functions, numbers, strings, every core function with and
// without arguments, unions, filters, malformed ones).
func c03XPathExprs() []string {
	return []string{
		".", "..", "/", "*", "@*", "a", "a/b", "//a", "//*", "a[1]", "a[last()]", "a[position()<3]", "a | b", "(a)", "(a | b)[1]", "a/..", "./a", "/r/o/a", "//o[a='1']", "a[.='1']",
		"ancestor::*", "ancestor-or-self::*", "descendant::*", "descendant-or-self::node()", "following::*", "following-sibling::*", "preceding::*", "preceding-sibling::*", "parent::*", "self::node()", "child::a", "attribute::k",
		"text()", "node()", "comment()", "processing-instruction()", "a/text()", "@k", "a/@k",
		"a='1'", "a!='1'", "a<2", "a>=1", "a=b", "a='1' and b='x'", "a='1' or b='x'", "a and b", "a or b", "a and true()", "true() and a", "a='1' and true()", "not(a)", "not(a) and b", "(a='1')", "a='1' | b",
		"true()", "false()", "last()", "position()", "count(a)", "count(*) > 0", "sum(a)", "floor(1.5)", "ceiling(1.5)", "round(1.5)", "number()", "number(a)", "string()", "string(a)", "name()", "name(a)", "local-name()",
		"namespace-uri()", "boolean(a)", "boolean(1)", "concat(a,b)", "contains(a,'1')", "starts-with(a,'1')", "ends-with(a,'1')", "substring(a,1)", "substring(a,1,1)", "substring-before(a,'1')", "substring-after(a,'1')",
		"string-length()", "string-length(a)", "normalize-space()", "normalize-space(a)", "translate(a,'1','2')", "reverse(a)", "matches(a,'1')", "replace(a,'1','2')", "lang('en')", "lower-case(a)",
		"1", "-1", "1.5", "'s'", "\"s\"", "''", "1 + 1", "a + 1", "-a", "a * 2", "a div 0", "a mod 0", "1 div 0", "1 and 2", "'a' = 'a'", "1 = 1",
		// numeric comparisons inside predicates, met with non-numeric data
		"a[.>1]", "a[.<1]", "a[.>=1]", "a[.=1]", "a[.!=1]", "*[.>1]", "//*[.>1]", ".[a>1]", ".[b>1]", ".[b=1]", "//o[b>1]", "//o[b<=1]", "a[b>1]", "*[number(.)>1]", "a[.>'1']", "a[.>b]", "a[1>.]", "a[.+1>1]", "a[sum(../*)>1]", "a[. div 1 > 0]",
		// functions whose implementation panics on some argument values
		"a[substring(., 5) = '']", "a[substring(., 0, -1) = '']", "a[substring(., 2, 99) = '']", "a[matches(., '(')]", "a[matches(., '[')]", "a[round(1.5) = 2]", "a[contains(., ../b)]", "a[contains(., ../*)]", "a[starts-with(., ../*)]",
		"a[5 mod 0 = 0]", ".[5 mod 0 = 0]", "a[. mod 0 = 0]", "a[floor(.) = 1]", "a[ceiling(b) = 1]", "a[round(.) = 1]", "a[translate(., 'ab', 'a') = '']", "a[replace(., '(', 'x') = '']", "a[string-length(../*) = 1]", "a[normalize-space(../*) = '']",
		"a[sum(../b) = 1]", "a[number(../*) = 1]", "a[concat(., ../*) = '']", "a[substring-before(., ../*) = '']", "a[reverse(..)]", "a[lang('en')]", "a[name(..) = 'o']", "a[local-name(../*) = 'a']", "a[count(.) = '1']", "a[position() = last()]", "a[last() = 'x']", "a[position() > 'x']",
		// a comparison / boolean / number where a node-set is required inside a node-set expression
		"a | (1=1)", "a | (b='x')", "a | (1=2)", "(a='1')/b", "(1=1)/a", "a | true()", "a | 1", "a | 'x'", "a | count(b)", "(a | (1=1))[1]", "a[b] | (b='x')", "//a | //b[.=(1=1)]", "a | (b and a)", "a | not(b)",
		// ... and the same inside a predicate, also as the argument of a function (which the engine keeps where its query tree doesn't show it)
		".[(a='1') | b]", "a[(.='1') | ../b]", "a[reverse(.='1')]", "a[(.='1')[2]]", "a[(.!=../b)[2]]", ".[count((a!=b)[1]) > 0]", ".[contains((a='1') | b, '1')]", ".[string-length((a='1')[1]) > 0]",
		".[concat((a='1') | b, 'x') != '']", ".[name((a='1') | b) = 'a']", ".[((a='1') or b)[1]]", ".[sum((a='1') | b) > 0]", ".[(a='1')/b]", ".[not((a='1') | b)]", ".[boolean((a='1')[1])]", ".[starts-with((a='1')/b, 'x')]",
		"a[. = ((../a='1') | ../b)]", ".[((a='1'))[1]]", ".[normalize-space((a='1') | b) = '1']", ".[substring((a='1') | b, 1) = '1']", ".[translate((a='1')[1], '1', '2') = '2']", "//*[(.='1') | .]", ".[number((a='1') | b) = 1]",
		// (groups that are fine: they are operands of operators, not node-sets)
		"a[(.='1') and ../b]", ".[(a='1' or b) and a]", "a[not(.='1')]", ".[(1+2)*3 = 9]", "(a[.='1'])[1]", "a[. = (../a | ../b)]", ".[count(a[.='1']) > 0]",
		"a[true()]", "a[false()]", "a[b and true()]", "a[not(b)]", "a[position()]", "a[last()][1]", "a[1][1]", "a[b[c]]", "a[.=..]", "//*[.//*]", "a[count(b)]", "a[string()]", "a[1 div 0]", "a[0]", "a[-1]", "a['x']", "a[''])",
		"", " ", "[", "]", "a[", "a]", "//", "///", "a//", "@", "a/@", "a::b", "child::", "a b", "a,b", "a=", "=a", "and", "or", "()", "(", "a |", "| a", "$a", "a[$b]", "1 2", "a/(b)", "a/(b and c)", "f()", "a:b", "a:*", "*:a", "@a:b",
		"a[1", "a[1]]", "'unterminated", "a[.='x]", "//*[text()='1' and @k]", ".[a!='0' and b!='z']", "./.", "./..", "../..", "/..", "/.", "a/./b", ".//.",
	}
}
