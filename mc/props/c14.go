package props

import (
	"encoding/json"
	"fmt"
	"strings"

	"github.com/jf-tech/omniparser"
	"github.com/jf-tech/omniparser/customfuncs"
	"github.com/jf-tech/omniparser/extensions/omniv21"
	v21 "github.com/jf-tech/omniparser/extensions/omniv21/customfuncs"
	"github.com/jf-tech/omniparser/idr"
	"github.com/jf-tech/omniparser/transformctx"

	"verif/mc/core"
	"verif/mc/hx"
	"verif/mc/vsync"
)

// C14 — schemas and process-wide state are safe to share between goroutines: preemption-bounded
// schedule exploration under the cooperative scheduler + free-running race pass.

type c14Thread struct {
	Kind   string            `json:"kind"` // transform | newschema | transform-nil-ctx (NewTransform without a context, input named Name)
	Name   string            `json:"input_name,omitempty"`
	Schema int               `json:"schema"` // index into the scenario's schema list
	Input  string            `json:"input,omitempty"`
	Ext    map[string]string `json:"externals,omitempty"` // this thread's external properties
}

type c14Scenario struct {
	Name    string            `json:"name"`
	Schemas []string          `json:"schemas"`
	Threads []c14Thread       `json:"threads"`
	Ext     map[string]string `json:"externals,omitempty"`
	// NavSteps adds a scheduling point at every xpath navigator move (child / next / parent / attribute),
	// so that state shared through a compiled xpath expression is interleaved mid-query.
	NavSteps bool `json:"nav_steps,omitempty"`
	Bound    int  `json:"bound,omitempty"` // preemption bound override
}

type c14Case struct {
	Scenario c14Scenario `json:"scenario"`
	Schedule []int       `json:"schedule"`
}

// lean per-format schemas: few fields, but every kind of shared state is touched (xpath cache,
// node pool, VM pool, program cache, node-JSON cache, custom_func declarations with xpath args).
func c14Formats() map[string]c10Fmt {
	h := func(f string) string {
		return `"parser_settings":{"version":"omni.2.1","file_format_type":"` + f + `"}`
	}
	js := `{"custom_func":{"name":"javascript","args":[{"const":"v + '!'"},{"const":"v"},{"xpath":"J"}]}}`
	ctx := `{"custom_func":{"name":"javascript_with_context","args":[{"const":"JSON.parse(_node).J"}]}}`
	// the later arguments use xpath texts not evaluated elsewhere, so that they are not served by
	// the per-record result cache and their evaluation is a scheduling point inside the call
	up := `{"custom_func":{"name":"concat","args":[{"xpath":"N"},{"const":"-"},{"xpath":"./J"},{"const":"-"},{"xpath":"./N"}]}}`
	return map[string]c10Fmt{
		"xml": {Name: "xml", Schema: `{` + h("xml") + `,"transform_declarations":{"FINAL_OUTPUT":{"xpath":"/r/o","object":{"n":{"xpath":"N","type":"int"},"j":` + js + `,"k":` + ctx + `,"u":` + up + `}}}}`,
			Prefix: "<r>", Suffix: "</r>", Rec: map[byte]string{'A': `<o><N>1</N><J>x</J></o>`, 'B': `<o><N>22</N><J>y</J></o>`, 'C': `<o><N>zz</N><J>w</J></o>`}},
		"json": {Name: "json", Schema: `{` + h("json") + `,"transform_declarations":{"FINAL_OUTPUT":{"xpath":"/*","object":{"n":{"xpath":"N","type":"int"},"j":` + js + `,"k":` + ctx + `,"u":` + up + `}}}}`,
			Prefix: "[", Suffix: "]", Sep: ",", Rec: map[byte]string{'A': `{"N":1,"J":"x"}`, 'B': `{"N":22,"J":"y"}`, 'C': `{"N":"zz","J":"w"}`}},
		"csv": {Name: "csv", Schema: `{` + h("csv") + `,"file_declaration":{"delimiter":",","data_row_index":1,"columns":[{"name":"N"},{"name":"J"}]},"transform_declarations":{"FINAL_OUTPUT":{"object":{"n":{"xpath":"N","type":"int"},"j":` + js + `,"u":` + up + `}}}}`,
			Rec: map[byte]string{'A': "1,x\n", 'B': "22,y\n", 'C': "zz,w\n"}},
		"csv2": {Name: "csv2", Schema: `{` + h("csv2") + `,"file_declaration":{"delimiter":",","records":[{"name":"R","columns":[{"name":"N"},{"name":"J"}]}]},"transform_declarations":{"FINAL_OUTPUT":{"object":{"n":{"xpath":"N","type":"int"},"j":` + js + `,"u":` + up + `}}}}`,
			Rec: map[byte]string{'A': "1,x\n", 'B': "22,y\n", 'C': "zz,w\n"}},
		"fixed-length": {Name: "fixed-length", Schema: `{` + h("fixed-length") + `,"file_declaration":{"envelopes":[{"columns":[{"name":"N","start_pos":1,"length":2},{"name":"J","start_pos":3,"length":1}]}]},"transform_declarations":{"FINAL_OUTPUT":{"object":{"n":{"xpath":"N","type":"int"},"u":` + up + `}}}}`,
			Rec: map[byte]string{'A': " 1x\n", 'B': "22y\n", 'C': "zzw\n"}},
		"fixedlength2": {Name: "fixedlength2", Schema: `{` + h("fixedlength2") + `,"file_declaration":{"envelopes":[{"name":"R","columns":[{"name":"N","start_pos":1,"length":2},{"name":"J","start_pos":3,"length":1}]}]},"transform_declarations":{"FINAL_OUTPUT":{"object":{"n":{"xpath":"N","type":"int"},"u":` + up + `}}}}`,
			Rec: map[byte]string{'A': " 1x\n", 'B': "22y\n", 'C': "zzw\n"}},
		"edi": {Name: "edi", Schema: `{` + h("edi") + `,"file_declaration":{"segment_delimiter":"~","element_delimiter":"*","segment_declarations":[{"name":"A","is_target":true,"min":0,"max":-1,"elements":[{"name":"N","index":1},{"name":"J","index":2}]}]},"transform_declarations":{"FINAL_OUTPUT":{"object":{"n":{"xpath":"N","type":"int"},"j":` + js + `,"u":` + up + `}}}}`,
			Rec: map[byte]string{'A': "A*1*x~", 'B': "A*22*y~", 'C': "A*zz*w~"}},
	}
}

func c14Scenarios(quick bool) []c14Scenario {
	f := c14Formats()
	job := map[string]c13Job{}
	for _, j := range c13Jobs(true) {
		if !strings.HasPrefix(j.Name, "c02:") {
			job[j.Name] = j
		}
	}
	two := func(name, format, seqA, seqB string) c14Scenario {
		x := f[format]
		return c14Scenario{Name: name, Schemas: []string{x.Schema}, Threads: []c14Thread{
			{Kind: "transform", Schema: 0, Input: c10Input(x, seqA)}, {Kind: "transform", Schema: 0, Input: c10Input(x, seqB)}}}
	}
	sc := []c14Scenario{
		two("xml-shared-schema", "xml", "AB", "BA"),
		two("json-shared-schema", "json", "AC", "BA"),
		two("csv2-shared-schema", "csv2", "AB", "CB"),
		two("edi-shared-schema", "edi", "BA", "AC"),
		{Name: "fixedlength2+csv-different-schemas", Schemas: []string{f["fixedlength2"].Schema, f["csv"].Schema}, Threads: []c14Thread{
			{Kind: "transform", Schema: 0, Input: c10Input(f["fixedlength2"], "AB")}, {Kind: "transform", Schema: 1, Input: c10Input(f["csv"], "BA")}}},
		{Name: "newschema-while-transforming", Schemas: []string{f["xml"].Schema, f["json"].Schema}, Threads: []c14Thread{
			{Kind: "newschema", Schema: 1}, {Kind: "transform", Schema: 0, Input: c10Input(f["xml"], "AB")}}},
		{Name: "newschema-twice", Schemas: []string{f["csv2"].Schema}, Threads: []c14Thread{{Kind: "newschema", Schema: 0}, {Kind: "newschema", Schema: 0}}},
		{Name: "context-on-ancestor-shared-schema", Schemas: []string{job["xml-context-on-ancestor"].Schema}, Threads: []c14Thread{
			{Kind: "transform", Schema: 0, Input: `<r><h>H</h><g><o><v>1</v></o><o><v>2</v></o></g></r>`}, {Kind: "transform", Schema: 0, Input: `<r><h>I</h><g><o><v>3</v><w>x</w></o></g></r>`}}},
		{Name: "argument-leak-probe-shared-schema", Schemas: []string{job["js-argument-leak-probe"].Schema}, Threads: []c14Thread{
			{Kind: "transform", Schema: 0, Input: `[{"x":"1","k":"a"},{"x":"boom","k":"b"}]`}, {Kind: "transform", Schema: 0, Input: `[{"x":"boom","k":"c"},{"x":"4","k":"d"}]`}}},
	}
	// xpath_dynamic: the expression comes with the record, so the two transforms compile and run DIFFERENT
	// expressions at the same place of one shared schema (whatever is remembered about "the last expression"
	// is shared state)
	dyn := `{` + c10Hdr("xml") + `,"transform_declarations":{"FINAL_OUTPUT":{"xpath":"/r/o","object":{"v":{"xpath_dynamic":{"xpath":"e"}},"w":{"xpath_dynamic":{"custom_func":{"name":"concat","args":[{"xpath":"e"},{"const":"[1]"}]}}}}}}}`
	sc = append(sc, c14Scenario{Name: "xpath-dynamic-different-expressions-shared-schema", Schemas: []string{dyn}, Threads: []c14Thread{
		{Kind: "transform", Schema: 0, Input: `<r><o><e>N</e><N>1</N><J>x</J></o><o><e>J</e><N>2</N><J>y</J></o></r>`},
		{Kind: "transform", Schema: 0, Input: `<r><o><e>J</e><N>3</N><J>z</J></o><o><e>M</e><N>4</N><M>m</M></o></r>`}}})
	// no context given to NewTransform, inputs under different names, each with a record that fails (the
	// failure's text names the input)
	noCtx := `{` + c10Hdr("csv") + `,"file_declaration":{"delimiter":",","data_row_index":1,"columns":[{"name":"N"}]},"transform_declarations":{"FINAL_OUTPUT":{"object":{"n":{"xpath":"N","type":"int"},"input":{"custom_func":{"name":"ctxname"}}}}}}`
	sc = append(sc, c14Scenario{Name: "no-context-different-input-names", Schemas: []string{noCtx}, Threads: []c14Thread{
		{Kind: "transform-nil-ctx", Name: "first-input", Schema: 0, Input: "1\nx\n2\n"},
		{Kind: "transform-nil-ctx", Name: "second-input", Schema: 0, Input: "y\n3\n"}}},
		c14Scenario{Name: "context-per-transform-different-input-names", Schemas: []string{noCtx}, Threads: []c14Thread{
			{Kind: "transform", Schema: 0, Input: "1\nx\n2\n"}, {Kind: "transform", Schema: 0, Input: "y\n3\n"}}})
	// multi-line envelopes of the old fixed-length reader (per-envelope bookkeeping while lines are read)
	flRows := `{` + c10Hdr("fixed-length") + `,"file_declaration":{"envelopes":[{"by_rows":2,"columns":[{"name":"N","start_pos":1,"length":2},{"name":"J","start_pos":1,"length":1,"line_pattern":"^[a-z]"}]}]},"transform_declarations":{"FINAL_OUTPUT":{"object":{"n":{"xpath":"N","type":"int"},"j":{"xpath":"J"}}}}}`
	flHF := `{` + c10Hdr("fixed-length") + `,"file_declaration":{"envelopes":[{"name":"E","by_header_footer":{"header":"^H","footer":"^F"},"columns":[{"name":"N","start_pos":2,"length":2},{"name":"J","start_pos":1,"length":1,"line_pattern":"^[a-z]"}]}]},"transform_declarations":{"FINAL_OUTPUT":{"object":{"n":{"xpath":"N","type":"int"},"j":{"xpath":"J"}}}}}`
	sc = append(sc,
		c14Scenario{Name: "fixed-length-by-rows-shared-schema", Schemas: []string{flRows}, Threads: []c14Thread{
			{Kind: "transform", Schema: 0, Input: "11\nab\n22\ncd\n"}, {Kind: "transform", Schema: 0, Input: "33\nef\n"}}},
		c14Scenario{Name: "fixed-length-header-footer-shared-schema", Schemas: []string{flHF}, Threads: []c14Thread{
			{Kind: "transform", Schema: 0, Input: "H11\nab\nF\n"}, {Kind: "transform", Schema: 0, Input: "H22\ncd\nF\nH33\nef\nF\n"}}},
	)
	// one Schema, different external properties per Transform (typed externals, also through a template)
	extSchema := `{` + c10Hdr("csv") + `,"file_declaration":{"delimiter":",","data_row_index":1,"columns":[{"name":"A"}]},"transform_declarations":{"FINAL_OUTPUT":{"object":{"a":{"xpath":"A"},"n":{"external":"n","type":"int"},"b":{"external":"b","type":"boolean"},"s":{"external":"s"},"t":{"template":"T"}}},"T":{"external":"n","type":"float"}}}`
	sc = append(sc, c14Scenario{Name: "typed-externals-shared-schema", Schemas: []string{extSchema}, Threads: []c14Thread{
		{Kind: "transform", Schema: 0, Input: "x\ny\n", Ext: map[string]string{"n": "7", "b": "true", "s": "one"}},
		{Kind: "transform", Schema: 0, Input: "z\n", Ext: map[string]string{"n": "8", "b": "false", "s": "two"}}}})
	// namespaced XML: two readers binding the same URI to different prefixes (anything the readers share
	// would mix them up), and namespaced XML next to a flat format (nodes recycled from one to the other)
	nsA := `{` + c10Hdr("xml") + `,"transform_declarations":{"FINAL_OUTPUT":{"xpath":"/a:r/a:o","object":{"n":{"xpath":"a:N","type":"int"},"k":{"xpath":"@a:k"}}}}}`
	nsB := `{` + c10Hdr("xml") + `,"transform_declarations":{"FINAL_OUTPUT":{"xpath":"/b:r/b:o","object":{"n":{"xpath":"b:N","type":"int"},"k":{"xpath":"@b:k"}}}}}`
	sc = append(sc,
		c14Scenario{Name: "xml-same-uri-different-prefixes", Schemas: []string{nsA, nsB}, Threads: []c14Thread{
			{Kind: "transform", Schema: 0, Input: `<a:r xmlns:a="u"><a:o a:k="1"><a:N>1</a:N></a:o><a:o><a:N>2</a:N></a:o></a:r>`},
			{Kind: "transform", Schema: 1, Input: `<b:r xmlns:b="u"><b:o b:k="3"><b:N>3</b:N></b:o><b:o><b:N>4</b:N></b:o></b:r>`}}},
		c14Scenario{Name: "xml-namespaces+csv-different-schemas", Schemas: []string{nsA, f["csv"].Schema}, Threads: []c14Thread{
			{Kind: "transform", Schema: 0, Input: `<a:r xmlns:a="u"><a:o a:k="1"><a:N>1</a:N></a:o><a:o><a:N>2</a:N></a:o></a:r>`},
			{Kind: "transform", Schema: 1, Input: c10Input(f["csv"], "AB")}}},
	)
	// scheduling points inside xpath evaluation: record filters and field queries on a shared schema
	navCsv := `{` + c10Hdr("csv") + `,"file_declaration":{"delimiter":",","data_row_index":1,"columns":[{"name":"N"},{"name":"J"}]},"transform_declarations":{"FINAL_OUTPUT":{"xpath":".[N!='0' and J!='z']","object":{"n":{"xpath":"N","type":"int"},"j":{"xpath":"J[.!='q']"}}}}}`
	navEdi := `{` + c10Hdr("edi") + `,"file_declaration":{"segment_delimiter":"~","element_delimiter":"*","segment_declarations":[{"name":"A","is_target":true,"min":0,"max":-1,"elements":[{"name":"N","index":1},{"name":"J","index":2}]}]},"transform_declarations":{"FINAL_OUTPUT":{"xpath":".[N!='0' and J!='z']","object":{"n":{"xpath":"N","type":"int"},"j":{"xpath":"J"}}}}}`
	navXML := `{` + c10Hdr("xml") + `,"transform_declarations":{"FINAL_OUTPUT":{"xpath":"/r/o[N!='0' and J!='z']","object":{"n":{"xpath":"N","type":"int"},"j":{"xpath":"J"},"h":{"xpath":"../h"}}}}}`
	sc = append(sc,
		c14Scenario{Name: "navsteps-csv-record-filter", NavSteps: true, Bound: 1, Schemas: []string{navCsv}, Threads: []c14Thread{
			{Kind: "transform", Schema: 0, Input: "1,a\n0,b\n"}, {Kind: "transform", Schema: 0, Input: "0,c\n2,z\n3,d\n"}}},
		c14Scenario{Name: "navsteps-edi-record-filter", NavSteps: true, Bound: 1, Schemas: []string{navEdi}, Threads: []c14Thread{
			{Kind: "transform", Schema: 0, Input: "A*1*a~A*0*b~"}, {Kind: "transform", Schema: 0, Input: "A*0*c~A*3*d~"}}},
		c14Scenario{Name: "navsteps-xml-stream-filter", NavSteps: true, Bound: 1, Schemas: []string{navXML}, Threads: []c14Thread{
			{Kind: "transform", Schema: 0, Input: "<r><h>H</h><o><N>1</N><J>a</J></o><o><N>0</N><J>b</J></o></r>"}, {Kind: "transform", Schema: 0, Input: "<r><h>I</h><o><N>2</N><J>z</J></o><o><N>3</N><J>d</J></o></r>"}}},
	)
	if !quick {
		x := f["xml"]
		sc = append(sc,
			two("fixed-length-shared-schema", "fixed-length", "AB", "BC"),
			two("csv-shared-schema", "csv", "AB", "CA"),
			two("fixedlength2-shared-schema", "fixedlength2", "AB", "BC"),
			c14Scenario{Name: "three-threads-xml", Schemas: []string{x.Schema}, Threads: []c14Thread{
				{Kind: "transform", Schema: 0, Input: c10Input(x, "A")}, {Kind: "transform", Schema: 0, Input: c10Input(x, "B")}, {Kind: "transform", Schema: 0, Input: c10Input(x, "C")}}},
			c14Scenario{Name: "three-threads-mixed", Schemas: []string{x.Schema, f["json"].Schema, f["edi"].Schema}, Threads: []c14Thread{
				{Kind: "transform", Schema: 0, Input: c10Input(x, "A")}, {Kind: "transform", Schema: 1, Input: c10Input(f["json"], "B")}, {Kind: "newschema", Schema: 2}}},
		)
	}
	return sc
}

// c14Ext registers one caller function, ctxname, that returns the input name its transform context carries.
var c14Ext = omniparser.Extension{
	CreateSchemaHandler: omniv21.CreateSchemaHandler,
	CustomFuncs: customfuncs.Merge(customfuncs.CommonCustomFuncs, v21.OmniV21CustomFuncs, customfuncs.CustomFuncs{
		"ctxname": func(ctx *transformctx.Ctx) (string, error) {
			if ctx == nil {
				return "no context", nil
			}
			return ctx.InputName, nil
		}}),
}

func c14Solo(schema omniparser.Schema, th c14Thread, schemaText string) string {
	if th.Kind == "newschema" {
		_, err, ps := hx.NewSchema("s", schemaText)
		return fmt.Sprintf("newschema err=%v %s", err, ps)
	}
	if th.Kind == "transform-nil-ctx" {
		// a caller that passes no context: whatever NewTransform does with that (today: it panics), it does the
		// same whether or not another Transform is being created or read at the same time
		var out []string
		pv, site := core.Safe(func() {
			tr, err := schema.NewTransform(th.Name, strings.NewReader(th.Input), nil)
			if err != nil {
				out = append(out, "newtransform: "+err.Error())
				return
			}
			for i := 0; i < 100; i++ {
				b, err := tr.Read()
				st := hx.Classify(b, err)
				out = append(out, st.String())
				if st.Terminal() {
					return
				}
			}
		})
		if pv != nil {
			out = append(out, "panic @ "+site)
		}
		return strings.Join(out, "\n")
	}
	r := hx.Run(schema, strings.NewReader(th.Input), hx.Opts{MaxReads: 100, Externals: th.Ext})
	return hx.Transcript(r.Steps) + r.NewTransformErr + r.PanicSite
}

// c14Run executes one schedule of a scenario; it returns per-thread results.
func c14Run(sc c14Scenario, x *core.Exec) (results []string, panics string, deadlock bool, harness string) {
	resetProcessState()
	schemas := make([]omniparser.Schema, len(sc.Schemas))
	for i, t := range sc.Schemas {
		s, err, _ := hx.NewSchema("s", t, c14Ext)
		if err != nil {
			return nil, "", false, "schema rejected: " + err.Error()
		}
		schemas[i] = s
	}
	results = make([]string, len(sc.Threads))
	var bodies []func()
	for i, th := range sc.Threads {
		i, th := i, th
		bodies = append(bodies, func() { results[i] = c14Solo(schemas[th.Schema], th, sc.Schemas[th.Schema]) })
	}
	if sc.NavSteps {
		if !idr.VerifNavStepsInstalled {
			return nil, "", false, "navigator scheduling points could not be installed by the overlay"
		}
		idr.VerifNavStep = vsync.Yield
		defer func() { idr.VerifNavStep = nil }()
	}
	ps, dl := vsync.RunThreads(x.Choose, bodies)
	for _, p := range ps {
		if p != nil {
			panics += fmt.Sprintf("thread %d: %v @ %s; ", p.Thread, p.Value, core.PanicSite(p.Stack))
		}
	}
	return results, panics, dl, ""
}

func c14Expected(sc c14Scenario) ([]string, string) {
	var out []string
	for _, th := range sc.Threads {
		resetProcessState()
		s, err, _ := hx.NewSchema("s", sc.Schemas[th.Schema], c14Ext)
		if err != nil {
			return nil, "schema rejected: " + err.Error()
		}
		out = append(out, c14Solo(s, th, sc.Schemas[th.Schema]))
	}
	return out, ""
}

func c14Check(cs c14Case, want []string) (sig, detail string, points int) {
	if want == nil {
		var h string
		want, h = c14Expected(cs.Scenario)
		if h != "" {
			return "harness:expected", h, 0
		}
	}
	x := &core.Exec{Prefix: cs.Schedule}
	got, panics, dl, h := c14Run(cs.Scenario, x)
	if h != "" {
		return "harness:run", h, 0
	}
	points = len(x.Points)
	switch {
	case panics != "":
		return "panic-under-interleaving:" + cs.Scenario.Name, fmt.Sprintf("schedule %v: %s", x.Choices(), panics), points
	case dl:
		return "deadlock:" + cs.Scenario.Name, fmt.Sprintf("schedule %v", x.Choices()), points
	}
	for i := range got {
		if got[i] != want[i] {
			return "thread-result-differs-from-solo-run:" + cs.Scenario.Name, fmt.Sprintf("schedule %v: thread %d\n-- interleaved:\n%s\n-- alone:\n%s", x.Choices(), i, got[i], want[i]), points
		}
	}
	return "", "", points
}

func init() {
	core.Register(&core.Prop{
		ID:    "C14",
		Level: "model_checking",
		Rule:  "scenarios of 2 (thorough: also 3) threads, each either NewSchema or NewTransform + read to EOF over the same or different Schemas (all seven formats, javascript, javascript_with_context on record and ancestors, templates, copy, 2-record inputs, multi-line fixed-length envelopes; navsteps scenarios add a scheduling point at every xpath navigator move, bound 1, thorough 2); every schedule with at most 2 preemptions (thorough: 3 for three of the 2-thread scenarios) under the cooperative scheduler with a scheduling point before and after every node-pool / VM-pool operation, at every atomic add and around every LoadingCache lookup/load/add; all process-wide state is reset before every schedule; every thread's transcript must equal its solo transcript, no panic, no deadlock; states = scheduling points visited, transitions = thread steps; plus a free-running pass of all jobs on shared Schema objects under the race detector with GOMAXPROCS 1, 2, 16; the free-running pass starts with a cold phase: a new Schema object used for the first time by 4 goroutines at once; a second free-running scenario creates schemas (builtin format, caller-supplied format, a rejected one) from 8 goroutines through ONE shared Extension whose CustomFileFormats slice has spare capacity",
		Assumptions: []string{
			"only interleavings at the hooked operations are explored; unsynchronised plain memory accesses are the race detector's job (free-running pass, not exhaustive over schedules)",
			"goja VMs, encoding/* decoders and the hashicorp LRU are treated as atomic between scheduling points",
		},
		BudgetQuick: 400, BudgetThorough: 1600,
		Run: func(c *core.Ctx) {
			bound := 2
			for si, sc := range c14Scenarios(c.Quick()) {
				sc := sc
				want, h := c14Expected(sc)
				if h != "" {
					c.HarnessError(sc.Name + ": " + h)
					continue
				}
				b := bound
				if !c.Quick() && len(sc.Threads) == 2 && (sc.Name == "json-shared-schema" || sc.Name == "context-on-ancestor-shared-schema" || sc.Name == "argument-leak-probe-shared-schema") {
					b = 3 // three preemptions for the scenarios richest in shared state
				}
				if sc.Bound > 0 {
					b = sc.Bound
					if !c.Quick() {
						b++
					}
				}
				var sig, detail string
				var pts int
				outcomes := map[string]bool{}
				st := core.Explore(b, c.Shard, c.NShards, 0, func(x *core.Exec) {
					c.Begin(func() interface{} { return c14Case{Scenario: sc, Schedule: x.Choices()} })
					cs := c14Case{Scenario: sc, Schedule: x.Prefix}
					// run through the same Exec so that the explorer sees the choice points
					got, panics, dl, hh := c14Run(sc, x)
					sig, detail, pts = "", "", len(x.Points)
					switch {
					case hh != "":
						sig, detail = "harness:run", hh
					case panics != "":
						sig, detail = "panic-under-interleaving:"+sc.Name, fmt.Sprintf("schedule %v: %s", x.Choices(), panics)
					case dl:
						sig, detail = "deadlock:"+sc.Name, fmt.Sprintf("schedule %v", x.Choices())
					default:
						for i := range got {
							if got[i] != want[i] {
								sig, detail = "thread-result-differs-from-solo-run:"+sc.Name, fmt.Sprintf("schedule %v: thread %d\n-- interleaved:\n%s\n-- alone:\n%s", x.Choices(), i, got[i], want[i])
								break
							}
						}
					}
					outcomes[strings.Join(got, "\x00")] = true
					_ = cs
				}, func(x *core.Exec) bool {
					c.Eval(fmt.Sprintf("%d|%d", si, pts))
					c.Count("transitions", int64(pts))
					c.Count("traces_validated_against_impl", 1)
					if strings.HasPrefix(sig, "harness:") {
						c.HarnessError(sig + ": " + detail)
					} else if sig != "" {
						cs := c14Case{Scenario: sc, Schedule: x.Choices()}
						c.Violation(sig, detail, cs, func() string { s, _, _ := c14Check(cs, want); return s })
					}
					return !c.TimeUp()
				})
				c.Count("schedules", int64(st.Executions))
				c.Count("schedules:"+sc.Name, int64(st.Executions))
				c.Count("states", int64(st.Points))
				c.Max("scheduling_points_per_execution", int64(st.MaxPoints))
				c.Max("preemption_bound_completed", int64(b))
				if st.Capped {
					c.NotExhaustive("execution cap")
				}
				if c.Shard == 0 {
					c.Sample(map[string]interface{}{"scenario": sc.Name, "threads": len(sc.Threads), "scheduling_points_default_schedule": st.MaxPoints, "distinct_outcomes_this_worker": len(outcomes)})
				}
			}
			if c.Shard == 0 {
				for _, scn := range []string{"transforms", "newschema"} {
					if msg := runRaceBinary(scn, c.Alive); msg != "" {
						if strings.HasPrefix(msg, "skip:") {
							c.Note("free-running -race pass not run: " + msg)
						} else {
							c.Violation("data-race-or-wrong-result-in-free-running-pass", msg, c14Case{}, nil)
						}
					} else {
						c.Count("race_pass_runs", 1)
					}
				}
			}
		},
		Replay: func(raw json.RawMessage) (string, string) {
			var cs c14Case
			if err := json.Unmarshal(raw, &cs); err != nil {
				return "harness:bad-replay", err.Error()
			}
			sig, detail, _ := c14Check(cs, nil)
			if sig == "" {
				detail = "every thread equals its solo run under this schedule"
			}
			return sig, detail
		},
	})
}

func c10Hdr(f string) string {
	return `"parser_settings":{"version":"omni.2.1","file_format_type":"` + f + `"}`
}
