package props

import (
	"github.com/jf-tech/go-corelib/caches"
	v21cf "github.com/jf-tech/omniparser/extensions/omniv21/customfuncs"
	"github.com/jf-tech/omniparser/extensions/omniv21/transform"
	"github.com/jf-tech/omniparser/idr"

	"verif/mc/vsync"
)

// resetProcessState puts the process-wide state the library keeps (node pool, ID counter, the
// LRU caches, the JavaScript caches and VM pool, shim switches) back to its initial condition:
// process-wide state is part of the initial state of every execution.
func resetProcessState() {
	idr.VerifSetNodeCaching(true)
	idr.VerifResetNodePool()
	idr.VerifSetNodeID(0)
	v21cf.VerifSetDisableCaching(false)
	v21cf.VerifResetCaches()
	caches.XPathExprCache = caches.NewLoadingCache()
	idr.VerifResetXPathKindCache()
	caches.RegexCache = caches.NewLoadingCache()
	caches.TimeLocationCache = caches.NewLoadingCache()
	transform.VerifDisableTransformCache = false
	vsync.PoolChoice = nil
	vsync.PoolGets, vsync.PoolReuses, vsync.PoolPuts = 0, 0, 0
}
