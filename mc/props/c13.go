package props

import (
	"encoding/json"
	"fmt"
	"io"
	"strings"

	"github.com/jf-tech/go-corelib/caches"
	"github.com/jf-tech/omniparser"
	"github.com/jf-tech/omniparser/extensions/omniv21"
	v21cf "github.com/jf-tech/omniparser/extensions/omniv21/customfuncs"
	"github.com/jf-tech/omniparser/extensions/omniv21/transform"
	"github.com/jf-tech/omniparser/idr"
	"github.com/jf-tech/omniparser/transformctx"

	"verif/mc/core"
	"verif/mc/hx"
	"verif/mc/vsync"
)

// C13 — caches and pools are semantically invisible: configuration lattice x corpus, differential
// against the all-enabled run.

type c13Cfg struct {
	NodePool  int `json:"node_pool"`          // 0 on, 1 off, 2 emptied before every Read, 3 Get always answers 'fresh', 4 Get answers 'oldest'
	Transform int `json:"transform_cache"`    // 0 on, 1 off
	XPath     int `json:"xpath_cache"`        // 0 default, 1 capacity one
	JS        int `json:"js_caches"`          // 0 all on, 1 all disabled, 2 program cache capacity one, 3 node-JSON cache capacity one and purged before every Read, 4 VM pool always answers 'fresh'
	IDs       int `json:"node_ids,omitempty"` // 0 the process counter as it is; 1 input delivered one byte at a time and the counter moved up to the next multiple of 2^32 at every call of the input reader (IDs stay unique and increasing, their low 32 bits repeat); 2 the same delivery without touching the counter (what 1 is compared with)
}

// c13IDReader hands the input out one byte per call; with jump set it also moves the process-wide node ID
// counter to call*2^32 first, so that nodes of one record get IDs that differ by multiples of 2^32.
type c13IDReader struct {
	s     string
	pos   int
	calls int64
	jump  bool
}

func (r *c13IDReader) Read(p []byte) (int, error) {
	r.calls++
	if r.jump {
		idr.VerifSetNodeID(r.calls << 32)
	}
	if r.pos >= len(r.s) {
		return 0, io.EOF
	}
	if len(p) == 0 {
		return 0, nil
	}
	p[0] = r.s[r.pos]
	r.pos++
	return 1, nil
}

func (c c13Cfg) String() string {
	if c.IDs != 0 {
		return fmt.Sprintf("nodepool=%d transformcache=%d xpathcache=%d js=%d nodeids=%d", c.NodePool, c.Transform, c.XPath, c.JS, c.IDs)
	}
	return fmt.Sprintf("nodepool=%d transformcache=%d xpathcache=%d js=%d", c.NodePool, c.Transform, c.XPath, c.JS)
}

type c13Job struct {
	Name   string            `json:"name"`
	Schema string            `json:"schema"`
	Input  string            `json:"input"`
	Ext    map[string]string `json:"externals,omitempty"`
	Funcs  bool              `json:"with_test_functions,omitempty"`
	// Before lists jobs run first in the same process state (same configuration, nothing reset in
	// between): what they leave in pools and caches is part of the case.
	Before []c13Job `json:"before,omitempty"`
}

func c13Run(cfg c13Cfg, j c13Job) []string {
	resetProcessState()
	vmPool, _ := v21cf.VerifRuntimePool().(*vsync.Pool)
	switch cfg.NodePool {
	case 1:
		idr.VerifSetNodeCaching(false)
	}
	transform.VerifDisableTransformCache = cfg.Transform == 1
	if cfg.XPath == 1 {
		caches.XPathExprCache = caches.NewLoadingCache(1)
	}
	switch cfg.JS {
	case 1:
		v21cf.VerifSetDisableCaching(true)
	case 2:
		v21cf.JSProgramCache = caches.NewLoadingCache(1)
	case 3:
		v21cf.NodeToJSONCache = caches.NewLoadingCache(1)
	}
	vsync.PoolChoice = func(p *vsync.Pool, avail int) int {
		if p == vmPool {
			if cfg.JS == 4 {
				return 1
			}
			return 0
		}
		switch cfg.NodePool {
		case 3:
			return 1
		case 4:
			return 2
		}
		return 0
	}
	defer resetProcessState()
	for _, b := range j.Before {
		c13RunOne(cfg, b)
	}
	return c13RunOne(cfg, j)
}

// c13RunOne runs one job in the current process state.
func c13RunOne(cfg c13Cfg, j c13Job) []string {
	var exts []omniparser.Extension
	if j.Funcs {
		exts = append(exts, omniparser.Extension{CreateSchemaHandler: omniv21.CreateSchemaHandler, CustomFuncs: c02ImplFuncs})
	}
	schema, err, ps := hx.NewSchema("s", j.Schema, exts...)
	if err != nil {
		return []string{"SCHEMA ERROR " + err.Error() + ps}
	}
	var out []string
	pv, site := core.Safe(func() {
		var in io.Reader = strings.NewReader(j.Input)
		if cfg.IDs != 0 {
			in = &c13IDReader{s: j.Input, jump: cfg.IDs == 1}
		}
		tr, err := schema.NewTransform("in", in, &transformctx.Ctx{ExternalProperties: j.Ext})
		if err != nil {
			out = append(out, "NEWTRANSFORM "+err.Error())
			return
		}
		for i := 0; i < 500; i++ {
			if cfg.NodePool == 2 {
				idr.VerifResetNodePool()
			}
			if cfg.JS == 3 {
				v21cf.NodeToJSONCache = caches.NewLoadingCache(1)
			}
			b, err := tr.Read()
			st := hx.Classify(b, err)
			if err == nil {
				if rr, rerr := tr.RawRecord(); rerr == nil {
					st.Sum = rr.Checksum()
				}
			}
			out = append(out, st.String())
			if st.Terminal() {
				return
			}
		}
	})
	if pv != nil {
		out = append(out, fmt.Sprintf("PANIC %v @ %s", pv, site))
	}
	return out
}

func c13Configs(quick bool) []c13Cfg {
	var out []c13Cfg
	if quick {
		// corners and single deviations from the all-enabled configuration
		for _, c := range []c13Cfg{{1, 0, 0, 0, 0}, {2, 0, 0, 0, 0}, {3, 0, 0, 0, 0}, {4, 0, 0, 0, 0}, {0, 1, 0, 0, 0}, {0, 0, 1, 0, 0}, {0, 0, 0, 1, 0}, {0, 0, 0, 2, 0}, {0, 0, 0, 3, 0}, {0, 0, 0, 4, 0},
			{1, 1, 1, 1, 0}, {2, 1, 1, 3, 0}, {3, 0, 1, 2, 0}, {1, 1, 0, 4, 0}, {4, 1, 1, 2, 0}, {0, 0, 0, 0, 1}, {4, 0, 0, 0, 1}} {
			out = append(out, c)
		}
		return out
	}
	for np := 0; np <= 4; np++ {
		for tc := 0; tc <= 1; tc++ {
			for xp := 0; xp <= 1; xp++ {
				for js := 0; js <= 4; js++ {
					if np+tc+xp+js > 0 {
						out = append(out, c13Cfg{np, tc, xp, js, 0})
					}
				}
			}
		}
	}
	return append(out, c13Cfg{IDs: 1}, c13Cfg{NodePool: 1, IDs: 1}, c13Cfg{NodePool: 4, IDs: 1}, c13Cfg{NodePool: 4, JS: 3, IDs: 1})
}

func c13Jobs(quick bool) []c13Job {
	var jobs []c13Job
	for _, j := range c15Jobs() {
		jobs = append(jobs, c13Job{Name: j.Name, Schema: j.Schema, Input: j.Input, Ext: j.Ext})
	}
	h := func(f string) string {
		return `"parser_settings":{"version":"omni.2.1","file_format_type":"` + f + `"}`
	}
	// a reader failure the caller can carry on after (old csv: a malformed row) between good rows, twice in a
	// row, and as the last row: what the ingester released before the failure is released once
	jobs = append(jobs,
		c13Job{Name: "csv-malformed-rows-between-good-ones", Schema: `{` + h("csv") + `,"file_declaration":{"delimiter":",","data_row_index":1,"columns":[{"name":"A"},{"name":"B"},{"name":"C"}]},
 "transform_declarations":{"FINAL_OUTPUT":{"object":{"a":{"xpath":"A"},"b":{"xpath":"B"},"c":{"xpath":"C"}}}}}`,
			Input: "a1,b1,c1\na2,b2,c2\nx\"y,1,2\na3,b3,c3\na4,b4,c4\nx\"y,1,2\nx\"z,3,4\na5,b5,c5\na6,b6,c6\nq\"\n"},
		c13Job{Name: "json-failing-records-between-good-ones", Schema: `{` + h("json") + `,"transform_declarations":{"FINAL_OUTPUT":{"xpath":"/*","object":{"n":{"xpath":"n","type":"int"},"s":{"xpath":"s"}}}}}`,
			Input: `[{"n":"1","s":"a"},{"n":"x","s":"b"},{"n":"3","s":"c"},{"n":"y","s":"d"},{"n":"z","s":"e"},{"n":"6","s":"f"}]`})
	// one script text used with different sets of argument names (an optional argument; with and without the
	// node): what a cached compiled script remembers must not include anything of the call site
	jobs = append(jobs,
		c13Job{Name: "js-same-script-different-argument-names", Schema: `{` + h("json") + `,"transform_declarations":{"FINAL_OUTPUT":{"xpath":"/*","object":{
  "a_plain":{"custom_func":{"name":"javascript","args":[{"const":"typeof unit === 'undefined' ? 'qty=' + q : 'qty=' + q + ' ' + unit"},{"const":"q"},{"xpath":"q"}]}},
  "b_with_unit":{"custom_func":{"name":"javascript","args":[{"const":"typeof unit === 'undefined' ? 'qty=' + q : 'qty=' + q + ' ' + unit"},{"const":"q"},{"xpath":"q"},{"const":"unit"},{"xpath":"u"}]}},
  "c_other_order":{"custom_func":{"name":"javascript","args":[{"const":"typeof unit === 'undefined' ? 'qty=' + q : 'qty=' + q + ' ' + unit"},{"const":"unit"},{"xpath":"u"},{"const":"q"},{"xpath":"q"}]}},
  "d_with_node":{"custom_func":{"name":"javascript_with_context","args":[{"const":"typeof unit === 'undefined' ? 'qty=' + q : 'qty=' + q + ' ' + unit"},{"const":"q"},{"xpath":"q"}]}},
  "e_plain_again":{"custom_func":{"name":"javascript","args":[{"const":"typeof unit === 'undefined' ? 'qty=' + q : 'qty=' + q + ' ' + unit"},{"const":"q"},{"xpath":"u"}]}}}}}}`,
			Input: `[{"q":"3","u":"kg"},{"q":"4","u":"l"},{"q":"5","u":"m"}]`})
	jobs = append(jobs,
		c13Job{Name: "xml-context-on-ancestor", Schema: `{` + h("xml") + `,"transform_declarations":{"FINAL_OUTPUT":{"xpath":"/r/g/o","object":{
  "self":{"custom_func":{"name":"javascript_with_context","args":[{"const":"JSON.parse(_node).v"}]}},
  "parent":{"xpath":"..","custom_func":{"name":"javascript_with_context","args":[{"const":"JSON.stringify(JSON.parse(_node))"}]}},
  "root":{"xpath":"../..","custom_func":{"name":"javascript_with_context","args":[{"const":"JSON.stringify(JSON.parse(_node))"}]}},
  "cp":{"xpath":"..","custom_func":{"name":"copy"}}}}}}`,
			Input: `<r><h>H</h><g><o><v>1</v></o><o><v>2</v><w>x</w></o><o><v>3</v></o></g><t>T</t></r>`},
		c13Job{Name: "json-context-on-ancestor", Schema: `{` + h("json") + `,"transform_declarations":{"FINAL_OUTPUT":{"xpath":"/items/*","object":{
  "self":{"custom_func":{"name":"javascript_with_context","args":[{"const":"JSON.parse(_node).v"}]}},
  "all":{"xpath":"..","custom_func":{"name":"javascript_with_context","args":[{"const":"JSON.stringify(JSON.parse(_node))"}]}}}}}}`,
			Input: `{"name":"N","items":[{"v":1},{"v":2,"w":[1]},{"v":3}]}`},
		c13Job{Name: "js-argument-leak-probe", Schema: `{` + h("json") + `,"transform_declarations":{"FINAL_OUTPUT":{"xpath":"/*","object":{
  "a":{"custom_func":{"name":"javascript","args":[{"const":"if (x == 'boom') { throw 'bad' } x"},{"const":"x"},{"xpath":"x"}],"ignore_error":true}},
  "b":{"custom_func":{"name":"javascript","args":[{"const":"(typeof x === 'undefined') ? 'clean' : 'leak:' + x"}]}},
  "c":{"custom_func":{"name":"javascript","args":[{"const":"(typeof y === 'undefined') ? k : k + '/' + y"},{"const":"k"},{"xpath":"k"}]}}}}}}`,
			Input: `[{"x":"1","k":"a"},{"x":"boom","k":"b"},{"x":"3","k":"c"},{"x":"boom","k":"d"},{"x":"5","k":"e"}]`},
		c13Job{Name: "xpath-dynamic-many", Schema: `{` + h("xml") + `,"transform_declarations":{"FINAL_OUTPUT":{"xpath":"/r/o","object":{
  "d1":{"xpath_dynamic":{"xpath":"k"}},"d2":{"xpath_dynamic":{"custom_func":{"name":"concat","args":[{"const":"f"},{"xpath":"n"}]}}},"s1":{"xpath":"f1"},"s2":{"xpath":"f2"},"s3":{"xpath":"k"}}}}}`,
			Input: `<r><o><k>f1</k><n>2</n><f1>a</f1><f2>b</f2></o><o><k>f2</k><n>1</n><f1>c</f1><f2>d</f2></o><o><k>zz</k><n>9</n><f1>e</f1></o><o><k>f1</k><n>1</n><f1>g</f1></o></r>`},
	)
	jobs = append(jobs,
		c13Job{Name: "js-scripts-differing-only-in-whitespace", Schema: `{` + h("json") + `,"transform_declarations":{"FINAL_OUTPUT":{"xpath":"/*","object":{
  "a":{"custom_func":{"name":"javascript","args":[{"const":"v + ' | ' + v"},{"const":"v"},{"xpath":"v"}]}},
  "b":{"custom_func":{"name":"javascript","args":[{"const":"v + '   |   ' + v"},{"const":"v"},{"xpath":"v"}]}},
  "c":{"custom_func":{"name":"javascript","args":[{"const":"v // tail\n + 1"},{"const":"v"},{"xpath":"n"}]}},
  "d":{"custom_func":{"name":"javascript","args":[{"const":"v // tail + 1"},{"const":"v"},{"xpath":"n"}]}}}}}}`,
			Input: `[{"v":"x","n":1},{"v":"y","n":2}]`})
	// a script that changes its array / object argument in place: the same argument declaration is used
	// by other scripts and by a plain field of the record (the result cache hands all of them one value)
	jobs = append(jobs,
		c13Job{Name: "js-script-changing-its-argument-in-place", Schema: `{` + h("xml") + `,"transform_declarations":{"FINAL_OUTPUT":{"xpath":"/feed/item","object":{
  "a_largest":{"custom_func":{"name":"javascript","args":[{"const":"p.sort(function(x,y){return y-x;})[0]"},{"const":"p"},{"array":[{"xpath":"v","type":"int"}]}]}},
  "b_first":{"custom_func":{"name":"javascript","args":[{"const":"p[0]"},{"const":"p"},{"array":[{"xpath":"v","type":"int"}]}]}},
  "c_values":{"array":[{"xpath":"v","type":"int"}]}}}}}`,
			Input: `<feed><item><v>1</v><v>3</v><v>2</v></item><item><v>5</v><v>4</v></item></feed>`})
	// nested parts of an argument changed in place (an array of objects, a plain value followed by
	// containers, an object inside an object): again with the same argument declaration used elsewhere
	jobs = append(jobs,
		c13Job{Name: "js-script-changing-nested-parts-of-its-argument", Schema: `{` + h("xml") + `,"transform_declarations":{"FINAL_OUTPUT":{"xpath":"/feed/item","object":{
  "a_bump":{"custom_func":{"name":"javascript","args":[{"const":"l[0].q = l[0].q * 10; l[0].q"},{"const":"l"},{"array":[{"xpath":"v","object":{"q":{"xpath":".","type":"int"}}}]}]}},
  "b_read":{"custom_func":{"name":"javascript","args":[{"const":"l[0].q"},{"const":"l"},{"array":[{"xpath":"v","object":{"q":{"xpath":".","type":"int"}}}]}]}},
  "c_plain":{"array":[{"xpath":"v","object":{"q":{"xpath":".","type":"int"}}}]},
  "d_bump":{"custom_func":{"name":"javascript","args":[{"const":"p[1].q = 'changed'; p[2].l[0] = 'changed'; p[1].q"},{"const":"p"},{"array":[{"xpath":"v[1]"},{"object":{"q":{"xpath":"v[1]"}}},{"object":{"l":{"array":[{"xpath":"v"}]}}}]}]}},
  "e_read":{"custom_func":{"name":"javascript","args":[{"const":"p[0] + '/' + p[1].q + '/' + p[2].l[0]"},{"const":"p"},{"array":[{"xpath":"v[1]"},{"object":{"q":{"xpath":"v[1]"}}},{"object":{"l":{"array":[{"xpath":"v"}]}}}]}]}},
  "f_bump":{"custom_func":{"name":"javascript","args":[{"const":"o.inner.q = 'changed'; o.inner.q"},{"const":"o"},{"template":"OBJ"}]}},
  "g_read":{"custom_func":{"name":"javascript","args":[{"const":"o.inner.q"},{"const":"o"},{"template":"OBJ"}]}},
  "h_plain":{"template":"OBJ"}}},"OBJ":{"object":{"inner":{"object":{"q":{"xpath":"v[1]"}}}}}}}`,
			Input: `<feed><item><v>1</v><v>3</v><v>2</v></item><item><v>5</v><v>4</v></item></feed>`})
	// twin declarations: the same value declared several times on one node, the declarations differing
	// in one attribute only (keep_empty_or_null, no_trim, type) - each has its own result, whichever is
	// evaluated first (children are evaluated in name order: the second job has the names reversed)
	{
		type twinSet struct {
			name   string
			extras []string
			input  string
		}
		for _, ts := range []twinSet{
			{"", []string{``, `,"keep_empty_or_null":true`, `,"no_trim":true`, `,"keep_empty_or_null":true,"no_trim":true`, `,"type":"string"`, `,"type":"string","keep_empty_or_null":true`},
				`<r><i><e></e></i><i><e> </e></i><i><e> x </e></i><i><e>7</e></i><i><e> 7 </e></i><i><e>true</e></i><i><g>no e</g></i></r>`},
			{"/numeric", []string{``, `,"keep_empty_or_null":true`, `,"type":"int"`, `,"type":"int","keep_empty_or_null":true`, `,"type":"float"`, `,"type":"string"`, `,"type":"float","keep_empty_or_null":true`},
				`<r><i><e>7</e></i><i><e> 7 </e></i><i><e>0</e></i><i><e>-12</e></i></r>`},
		} {
			twins := func(base string) []string {
				var out []string
				for _, extra := range ts.extras {
					out = append(out, `{`+base+extra+`}`)
				}
				return out
			}
			var decls []string
			decls = append(decls, twins(`"xpath":"e"`)...)
			if ts.name == "" {
				decls = append(decls, twins(`"const":" "`)...)
			} else {
				decls = append(decls, twins(`"const":" 5 "`)...)
			}
			decls = append(decls, twins(`"custom_func":{"name":"concat","args":[{"xpath":"e","no_trim":true}]}`)...)
			for _, t := range []string{"T", "TK", "TN", "TS"} {
				decls = append(decls, `{"xpath":"e","template":"`+t+`"}`)
			}
			for _, keep := range []string{``, `,"keep_empty_or_null":true`} {
				for _, keepIn := range []string{``, `,"keep_empty_or_null":true`} {
					decls = append(decls, `{"object":{"x":{"xpath":"e"`+keepIn+`}}`+keep+`}`)
					decls = append(decls, `{"array":[{"xpath":"e"`+keepIn+`}]`+keep+`}`)
					decls = append(decls, `{"xpath":"e","object":{"x":{"xpath":"."`+keepIn+`}}`+keep+`}`)
				}
			}
			for _, reversed := range []bool{false, true} {
				var fields []string
				for i, d := range decls {
					k := i
					if reversed {
						k = len(decls) - 1 - i
					}
					fields = append(fields, fmt.Sprintf(`"f%03d":%s`, k, d))
				}
				name := "twin-declarations-differing-in-one-attribute" + ts.name
				if reversed {
					name += "/evaluated-in-reverse-order"
				}
				jobs = append(jobs, c13Job{Name: name, Schema: `{` + h("xml") + `,"transform_declarations":{"FINAL_OUTPUT":{"xpath":"/r/i","object":{` + strings.Join(fields, ",") +
					`}},"T":{"custom_func":{"name":"concat","args":[{"xpath":".","no_trim":true}]}},"TK":{"custom_func":{"name":"concat","args":[{"xpath":".","no_trim":true}]},"keep_empty_or_null":true},"TN":{"custom_func":{"name":"concat","args":[{"xpath":".","no_trim":true}]},"no_trim":true},"TS":{"custom_func":{"name":"concat","args":[{"xpath":".","no_trim":true}]},"type":"string"}}}`,
					Input: ts.input})
			}
		}
	}
	// cross-format histories in one process state: what an earlier job of another format leaves in
	// the node pool must not matter for the next job
	byName := map[string]c13Job{}
	for _, j := range jobs {
		byName[j.Name] = j
	}
	for _, pair := range [][2]string{{"xml-namespaces", "c10/csv"}, {"xml-namespaces", "c10/csv2"}, {"c10/json", "c10/edi"}, {"json-xpath-dynamic", "c10/fixedlength2"},
		{"xml-uri-bound-twice", "c10/fixed-length"}, {"c10/xml", "c10/json"}, {"c10/json", "c10/xml"}, {"xml-context-on-ancestor", "csv-datetime"}} {
		a, b := byName[pair[0]], byName[pair[1]]
		if a.Name == "" || b.Name == "" {
			continue
		}
		b.Name = pair[1] + "-after-" + pair[0]
		b.Before = []c13Job{a}
		jobs = append(jobs, b)
	}
	// declaration sets of C02's two-position / template families on a multi-record XML input
	n := 0
	input := "<all>" + strings.Join(c02Records[:6], "") + "</all>"
	c02Enumerate(quick, func(label string, decls gd) bool {
		if !strings.HasPrefix(label, "C:") && !strings.HasPrefix(label, "G:") {
			return true
		}
		n++
		if quick && n%9 != 0 {
			return true
		}
		fod, _ := decls["FINAL_OUTPUT"].(gd)
		if fod == nil || fod["xpath"] != nil || fod["xpath_dynamic"] != nil || fod["array"] != nil || fod["const"] != nil || fod["external"] != nil {
			return true
		}
		d := gd{}
		for k, v := range decls {
			d[k] = v
		}
		d["FINAL_OUTPUT"] = cp(fod, "xpath", "/all/r")
		b, _ := json.Marshal(gd{"parser_settings": gd{"version": "omni.2.1", "file_format_type": "xml"}, "transform_declarations": d})
		jobs = append(jobs, c13Job{Name: "c02:" + label, Schema: string(b), Input: input, Ext: c02Externals, Funcs: true})
		return true
	})
	return jobs
}

type c13Case struct {
	Cfg c13Cfg `json:"configuration"`
	Job c13Job `json:"job"`
}

func c13Check(cs c13Case, base []string) (sig, detail string) {
	if base == nil {
		base = c13Run(c13Cfg{}, cs.Job)
	}
	if cs.Cfg.IDs == 1 {
		// what the values of the node IDs may change is looked at under the same byte-by-byte delivery
		ref := cs.Cfg
		ref.IDs = 2
		base = c13Run(ref, cs.Job)
	}
	got := c13Run(cs.Cfg, cs.Job)
	d := c15Diff(got, base)
	if d == "" {
		return "", ""
	}
	which := "several-caches"
	n := 0
	if cs.Cfg.IDs == 1 {
		which, n = "node-id-values", n+1
	}
	if cs.Cfg.NodePool != 0 {
		which, n = "node-pool", n+1
	}
	if cs.Cfg.Transform != 0 {
		which, n = "transform-result-cache", n+1
	}
	if cs.Cfg.XPath != 0 {
		which, n = "xpath-cache", n+1
	}
	if cs.Cfg.JS != 0 {
		which, n = fmt.Sprintf("js-caches-mode-%d", cs.Cfg.JS), n+1
	}
	if n > 1 {
		which = "several-caches"
	}
	name := cs.Job.Name
	if strings.HasPrefix(name, "c02:") {
		name = "c02"
	}
	if name == "js-changing-builtin-objects" && cs.Cfg.JS != 0 && c15Diff(c13Run(c13Cfg{NodePool: cs.Cfg.NodePool, Transform: cs.Cfg.Transform, XPath: cs.Cfg.XPath}, cs.Job), base) == "" {
		// known finding: with the JavaScript switches as in the all-enabled run there is no difference
		return "js:pooled-vm-keeps-changes-to-builtin-objects", fmt.Sprintf("job %s under [%s] differs from the all-enabled run at %s", cs.Job.Name, cs.Cfg, d)
	}
	return fmt.Sprintf("result-depends-on:%s:%s", which, name), fmt.Sprintf("job %s under [%s] differs from the reference run at %s\nschema %s\ninput %s", cs.Job.Name, cs.Cfg, d, trunc2(cs.Job.Schema, 1200), trunc2(cs.Job.Input, 400))
}

func init() {
	core.Register(&core.Prop{
		ID:    "C13",
		Level: "exploration",
		Rule:  "configurations: node pool {on, off, emptied before every Read, Get always fresh, Get oldest} x transform-result cache {on, off} x xpath cache {default, capacity 1} x JavaScript {all on, all disabled, program cache capacity 1, node-JSON cache capacity 1 and purged before every Read, VM pool always fresh} - all 99 non-default combinations in the thorough tier, 15 (every single deviation plus mixed corners) in the quick tier; plus the node-ID environment (input delivered byte by byte, the process-wide ID counter moved to call*2^32 at every call of the input reader, compared with the same delivery and an untouched counter: IDs must only be unique, their values invisible) alone and with pool settings; corpus: 11 multi-record jobs over all formats (templates, xpath_dynamic, javascript, copy), javascript_with_context on ancestors (XML and JSON), an argument-leak probe, many dynamic xpaths, and every C02 'same declaration at two positions / shared template / dynamic-and-member' declaration set on a 6-record XML input; the Read transcript (bytes, checksums, errors) under every configuration must equal the all-enabled transcript; distinct by (configuration, job); further jobs: scripts with top-level declarations, undeclared assignments, changes to the global object (known finding: changes to builtin objects), nested argument parts changed in place, data-driven call depth, twin declarations differing in one attribute, C02 level G; jobs with continuable reader failures between good records",
		Assumptions: []string{
			"the caches are switched through the library's own test switches (exposed by //go:build verif hook files added by the overlay) and its exported cache variables; the per-record transform cache switch is installed by an overlay rewrite of NewParseCtx",
		},
		BudgetQuick: 250, BudgetThorough: 1500,
		Run: func(c *core.Ctx) {
			cfgs := c13Configs(c.Quick())
			jobs := c13Jobs(c.Quick())
			c.Max("jobs", int64(len(jobs)))
			c.Max("configurations", int64(len(cfgs)))
			for ji, j := range jobs {
				if !c.Mine(ji) {
					continue
				}
				base := c13Run(c13Cfg{}, j)
				if len(base) > 0 && strings.HasPrefix(base[0], "SCHEMA ERROR") {
					c.HarnessError("job " + j.Name + ": " + base[0] + "\n" + j.Schema)
					continue
				}
				if strings.HasPrefix(j.Name, "twin-declarations") {
					for _, l := range base {
						if !strings.HasPrefix(l, "rec ") && !strings.HasPrefix(l, "eof") {
							c.HarnessError("job " + j.Name + " is meant to have no failing record: " + trunc2(l, 300))
							break
						}
					}
				}
				// determinism of the harness itself: the default configuration twice
				if d := c15Diff(c13Run(c13Cfg{}, j), base); d != "" {
					c.Violation("default-configuration-not-repeatable:"+j.Name, d, c13Case{Job: j}, nil)
					continue
				}
				for _, cfg := range cfgs {
					if cfg.Transform == 1 && !transform.VerifTransformCacheSwitchable {
						continue
					}
					cs := c13Case{Cfg: cfg, Job: j}
					c.Begin(func() interface{} { return cs })
					sig, detail := c13Check(cs, base)
					c.Eval(fmt.Sprintf("%s|%d", cfg, len(base)))
					if sig != "" {
						c.Violation(sig, detail, cs, func() string { s, _ := c13Check(cs, nil); return s })
					} else if c.WantSample() && ji%41 == 0 && cfg.Transform == 1 {
						c.Sample(map[string]interface{}{"configuration": cfg.String(), "job": j.Name, "results": len(base)})
					}
				}
				if c.TimeUp() {
					return
				}
			}
		},
		Replay: func(raw json.RawMessage) (string, string) {
			var cs c13Case
			if err := json.Unmarshal(raw, &cs); err != nil {
				return "harness:bad-replay", err.Error()
			}
			sig, detail := c13Check(cs, nil)
			if sig == "" {
				detail = "same transcript as with everything enabled"
			}
			return sig, detail
		},
	})
}
