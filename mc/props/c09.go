package props

import (
	"encoding/json"
	"fmt"
	"regexp"
	"strings"

	"verif/mc/core"
	"verif/mc/corpus"
	"verif/mc/hx"
)

// C09 — results do not depend on how the reader delivers its bytes (schedule enumeration).

type c09Case struct {
	Item    string `json:"item"`
	Schema  string `json:"schema"`
	Input   string `json:"input"` // may be base64? no: inputs are stored as Go strings (JSON escapes cover all bytes except invalid UTF-8)
	InputB  []byte `json:"input_bytes,omitempty"`
	Mode    string `json:"mode"` // choices | cuts | onebyte
	Choices []int  `json:"choices,omitempty"`
	Cuts    []int  `json:"cuts,omitempty"`
}

func (c c09Case) data() []byte {
	if c.InputB != nil {
		return c.InputB
	}
	return []byte(c.Input)
}

type c09Item struct {
	Name   string
	Schema string
	Inputs [][]byte
}

func c09Hdr(format, enc string) string {
	e := ""
	if enc != "" {
		e = `,"encoding":"` + enc + `"`
	}
	return `"parser_settings":{"version":"omni.2.1","file_format_type":"` + format + `"` + e + `}`
}

func c09Corpus() []c09Item {
	var items []c09Item
	for _, it := range corpus.Minimal() {
		if len(it.Inputs[0]) > 2000 {
			continue // long inputs are in c09Long (cuts at every offset instead of all short-read sizes squared)
		}
		ci := c09Item{Name: it.Name, Schema: it.Schema}
		for _, in := range it.Inputs {
			ci.Inputs = append(ci.Inputs, []byte(in))
		}
		items = append(items, ci)
	}
	bom := "\xEF\xBB\xBF"
	add := func(name, schema string, inputs ...string) {
		ci := c09Item{Name: name, Schema: schema}
		for _, in := range inputs {
			ci.Inputs = append(ci.Inputs, []byte(in))
		}
		items = append(items, ci)
	}
	add("c09/csv-quoted-bom", `{`+c09Hdr("csv", "")+`,
 "file_declaration":{"delimiter":"é","data_row_index":1,"columns":[{"name":"a"},{"name":"b"}]},
 "transform_declarations":{"FINAL_OUTPUT":{"object":{"a":{"xpath":"a","no_trim":true},"b":{"xpath":"b"}}}}}`,
		bom+"x é1\r\n\"l1\r\nl2\"é\"q\"\"é\"\r\ny\"zé3\r\n世é4", "aé1\nbé2\n")
	add("c09/csv2-rows3", `{`+c09Hdr("csv2", "")+`,
 "file_declaration":{"delimiter":",","replace_double_quotes":true,"records":[{"rows":3,"columns":[{"name":"a","index":1,"line_index":1},{"name":"b","index":2,"line_index":2},{"name":"c","index":1,"line_index":3}]}]},
 "transform_declarations":{"FINAL_OUTPUT":{"object":{"a":{"xpath":"a"},"b":{"xpath":"b"},"c":{"xpath":"c"}}}}}`,
		"a1,x\r\n\"b\"1,y\r\nc1,z\r\na2,x\n\nb2,\"y\"\nc2,z\na3,x\n", bom+"1,2\n3,4\n5,6\n")
	add("c09/fixedlength2-rows3", `{`+c09Hdr("fixedlength2", "")+`,
 "file_declaration":{"envelopes":[{"rows":3,"columns":[{"name":"a","start_pos":1,"length":3,"line_index":1},{"name":"b","start_pos":2,"length":3,"line_index":2},{"name":"c","start_pos":1,"length":2,"line_index":3}]}]},
 "transform_declarations":{"FINAL_OUTPUT":{"object":{"a":{"xpath":"a"},"b":{"xpath":"b"},"c":{"xpath":"c"}}}}}`,
		"a1世x\nb1éy\r\nc1z\n\na2x\nb2y\nc2z\na3\n", "111\n222\n333\n")
	add("c09/fixed-length-rows3-1252", `{`+c09Hdr("fixed-length", "windows-1252")+`,
 "file_declaration":{"envelopes":[{"by_rows":3,"columns":[{"name":"a","start_pos":1,"length":3,"line_pattern":"^a"},{"name":"b","start_pos":2,"length":3,"line_pattern":"^b"},{"name":"c","start_pos":1,"length":2,"line_pattern":"^c"}]}]},
 "transform_declarations":{"FINAL_OUTPUT":{"object":{"a":{"xpath":"a"},"b":{"xpath":"b"},"c":{"xpath":"c"}}}}}`,
		"a1\x80x\nb1\xe9y\r\nc1z\n\na2x\nb2y\nc2z\na3\n")
	add("c09/edi-multibyte-delims", `{`+c09Hdr("edi", "")+`,
 "file_declaration":{"segment_delimiter":"||","element_delimiter":"<>","component_delimiter":":","repetition_delimiter":"^","release_character":"?","segment_declarations":[
   {"name":"A","is_target":true,"min":0,"max":-1,"elements":[{"name":"e1","index":1},{"name":"c2","index":2,"component_index":2,"default":""}]}]},
 "transform_declarations":{"FINAL_OUTPUT":{"object":{"e1":{"array":[{"xpath":"e1"}]},"c2":{"xpath":"c2"}}}}}`,
		"A<>x?|?|y<>p:q||A<>r1^r2<>:é||A<>?<?>||A<>last<>a:b", "A<>1||")
	add("c09/edi-escaped-segdelim", `{`+c09Hdr("edi", "")+`,
 "file_declaration":{"segment_delimiter":"~","element_delimiter":"*","release_character":"?","segment_declarations":[
   {"name":"A","is_target":true,"min":0,"max":-1,"elements":[{"name":"e1","index":1},{"name":"e2","index":2,"default":"-"}]}]},
 "transform_declarations":{"FINAL_OUTPUT":{"object":{"e1":{"xpath":"e1","no_trim":true},"e2":{"xpath":"e2"}}}}}`,
		"A*x?~y*1~A*z??~A*w?~?~~A*?*?~*last?~", "A*a??~A*b?~", "A*1~\nA*2~")
	// more than a hundred CR/LF bytes in a row under ignore_crlf (a reader that answers (0, nil) while it
	// skips them runs into bufio's 100-empty-reads limit when the input arrives in small pieces)
	add("c09/edi-ignore-crlf-long-blank-run", `{`+c09Hdr("edi", "")+`,
 "file_declaration":{"segment_delimiter":"~","element_delimiter":"*","ignore_crlf":true,"segment_declarations":[
   {"name":"A","is_target":true,"min":0,"max":-1,"elements":[{"name":"e1","index":1}]}]},
 "transform_declarations":{"FINAL_OUTPUT":{"object":{"e1":{"xpath":"e1"}}}}}`,
		"A*1~\r\nA*2~A*3~"+strings.Repeat("\r\n", 130)+"A*4~\nA*5~", "A*1~"+strings.Repeat("\n", 257)+"A*2"+strings.Repeat("\r", 120)+"2~")
	// many very short lines in a JSON input, with failing records: the line number in the error text
	add("c09/json-many-short-lines", `{`+c09Hdr("json", "")+`,"transform_declarations":{"FINAL_OUTPUT":{"xpath":"/*","object":{"v":{"xpath":".","type":"int"}}}}}`,
		"[\n"+strings.Repeat("1,\n", 11)+"\"x\",\n"+strings.Repeat("2,\n", 150)+"\"y\",\n"+strings.Repeat("\n", 200)+"3,\"z\"\n]\n",
		"["+strings.Repeat("\n", 300)+"\"x\","+strings.Repeat("\n", 90)+"1]")
	add("c09/edi-escaped-lf-segdelim", `{`+c09Hdr("edi", "")+`,
 "file_declaration":{"segment_delimiter":"\n","element_delimiter":"|","release_character":"\\","segment_declarations":[
   {"name":"A","is_target":true,"min":0,"max":-1,"elements":[{"name":"e1","index":1}]}]},
 "transform_declarations":{"FINAL_OUTPUT":{"object":{"e1":{"xpath":"e1","no_trim":true}}}}}`,
		"A|x\\\ny\r\nA|z\\\\\nA|w\\\n\\\n\n")
	add("c09/edi-ignorecrlf", `{`+c09Hdr("edi", "")+`,
 "file_declaration":{"segment_delimiter":"~","element_delimiter":"*","ignore_crlf":true,"segment_declarations":[
   {"name":"H"},{"name":"A","is_target":true,"min":0,"max":-1,"elements":[{"name":"e1","index":1}]},{"name":"T","min":0}]},
 "transform_declarations":{"FINAL_OUTPUT":{"object":{"e1":{"xpath":"e1"},"h":{"xpath":"../H"}}}}}`,
		"H*0~\r\nA*x\r\ny~\nA*z~\r\nT~\r\n", "H~A*1~")
	add("c09/json-multiline", `{`+c09Hdr("json", "")+`,
 "transform_declarations":{"FINAL_OUTPUT":{"xpath":"/items/*","object":{"n":{"xpath":"n"},"c":{"custom_func":{"name":"copy"}}}}}}`,
		"{\n \"items\": [\n  {\"n\": \"\\u00e9\\n\", \"v\": [1, 2.5, true, null]},\n  {\"n\": \"世\"}\n ]\n}\n", "{\"items\":[{\"n\":1},\n{\"n\":2}\n]}}", "{\"items\":[{\"n\":1},\n\n{\"n\" 2}]}",
		"{\"items\":[{\"n\":1},\n{\"n\" 2},\n\n\n{\"n\":3}]}")
	add("c09/json-failing-record", `{`+c09Hdr("json", "")+`,
 "transform_declarations":{"FINAL_OUTPUT":{"xpath":"/*","object":{"a":{"xpath":"a","type":"int"}}}}}`,
		"[{\"a\":1},\n{\"a\":\"zz\"},\n\n\n{\"a\":3}]")
	add("c09/xml-rich", `{`+c09Hdr("xml", "")+`,
 "transform_declarations":{"FINAL_OUTPUT":{"xpath":"/r/a[@k!='0']","object":{"k":{"xpath":"@k"},"t":{"xpath":"t"},"c":{"custom_func":{"name":"copy"}}}}}}`,
		bom+"<?xml version=\"1.0\" encoding=\"UTF-8\"?>\n<r xmlns:p=\"u\">\n <a k=\"1\"><t>x &amp; <![CDATA[<y>]]></t><!-- c --></a>\n <a k=\"0\"/>\n <a k=\"é\"><p:t>世</p:t></a>\n</r>\n",
		"<r><a k=\"1\"><t>1</t></a>\n<a k=\"2\"><t>2</b></a></r>", "<r><a k=\"1\"/></r><x")
	add("c09/xml-latin1", `{`+c09Hdr("xml", "iso-8859-1")+`,
 "transform_declarations":{"FINAL_OUTPUT":{"xpath":"/r/a","object":{"t":{"xpath":"."}}}}}`,
		"<r><a>caf\xe9</a><a>\xa0x</a></r>")
	// empty lines after the last line - after complete inputs (every declaration used up) and after
	// truncated ones (a mandatory envelope / record still missing): the final result is decided by the
	// input's content, not by whether the trailing line breaks were already buffered
	for _, it := range corpus.Minimal() {
		var ins []string
		switch it.Name {
		case "fixedlength2/hf", "fixed-length/hf":
			ins = []string{"A0\nA9\nZ0\n\n\n", "A0\nA9\n\n\n", "A0\nA9\nV0\nV2 t001\nV9\n\r\n\r\n", "A0\nA9\nZ0\n\n \n"}
		case "fixedlength2/nested":
			ins = []string{"H\nT\n\n", "H\n\n\n", "H\nNabc\n\n\n", "H\nT\n\nX\n"}
		case "csv2/hf":
			ins = []string{"B\n1,2\nE\n\n\n", "B\n1,2\n\n\n", "B\n1,2\nE\n\r\n\r\n"}
		case "csv2/nested":
			ins = []string{"F,f1\nT\n\n\n", "F,f1\n\n\n", "F,f1\nH,w1\nD,1\n\r\n\r\n", "F,f1\nT\n\nX\n"}
		case "fixedlength2/rows2", "fixed-length/rows2", "csv2/rows2":
			ins = []string{"a1\nb12\n\n\n", "a1\nb12\na2\n\n\n"}
		case "edi/nested", "edi/flat":
			ins = []string{it.Inputs[0] + "\n\n", it.Inputs[len(it.Inputs)-1] + "\n\n"}
		}
		if len(ins) > 0 {
			add("c09/"+strings.ReplaceAll(it.Name, "/", "-")+"-trailing-empty-lines", it.Schema, ins...)
		}
	}
	add("c09/csv-latin1", `{`+c09Hdr("csv", "iso-8859-1")+`,
 "file_declaration":{"delimiter":";","data_row_index":1,"columns":[{"name":"a"},{"name":"b"}]},
 "transform_declarations":{"FINAL_OUTPUT":{"object":{"a":{"xpath":"a"},"b":{"xpath":"b"}}}}}`,
		"caf\xe9;1\r\n\xfc;\"2;\xdf\"\n")
	return items
}

// c09Tiny: inputs short enough for ALL cut sets.
func c09Tiny() []c09Item {
	mk := func(name, schema string, inputs ...string) c09Item {
		ci := c09Item{Name: name, Schema: schema}
		for _, in := range inputs {
			ci.Inputs = append(ci.Inputs, []byte(in))
		}
		return ci
	}
	m := map[string]string{}
	for _, it := range corpus.Minimal() {
		m[it.Name] = it.Schema
	}
	return []c09Item{
		mk("csv/basic", m["csv/basic"], "x,1\r\n\"y\",2", "\xEF\xBB\xBFé,3\n"),
		mk("csv2/flat", m["csv2/flat"], "x,,1\r\ny,,\"2\""),
		mk("fixed-length/rows2", m["fixed-length/rows2"], "a1\r\nb12\na2"),
		mk("fixedlength2/rows2", m["fixedlength2/rows2"], "a1\r\nb12\na2", "\xEF\xBB\xBFaé\nb世\n"),
		mk("edi/flat", m["edi/flat"], "ISA~A*é*1~\n", "ISA~A*1"),
		mk("json/array", m["json/array"], `[{"a":1},2]`, "[{\"a\":\"é\"}"),
		mk("xml/basic", m["xml/basic"], `<r><a k="é"/>`, "\xEF\xBB\xBF<r><a/></r>"),
	}
}

func c09Long() []c09Item {
	var fl, cs, ed strings.Builder
	for i := 0; i < 150; i++ {
		fl.WriteString(fmt.Sprintf("a%03d-%s\nb%03d世%s\r\nc%03d%s\n", i, strings.Repeat("x", i%17), i, strings.Repeat("y", i%13), i, strings.Repeat("z", i%7)))
		if i%10 == 3 {
			fl.WriteString("\n")
		}
	}
	for i := 0; i < 160; i++ {
		cs.WriteString(fmt.Sprintf("r%03d,\"q%s\"\"é\",%d\r\n", i, strings.Repeat("w", i%23), i))
	}
	for i := 0; i < 120; i++ {
		ed.WriteString(fmt.Sprintf("A<>v%03d%s?|?|<>p:q%d||", i, strings.Repeat("e", (i*7)%90), i))
	}
	m := map[string]string{}
	for _, it := range c09Corpus() {
		m[it.Name] = it.Schema
	}
	longJSON := ""
	for _, it := range corpus.Minimal() {
		m[it.Name] = it.Schema
		if it.Name == "json/long-values" {
			longJSON = it.Inputs[0]
		}
	}
	// windows-1252 text made mostly of the bytes 0x80..0x9F, which become three UTF-8 bytes each
	var dense strings.Builder
	for i := 0; i < 75; i++ {
		dense.WriteString(fmt.Sprintf("a%02d", i%100) + strings.Repeat("\x97\x85\x80\x93", 18) + "\nb" + strings.Repeat("\x94\xe9", 3) + "\nc1\n")
	}
	return []c09Item{
		{Name: "c09/fixed-length-rows3-1252", Schema: m["c09/fixed-length-rows3-1252"], Inputs: [][]byte{[]byte(dense.String())}},
		{Name: "json/long-values", Schema: m["json/long-values"], Inputs: [][]byte{[]byte(longJSON)}},
		{Name: "c09/fixedlength2-rows3", Schema: m["c09/fixedlength2-rows3"], Inputs: [][]byte{[]byte(fl.String())}},
		{Name: "fixed-length/rows2", Schema: m["fixed-length/rows2"], Inputs: [][]byte{[]byte(strings.Repeat("a1"+strings.Repeat("k", 40)+"\nb12"+strings.Repeat("m", 38)+"\n", 60))}},
		{Name: "csv2/flat", Schema: m["csv2/flat"], Inputs: [][]byte{[]byte(cs.String())}},
		{Name: "c09/edi-multibyte-delims", Schema: m["c09/edi-multibyte-delims"], Inputs: [][]byte{[]byte(ed.String())}},
	}
}

var nearLineRe = regexp.MustCompile(`before/near line \d+`)

// c09Diff classifies the difference between a schedule's transcript and the baseline.
func c09Diff(item string, base, got hx.Result) (sig, detail string) {
	if got.PanicSite != "" && base.PanicSite == "" {
		return "panic:" + item + ":" + got.PanicSite, got.PanicVal
	}
	if base.NewTransformErr != got.NewTransformErr {
		return "newtransform-differs:" + item, fmt.Sprintf("baseline %q, schedule %q", base.NewTransformErr, got.NewTransformErr)
	}
	if hx.SameSteps(base.Steps, got.Steps) {
		return "", ""
	}
	// known finding: JSON error texts carry a line hint that counts buffered, not consumed, newlines
	if len(base.Steps) == len(got.Steps) {
		only := true
		for i := range base.Steps {
			a, b := base.Steps[i], got.Steps[i]
			a.Err = nearLineRe.ReplaceAllString(a.Err, "before/near line N")
			b.Err = nearLineRe.ReplaceAllString(b.Err, "before/near line N")
			if a != b {
				only = false
				break
			}
		}
		if only {
			return "json:near-line-hint-depends-on-chunking", "-- baseline:\n" + hx.Transcript(base.Steps) + "-- schedule:\n" + hx.Transcript(got.Steps)
		}
	}
	kind := "length"
	for i := 0; i < len(base.Steps) && i < len(got.Steps); i++ {
		if base.Steps[i] != got.Steps[i] {
			a, b := base.Steps[i], got.Steps[i]
			switch {
			case a.Kind != b.Kind:
				kind = a.Kind + "->" + b.Kind
			case a.Out != b.Out:
				kind = "record-bytes"
			case a.Sum != b.Sum:
				kind = "checksum"
			default:
				kind = "error-text"
			}
			break
		}
	}
	return "differs:" + item + ":" + kind, "-- baseline (one chunk):\n" + hx.Transcript(base.Steps) + "-- schedule:\n" + hx.Transcript(got.Steps)
}

func c09RunOnce(schemaText string, data []byte, mode string, choices, cuts []int) (hx.Result, *core.Exec, error) {
	schema, err, _ := hx.NewSchema("s", schemaText)
	if err != nil {
		return hx.Result{}, nil, err
	}
	switch mode {
	case "cuts", "cuts+empty":
		return hx.Run(schema, &hx.CutReader{Data: data, Cuts: cuts, EmptyBefore: mode == "cuts+empty"}, hx.Opts{MaxReads: 5000}), nil, nil
	case "onebyte", "onebyte+empty":
		cs := make([]int, 0, len(data))
		for i := 1; i < len(data); i++ {
			cs = append(cs, i)
		}
		return hx.Run(schema, &hx.CutReader{Data: data, Cuts: cs, EmptyBefore: mode == "onebyte+empty"}, hx.Opts{MaxReads: 3000}), nil, nil
	}
	x := &core.Exec{Prefix: choices}
	return hx.Run(schema, &hx.ChoiceReader{Data: data, X: x}, hx.Opts{MaxReads: 3000}), x, nil
}

func c09Check(cs c09Case) (string, string) {
	base, _, err := c09RunOnce(cs.Schema, cs.data(), "cuts", nil, nil)
	if err != nil {
		return "harness:schema-rejected", err.Error()
	}
	got, _, _ := c09RunOnce(cs.Schema, cs.data(), cs.Mode, cs.Choices, cs.Cuts)
	sig, detail := c09Diff(cs.Item, base, got)
	if sig == "" {
		detail = "same transcript as the one-chunk delivery:\n" + hx.Transcript(got.Steps)
	}
	return sig, detail
}

func init() {
	core.Register(&core.Prop{
		ID:    "C09",
		Level: "exploration",
		Rule:  "for every (schema, input) of the delivery corpus: all delivery schedules with at most k deviations from 'one chunk then EOF' (a deviation = a short read of any size, data returned together with io.EOF, or an empty read), byte-at-a-time delivery (also with an empty read before every byte), ALL 2^(n-1) cut sets of tiny inputs, and single/double cuts at every offset of 4-9 KB inputs that cross the 4096-byte bufio/replacing-reader and 128-byte EDI buffers; a case is distinct by (input, schedule); its outcome class is (input, transcript); inputs ending with empty lines after complete and truncated inputs; dense windows-1252 text in the long-input plan",
		Assumptions: []string{
			"the io.Reader obeys the io.Reader contract (never more than len(p) bytes, at most 3 consecutive empty reads)",
			"schedules beyond the deviation bound are covered only by the byte-at-a-time and all-cut-sets families",
		},
		BudgetQuick: 200, BudgetThorough: 1500,
		Run: func(c *core.Ctx) {
			bound := 2
			tinyMax := 11
			if !c.Quick() {
				bound = 4
				tinyMax = 18
			}
			report := func(cs c09Case, sig, detail string) {
				if strings.HasPrefix(sig, "harness:") {
					c.HarnessError(sig + ": " + detail)
					return
				}
				c.Violation(sig, detail, cs, func() string { s, _ := c09Check(cs); return s })
			}
			widx := 0
			// (a) deviation-bounded schedules + byte-at-a-time
			for _, it := range c09Corpus() {
				schema, err, _ := hx.NewSchema("s", it.Schema)
				if err != nil {
					c.HarnessError("corpus schema rejected: " + it.Name + ": " + err.Error())
					continue
				}
				for ii, data := range it.Inputs {
					data := data
					base := hx.Run(schema, &hx.CutReader{Data: data}, hx.Opts{MaxReads: 3000})
					b := bound
					if len(data) > 70 && b > 2 {
						b = 2
						if !c.Quick() && len(data) <= 200 {
							b = 3
						}
					}
					if len(data) <= 24 {
						b = bound + 1 // short inputs: one more deviation
					}
					name := fmt.Sprintf("%s#%d", it.Name, ii)
					// shard the DFS of this input over all workers
					var last hx.Result
					st := core.Explore(b, c.Shard, c.NShards, 0, func(x *core.Exec) {
						c.Begin(func() interface{} {
							return c09Case{Item: it.Name, Schema: it.Schema, InputB: data, Mode: "choices", Choices: x.Choices()}
						})
						last = hx.Run(schema, &hx.ChoiceReader{Data: data, X: x}, hx.Opts{MaxReads: 3000})
					}, func(x *core.Exec) bool {
						sig, detail := c09Diff(it.Name, base, last)
						c.Eval(name + "|" + fmt.Sprint(len(last.Steps)))
						if sig != "" {
							report(c09Case{Item: it.Name, Schema: it.Schema, InputB: data, Mode: "choices", Choices: x.Choices()}, sig, detail)
						} else if c.WantSample() && len(x.Prefix) >= 2 {
							c.Sample(map[string]interface{}{"item": it.Name, "input": string(data), "schedule_choices": x.Choices(), "reads": len(x.Points), "results": len(last.Steps)})
						}
						return !c.TimeUp()
					})
					c.Count("schedules_bounded", int64(st.Executions))
					c.Max("deviation_bound_completed", int64(b))
					widx++
					if c.Mine(widx) {
						got, _, _ := c09RunOnce(it.Schema, data, "onebyte", nil, nil)
						c.Eval(name + "|onebyte")
						c.Count("schedules_onebyte", 1)
						if sig, detail := c09Diff(it.Name, base, got); sig != "" {
							report(c09Case{Item: it.Name, Schema: it.Schema, InputB: data, Mode: "onebyte"}, sig, detail)
						}
						// one byte at a time with an empty read before every byte: never two empty reads in a
						// row, but hundreds in total
						got, _, _ = c09RunOnce(it.Schema, data, "onebyte+empty", nil, nil)
						c.Eval(name + "|onebyte+empty")
						c.Count("schedules_onebyte", 1)
						if sig, detail := c09Diff(it.Name, base, got); sig != "" {
							report(c09Case{Item: it.Name, Schema: it.Schema, InputB: data, Mode: "onebyte+empty"}, sig, detail)
						}
					}
				}
			}
			// (b) all cut sets of tiny inputs
			for _, it := range c09Tiny() {
				schema, err, _ := hx.NewSchema("s", it.Schema)
				if err != nil {
					c.HarnessError("tiny schema rejected: " + it.Name + ": " + err.Error())
					continue
				}
				for ii, data := range it.Inputs {
					n := len(data)
					if n > tinyMax {
						data = data[:tinyMax]
						n = tinyMax
					}
					base := hx.Run(schema, &hx.CutReader{Data: data}, hx.Opts{MaxReads: 3000})
					for mask := 1; mask < 1<<(n-1); mask++ {
						widx++
						if !c.Mine(widx) {
							continue
						}
						var cuts []int
						for b := 0; b < n-1; b++ {
							if mask&(1<<b) != 0 {
								cuts = append(cuts, b+1)
							}
						}
						cs := c09Case{Item: it.Name, Schema: it.Schema, InputB: data, Mode: "cuts", Cuts: cuts}
						c.Begin(func() interface{} { return cs })
						got := hx.Run(schema, &hx.CutReader{Data: data, Cuts: cuts}, hx.Opts{MaxReads: 3000})
						c.Eval(fmt.Sprintf("tiny:%s#%d|%d", it.Name, ii, len(got.Steps)))
						c.Count("schedules_all_cut_sets", 1)
						if sig, detail := c09Diff(it.Name, base, got); sig != "" {
							report(cs, sig, detail)
						}
					}
					if c.TimeUp() {
						return
					}
				}
			}
			// (b2) the repository's sample inputs (thorough): single cuts with a stride, byte-at-a-time
			if !c.Quick() {
				for _, it := range corpus.Samples() {
					if len(it.Inputs[0]) > 6000 || len(it.Schema) > 30000 {
						continue
					}
					schema, err, _ := hx.NewSchema("s", it.Schema)
					if err != nil {
						continue
					}
					data := []byte(it.Inputs[0])
					base := hx.Run(schema, &hx.CutReader{Data: data}, hx.Opts{MaxReads: 5000})
					for p := 1; p < len(data); p += 1 + len(data)/300 {
						widx++
						if !c.Mine(widx) {
							continue
						}
						cs := c09Case{Item: it.Name, Schema: it.Schema, InputB: data, Mode: "cuts", Cuts: []int{p}}
						c.Begin(func() interface{} { return cs })
						got := hx.Run(schema, &hx.CutReader{Data: data, Cuts: []int{p}}, hx.Opts{MaxReads: 5000})
						c.Eval("sample:" + it.Name)
						c.Count("schedules_sample_inputs", 1)
						if sig, detail := c09Diff(it.Name, base, got); sig != "" {
							report(cs, sig, trunc2(detail, 3000))
						}
					}
					widx++
					if c.Mine(widx) {
						got, _, _ := c09RunOnce(it.Schema, data, "onebyte", nil, nil)
						c.Eval("sample-onebyte:" + it.Name)
						if sig, detail := c09Diff(it.Name, base, got); sig != "" {
							report(c09Case{Item: it.Name, Schema: it.Schema, InputB: data, Mode: "onebyte"}, sig, trunc2(detail, 3000))
						}
					}
					if c.TimeUp() {
						return
					}
				}
			}
			// (c) long inputs: every single cut (quick: a stride plus the buffer boundaries), double cuts at buffer boundaries
			for _, it := range c09Long() {
				schema, err, _ := hx.NewSchema("s", it.Schema)
				if err != nil {
					c.HarnessError("long schema rejected: " + it.Name + ": " + err.Error())
					continue
				}
				data := it.Inputs[0]
				base := hx.Run(schema, &hx.CutReader{Data: data}, hx.Opts{MaxReads: 5000})
				near := func(p int) bool {
					for _, b := range []int{128, 256, 512, 4096, 8192} {
						if p >= b-6 && p <= b+6 {
							return true
						}
					}
					return false
				}
				try := func(cuts []int) bool {
					widx++
					if !c.Mine(widx) {
						return true
					}
					cs := c09Case{Item: it.Name, Schema: it.Schema, InputB: data, Mode: "cuts", Cuts: cuts}
					c.Begin(func() interface{} { return cs })
					got := hx.Run(schema, &hx.CutReader{Data: data, Cuts: cuts}, hx.Opts{MaxReads: 5000})
					c.Eval(fmt.Sprintf("long:%s|%d", it.Name, len(got.Steps)))
					c.Count("schedules_long_inputs", 1)
					if sig, detail := c09Diff(it.Name, base, got); sig != "" {
						report(cs, sig, trunc2(detail, 3000))
					}
					return !c.TimeUp()
				}
				// pieces of 1 / 7 / 13 bytes with an empty read before every piece (hundreds of empty reads, never
				// two in a row)
				for _, size := range []int{1, 7, 13} {
					widx++
					if !c.Mine(widx) {
						continue
					}
					var cuts []int
					for p := size; p < len(data); p += size {
						cuts = append(cuts, p)
					}
					cs := c09Case{Item: it.Name, Schema: it.Schema, InputB: data, Mode: "cuts+empty", Cuts: cuts}
					c.Begin(func() interface{} { return cs })
					got := hx.Run(schema, &hx.CutReader{Data: data, Cuts: cuts, EmptyBefore: true}, hx.Opts{MaxReads: 5000})
					c.Eval(fmt.Sprintf("long+empty:%s|%d", it.Name, size))
					c.Count("schedules_long_inputs", 1)
					if sig, detail := c09Diff(it.Name, base, got); sig != "" {
						report(cs, sig, trunc2(detail, 3000))
					}
				}
				stride := 1
				if c.Quick() {
					stride = 41
				}
				for p := 1; p < len(data); p++ {
					if p%stride == 0 || near(p) {
						if !try([]int{p}) {
							return
						}
					}
				}
				// double cuts: second cut near a buffer boundary after the first
				for p := 1; p < len(data); p += 7 * stride {
					for _, d := range []int{1, 2, 127, 128, 129, 4095, 4096, 4097} {
						if p+d < len(data) {
							if !try([]int{p, p + d}) {
								return
							}
						}
					}
				}
				if !try(func() []int {
					var cs []int
					for i := 1; i < len(data); i++ {
						cs = append(cs, i)
					}
					return cs
				}()) {
					return
				}
			}
		},
		Replay: func(raw json.RawMessage) (string, string) {
			var cs c09Case
			if err := json.Unmarshal(raw, &cs); err != nil {
				return "harness:bad-replay", err.Error()
			}
			return c09Check(cs)
		},
	})
}

func trunc2(s string, n int) string {
	if len(s) > n {
		return s[:n] + "…"
	}
	return s
}
