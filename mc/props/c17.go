package props

import (
	"encoding/json"
	"fmt"
	"hash/fnv"
	"strings"

	"github.com/jf-tech/omniparser"
	"github.com/jf-tech/omniparser/idr"
	"github.com/jf-tech/omniparser/transformctx"

	"verif/mc/core"
	"verif/mc/gen"
	"verif/mc/hx"
)

// C17 — retained memory does not grow with records delivered (periodic inputs, lasso argument on
// the signature of the retained tree).

type c17Fmt struct {
	Name   string
	Schema string
	Prefix string
	Suffix string
	Rec    map[byte]string // P = passes, F = rejected by the FINAL_OUTPUT filter, T = transform fails
	Seps   map[string]string
}

func c17BigJSON(a, f7 string) string {
	var b strings.Builder
	fmt.Fprintf(&b, `{"a":%q`, a)
	for i := 0; i < 2100; i++ {
		v := "1"
		if i == 7 {
			v = f7
		}
		fmt.Fprintf(&b, `,"f%d":%s`, i, v)
	}
	b.WriteString("},")
	return b.String()
}

func c17BigXML(k, f7 string) string {
	var b strings.Builder
	fmt.Fprintf(&b, `<a k=%q>`, k)
	for i := 0; i < 2100; i++ {
		v := "1"
		if i == 7 {
			v = f7
		}
		fmt.Fprintf(&b, `<f%d>%s</f%d>`, i, v, i)
	}
	b.WriteString("</a>")
	return b.String()
}

func c17Formats() []c17Fmt {
	h := func(f string) string {
		return `"parser_settings":{"version":"omni.2.1","file_format_type":"` + f + `"}`
	}
	nl := map[string]string{"none": "", "blank-lines": "\n\n", "crlf": "\r\n"}
	return []c17Fmt{
		{Name: "csv", Schema: `{` + h("csv") + `,"file_declaration":{"delimiter":",","header_row_index":1,"data_row_index":2,"columns":[{"name":"a"},{"name":"b"}]},
 "transform_declarations":{"FINAL_OUTPUT":{"xpath":".[a!='skip']","object":{"a":{"xpath":"a"},"b":{"xpath":"b","type":"int"}}}}}`,
			Prefix: "a,b\n", Rec: map[byte]string{'P': "x,1\n", 'F': "skip,1\n", 'T': "x,zz\n"}, Seps: nl},
		{Name: "csv2-flat", Schema: `{` + h("csv2") + `,"file_declaration":{"delimiter":",","records":[{"name":"H","header":"^H","min":1,"max":1},{"name":"R","header":"^R","is_target":true,"columns":[{"name":"a","index":2},{"name":"b","index":3}]},{"name":"T","header":"^T","min":0,"max":1}]},
 "transform_declarations":{"FINAL_OUTPUT":{"xpath":".[a!='skip']","object":{"a":{"xpath":"a"},"b":{"xpath":"b","type":"int"}}}}}`,
			Prefix: "H\n", Suffix: "T\n", Rec: map[byte]string{'P': "R,x,1\n", 'F': "R,skip,1\n", 'T': "R,x,zz\n"}, Seps: nl},
		{Name: "csv2-nested", Schema: `{` + h("csv2") + `,"file_declaration":{"delimiter":",","records":[{"name":"F","header":"^F","min":1,"max":1},
   {"name":"G","type":"record_group","is_target":true,"child_records":[{"name":"H","header":"^H","min":1,"max":1,"columns":[{"name":"a","index":2}]},{"name":"D","header":"^D","columns":[{"name":"b","index":2}]}]}]},
 "transform_declarations":{"FINAL_OUTPUT":{"xpath":".[H/a!='skip']","object":{"a":{"xpath":"H/a"},"bs":{"array":[{"xpath":"D/b","type":"int"}]}}}}}`,
			Prefix: "F\n", Rec: map[byte]string{'P': "H,x\nD,1\nD,2\n", 'F': "H,skip\nD,1\n", 'T': "H,x\nD,zz\n"}, Seps: nl},
		{Name: "fixed-length-rows", Schema: `{` + h("fixed-length") + `,"file_declaration":{"envelopes":[{"by_rows":2,"columns":[{"name":"a","start_pos":1,"length":4,"line_pattern":"^[a-z]"},{"name":"b","start_pos":1,"length":2,"line_pattern":"^[0-9z]"}]}]},
 "transform_declarations":{"FINAL_OUTPUT":{"xpath":".[a!='skip']","object":{"a":{"xpath":"a"},"b":{"xpath":"b","type":"int"}}}}}`,
			Rec: map[byte]string{'P': "xxxx\n11\n", 'F': "skip\n11\n", 'T': "xxxx\nzz\n"}, Seps: nl},
		{Name: "fixed-length-hf", Schema: `{` + h("fixed-length") + `,"file_declaration":{"envelopes":[{"name":"G","by_header_footer":{"header":"^A0","footer":"^A9"},"not_target":true,"columns":[{"name":"c","start_pos":3,"length":1}]},
   {"name":"V","by_header_footer":{"header":"^V0","footer":"^V9"},"columns":[{"name":"a","start_pos":3,"length":4,"line_pattern":"^V2"},{"name":"b","start_pos":3,"length":2,"line_pattern":"^V3"}]}]},
 "transform_declarations":{"FINAL_OUTPUT":{"xpath":".[a!='skip']","object":{"a":{"xpath":"a"},"b":{"xpath":"b","type":"int"},"c":{"xpath":"../G/c"}}}}}`,
			Prefix: "A0g\nA9\n", Rec: map[byte]string{'P': "V0\nV2xxxx\nV311\nV9\n", 'F': "V0\nV2skip\nV9\n", 'T': "V0\nV2xxxx\nV3zz\nV9\n"}, Seps: nl},
		{Name: "fixedlength2-flat", Schema: `{` + h("fixedlength2") + `,"file_declaration":{"envelopes":[{"name":"H","header":"^H","min":1,"max":1},{"name":"R","header":"^R","is_target":true,"columns":[{"name":"a","start_pos":2,"length":4},{"name":"b","start_pos":6,"length":2}]}]},
 "transform_declarations":{"FINAL_OUTPUT":{"xpath":".[a!='skip']","object":{"a":{"xpath":"a"},"b":{"xpath":"b","type":"int"}}}}}`,
			Prefix: "H\n", Rec: map[byte]string{'P': "Rxxxx11\n", 'F': "Rskip11\n", 'T': "Rxxxxzz\n"}, Seps: nl},
		{Name: "fixedlength2-nested", Schema: `{` + h("fixedlength2") + `,"file_declaration":{"envelopes":[{"name":"F","header":"^F","min":1,"max":1,"child_envelopes":[
   {"name":"G","type":"envelope_group","is_target":true,"child_envelopes":[{"name":"N","rows":2,"min":1,"max":1,"columns":[{"name":"a","start_pos":2,"length":4,"line_index":1},{"name":"b","start_pos":1,"length":2,"line_index":2}]},{"name":"S","header":"^S","columns":[{"name":"s","start_pos":2,"length":1}]}]}]}]},
 "transform_declarations":{"FINAL_OUTPUT":{"xpath":".[N/a!='skip']","object":{"a":{"xpath":"N/a"},"b":{"xpath":"N/b","type":"int"},"ss":{"array":[{"xpath":"S/s"}]}}}}}`,
			Prefix: "F\n", Rec: map[byte]string{'P': "Nxxxx\n11\nS1\nS2\n", 'F': "Nskip\n11\n", 'T': "Nxxxx\nzz\nS1\n"}, Seps: nl},
		{Name: "edi-flat", Schema: `{` + h("edi") + `,"file_declaration":{"segment_delimiter":"~","element_delimiter":"*","ignore_crlf":true,"segment_declarations":[{"name":"ISA","child_segments":[
   {"name":"A","is_target":true,"min":0,"max":-1,"elements":[{"name":"a","index":1},{"name":"b","index":2}]}]},{"name":"IEA"}]},
 "transform_declarations":{"FINAL_OUTPUT":{"xpath":".[a!='skip']","object":{"a":{"xpath":"a"},"b":{"xpath":"b","type":"int"},"i":{"xpath":"../e"}}}}}`,
			Prefix: "ISA*0~", Suffix: "IEA~", Rec: map[byte]string{'P': "A*x*1~", 'F': "A*skip*1~", 'T': "A*x*zz~"}, Seps: nl},
		{Name: "edi-nested", Schema: `{` + h("edi") + `,"file_declaration":{"segment_delimiter":"\n","element_delimiter":"*","segment_declarations":[{"name":"ISA","child_segments":[{"name":"GS","child_segments":[
   {"name":"grp","type":"segment_group","is_target":true,"min":0,"max":-1,"child_segments":[{"name":"ST","elements":[{"name":"a","index":1}]},{"name":"N1","min":0,"max":3,"elements":[{"name":"b","index":1}]},{"name":"SE"}]}]}]}]},
 "transform_declarations":{"FINAL_OUTPUT":{"xpath":".[ST/a!='skip']","object":{"a":{"xpath":"ST/a"},"bs":{"array":[{"xpath":"N1/b","type":"int"}]}}}}}`,
			Prefix: "ISA\nGS\n", Rec: map[byte]string{'P': "ST*x\nN1*1\nN1*2\nSE\n", 'F': "ST*skip\nSE\n", 'T': "ST*x\nN1*zz\nSE\n"}, Seps: map[string]string{"none": "", "crlf-lines": "\r\n\n"}},
		{Name: "json-array", Schema: `{` + h("json") + `,"transform_declarations":{"FINAL_OUTPUT":{"xpath":"/r/items/*[a!='skip']","object":{"a":{"xpath":"a"},"b":{"xpath":"b","type":"int"},"n":{"xpath":"../../name"}}}}}`,
			Prefix: `{"name":"N","r":{"items":[`, Suffix: `{"a":"skip"}]}}`, Rec: map[byte]string{'P': `{"a":"x","b":[1,{"c":2}]},`, 'F': `{"a":"skip","b":1},`, 'T': `{"a":"x","b":"zz"},`},
			Seps: map[string]string{"none": "", "whitespace": " \n\t", "newlines": "\n\n"}},
		{Name: "json-toplevel-scalars", Schema: `{` + h("json") + `,"transform_declarations":{"FINAL_OUTPUT":{"xpath":"/*[.!='skip']","object":{"v":{"xpath":".","type":"int"}}}}}`,
			Prefix: `[`, Suffix: `"skip"]`, Rec: map[byte]string{'P': `1,`, 'F': `"skip",`, 'T': `"zz",`}, Seps: map[string]string{"none": "", "whitespace": " \n"}},
		// records that are members of one JSON object (scalars, and objects), with a filter
		{Name: "json-keyed-scalars", Schema: `{` + h("json") + `,"transform_declarations":{"FINAL_OUTPUT":{"xpath":"/status/*[.!='skip']","object":{"v":{"xpath":".","type":"int"},"n":{"xpath":"../../name"}}}}}`,
			Prefix: `{"name":"N","status":{`, Suffix: `"end":"skip"}}`, Rec: map[byte]string{'P': `"k":1,`, 'F': `"k":"skip",`, 'T': `"k":"zz",`}, Seps: map[string]string{"none": "", "whitespace": " \n"}},
		{Name: "json-keyed-objects", Schema: `{` + h("json") + `,"transform_declarations":{"FINAL_OUTPUT":{"xpath":"/r/items/*[a!='skip']","object":{"a":{"xpath":"a"},"b":{"xpath":"b","type":"int"},"n":{"xpath":"../../name"}}}}}`,
			Prefix: `{"name":"N","r":{"items":{`, Suffix: `"end":{"a":"skip"}}}}`, Rec: map[byte]string{'P': `"k":{"a":"x","b":[1,{"c":2}]},`, 'F': `"k":{"a":"skip","b":1},`, 'T': `"k":{"a":"x","b":"zz"},`},
			Seps: map[string]string{"none": "", "newlines": "\n\n"}},
		// records of more than 4096 nodes each (2 100 fields): what holds for small records holds for big ones
		{Name: "json-big-records", Schema: `{` + h("json") + `,"transform_declarations":{"FINAL_OUTPUT":{"xpath":"/items/*[a!='skip']","object":{"a":{"xpath":"a"},"b":{"xpath":"f7","type":"int"}}}}}`,
			Prefix: `{"items":[`, Suffix: `{"a":"skip"}]}`, Rec: map[byte]string{'P': c17BigJSON("x", "7"), 'F': c17BigJSON("skip", "7"), 'T': c17BigJSON("x", `"zz"`)},
			Seps: map[string]string{"none": ""}},
		{Name: "xml-big-records", Schema: `{` + h("xml") + `,"transform_declarations":{"FINAL_OUTPUT":{"xpath":"/r/a[@k!='skip']","object":{"k":{"xpath":"@k"},"b":{"xpath":"f7","type":"int"}}}}}`,
			Prefix: `<r>`, Suffix: `</r>`, Rec: map[byte]string{'P': c17BigXML("x", "7"), 'F': c17BigXML("skip", "7"), 'T': c17BigXML("x", "zz")},
			Seps: map[string]string{"none": ""}},
		// a target xpath that mentions position() / last() next to the filter
		{Name: "xml-positional-filter", Schema: `{` + h("xml") + `,"transform_declarations":{"FINAL_OUTPUT":{"xpath":"/r/g/a[position() <= 1000000 and @k!='skip']","object":{"k":{"xpath":"@k"},"b":{"xpath":"b","type":"int"},"h":{"xpath":"../../h"}}}}}`,
			Prefix: `<r><h>H</h><g>`, Suffix: `</g></r>`, Rec: map[byte]string{'P': `<a k="x"><b>1</b><c/></a>`, 'F': `<a k="skip"><b>1</b></a>`, 'T': `<a k="x"><b>zz</b></a>`},
			Seps: map[string]string{"none": "", "comment": "<!-- c -->"}},
		{Name: "xml-basic", Schema: `{` + h("xml") + `,"transform_declarations":{"FINAL_OUTPUT":{"xpath":"/r/g/a[@k!='skip']","object":{"k":{"xpath":"@k"},"b":{"xpath":"b","type":"int"},"h":{"xpath":"../../h"}}}}}`,
			Prefix: `<r><h>H</h><g>`, Suffix: `</g></r>`, Rec: map[byte]string{'P': `<a k="x"><b>1</b><c/></a>`, 'F': `<a k="skip"><b>1</b></a>`, 'T': `<a k="x"><b>zz</b></a>`},
			Seps: map[string]string{"none": "", "chardata": "\n  ", "comment": "<!-- c -->"}},
		// numeric filters meeting a value that is not a number ("F" here = the filter cannot be evaluated on the record)
		{Name: "csv-numeric-filter", Schema: `{` + h("csv") + `,"file_declaration":{"delimiter":",","header_row_index":1,"data_row_index":2,"columns":[{"name":"a"},{"name":"b"},{"name":"q"}]},
 "transform_declarations":{"FINAL_OUTPUT":{"xpath":".[q>5]","object":{"a":{"xpath":"a"},"b":{"xpath":"b","type":"int"}}}}}`,
			Prefix: "a,b,q\n", Rec: map[byte]string{'P': "x,1,20\n", 'F': "x,1,N/A\n", 'T': "x,zz,20\n"}, Seps: map[string]string{"none": ""}},
		{Name: "fixed-length-rows-numeric-filter", Schema: `{` + h("fixed-length") + `,"file_declaration":{"envelopes":[{"by_rows":2,"columns":[{"name":"a","start_pos":1,"length":4,"line_pattern":"^[a-z]"},{"name":"q","start_pos":5,"length":3,"line_pattern":"^[a-z]"},{"name":"b","start_pos":1,"length":2,"line_pattern":"^[0-9z]"}]}]},
 "transform_declarations":{"FINAL_OUTPUT":{"xpath":".[q > 5]","object":{"a":{"xpath":"a"},"b":{"xpath":"b","type":"int"}}}}}`,
			Rec: map[byte]string{'P': "xxxx020\n11\n", 'F': "xxxxN/A\n11\n", 'T': "xxxx020\nzz\n"}, Seps: map[string]string{"none": ""}},
		{Name: "fixed-length-hf-numeric-filter", Schema: `{` + h("fixed-length") + `,"file_declaration":{"envelopes":[{"name":"V","by_header_footer":{"header":"^V0","footer":"^V9"},"columns":[{"name":"q","start_pos":3,"length":3,"line_pattern":"^V2"},{"name":"b","start_pos":3,"length":2,"line_pattern":"^V3"}]}]},
 "transform_declarations":{"FINAL_OUTPUT":{"xpath":".[q > 5]","object":{"b":{"xpath":"b","type":"int"}}}}}`,
			Rec: map[byte]string{'P': "V0\nV2020\nV311\nV9\n", 'F': "V0\nV2N/A\nV311\nV9\n", 'T': "V0\nV2020\nV3zz\nV9\n"}, Seps: map[string]string{"none": ""}},
		{Name: "edi-flat-numeric-filter", Schema: `{` + h("edi") + `,"file_declaration":{"segment_delimiter":"~","element_delimiter":"*","segment_declarations":[{"name":"ISA","child_segments":[
   {"name":"A","is_target":true,"min":0,"max":-1,"elements":[{"name":"q","index":1},{"name":"b","index":2}]}]},{"name":"IEA"}]},
 "transform_declarations":{"FINAL_OUTPUT":{"xpath":".[q>=5]","object":{"b":{"xpath":"b","type":"int"}}}}}`,
			Prefix: "ISA*0~", Suffix: "IEA~", Rec: map[byte]string{'P': "A*20*1~", 'F': "A*N/A*1~", 'T': "A*20*zz~"}, Seps: map[string]string{"none": ""}},
		{Name: "csv2-flat-numeric-filter", Schema: `{` + h("csv2") + `,"file_declaration":{"delimiter":",","records":[{"name":"R","header":"^R","is_target":true,"columns":[{"name":"q","index":2},{"name":"b","index":3}]}]},
 "transform_declarations":{"FINAL_OUTPUT":{"xpath":".[q>5]","object":{"b":{"xpath":"b","type":"int"}}}}}`,
			Rec: map[byte]string{'P': "R,20,1\n", 'F': "R,N/A,1\n", 'T': "R,20,zz\n"}, Seps: map[string]string{"none": ""}},
		{Name: "xml-numeric-filter", Schema: `{` + h("xml") + `,"transform_declarations":{"FINAL_OUTPUT":{"xpath":"/r/a[q>5]","object":{"b":{"xpath":"b","type":"int"}}}}}`,
			Prefix: `<r>`, Suffix: `</r>`, Rec: map[byte]string{'P': `<a><q>20</q><b>1</b></a>`, 'F': `<a><q>N/A</q><b>1</b></a>`, 'T': `<a><q>20</q><b>zz</b></a>`},
			Seps: map[string]string{"none": ""}},
		{Name: "xml-childfilter", Schema: `{` + h("xml") + `,"transform_declarations":{"FINAL_OUTPUT":{"xpath":"/r/a[b!='0']","object":{"b":{"xpath":"b","type":"int"}}}}}`,
			Prefix: `<r>`, Suffix: `</r>`, Rec: map[byte]string{'P': `<a><b>1</b></a>`, 'F': `<a><b>0</b></a>`, 'T': `<a><b>zz</b></a>`},
			Seps: map[string]string{"none": "", "chardata": "\n", "comment": "<!-- c -->"}},
	}
}

var c17Patterns = []string{"P", "PF", "FP", "FFP", "PFFF", "FFFFP", "PT", "TP", "TTP", "PFT", "FTFTP", "TFFTP", "PPF", "PPTT"}

type c17Case struct {
	Fmt     string `json:"format_item"`
	Sep     string `json:"separator"`
	Pattern string `json:"pattern"`
	Driver  string `json:"driver"` // transform | reader-norelease
	Cycles  int    `json:"cycles"`
	// Heap: measure the bytes reachable from the Transform / reader object (every 4th delivered record)
	// instead of the node tree, and require that they do not keep growing
	Heap bool `json:"heap,omitempty"`
}

func c17Input(f c17Fmt, sep, pattern string, cycles int) string {
	var b strings.Builder
	b.WriteString(f.Prefix)
	for i := 0; i < cycles; i++ {
		for j := 0; j < len(pattern); j++ {
			b.WriteString(f.Seps[sep])
			b.WriteString(f.Rec[pattern[j]])
		}
	}
	b.WriteString(f.Seps[sep])
	b.WriteString(f.Suffix)
	return b.String()
}

// treeSig returns the number of nodes reachable from n's root and a hash of the tree's structure
// (types and names, no text values).
func treeSig(n *idr.Node) (int, uint64) {
	root := n
	for root.Parent != nil {
		root = root.Parent
	}
	h := fnv.New64a()
	count := 0
	var walk func(x *idr.Node, depth int)
	walk = func(x *idr.Node, depth int) {
		count++
		if count > 5_000_000 {
			return
		}
		fmt.Fprintf(h, "%d:%d:", depth, x.Type)
		if x.Type != idr.TextNode {
			h.Write([]byte(x.Data))
		}
		h.Write([]byte{0})
		for c := x.FirstChild; c != nil; c = c.NextSibling {
			walk(c, depth+1)
		}
	}
	walk(root, 0)
	return count, h.Sum64()
}

type c17Obs struct {
	Sizes []int
	Sigs  []uint64
	Heap  []int64 // bytes reachable from the Transform / format reader object at each delivered record
	End   string
}

func c17Run(f c17Fmt, cs c17Case) (c17Obs, error) {
	input := c17Input(f, cs.Sep, cs.Pattern, cs.Cycles)
	var o c17Obs
	if cs.Driver == "transform" {
		schema, err, _ := hx.NewSchema("s", f.Schema)
		if err != nil {
			return o, err
		}
		var tr omniparser.Transform
		tr, err = schema.NewTransform("in", strings.NewReader(input), &transformctx.Ctx{})
		if err != nil {
			return o, err
		}
		for reads := 0; reads < 20*len(input)+100; reads++ {
			b, err := tr.Read()
			st := hx.Classify(b, err)
			if st.Terminal() {
				o.End = st.String()
				return o, nil
			}
			if st.Kind != "rec" {
				continue
			}
			rr, err := tr.RawRecord()
			if err != nil {
				o.End = "rawrecord-error"
				return o, nil
			}
			n, s := treeSig(rr.Raw().(*idr.Node))
			o.Sizes = append(o.Sizes, n)
			o.Sigs = append(o.Sigs, s)
			if cs.Heap && len(o.Sizes)%4 == 0 {
				o.Heap = append(o.Heap, core.DeepSize(tr))
			}
		}
		o.End = "no-terminal-result"
		return o, nil
	}
	mk, err := hx.FormatReaderFactory(f.Schema)
	if err != nil {
		return o, err
	}
	r, err := mk(input)
	if err != nil {
		return o, err
	}
	for reads := 0; reads < 20*len(input)+100; reads++ {
		node, err := r.Read() // deliberately never Released: the next Read has to clean up
		if err != nil {
			o.End = hx.Classify(nil, err).String()
			if r.IsContinuableError(err) {
				continue
			}
			return o, nil
		}
		n, s := treeSig(node)
		o.Sizes = append(o.Sizes, n)
		o.Sigs = append(o.Sigs, s)
		if cs.Heap && len(o.Sizes)%4 == 0 {
			o.Heap = append(o.Heap, core.DeepSize(r))
		}
	}
	o.End = "no-terminal-result"
	return o, nil
}

func c17Check(cs c17Case) (sig, detail string, o c17Obs) {
	var f *c17Fmt
	for _, x := range c17Formats() {
		if x.Name == cs.Fmt {
			x := x
			f = &x
		}
	}
	if f == nil {
		return "harness:unknown-format", cs.Fmt, o
	}
	o, err := c17Run(*f, cs)
	if err != nil {
		return "harness:setup", err.Error(), o
	}
	period := strings.Count(cs.Pattern, "P")
	want := period * cs.Cycles
	if cs.Driver != "transform" {
		// without a transform a 'T' record is simply delivered
		period += strings.Count(cs.Pattern, "T")
		want = period * cs.Cycles
	}
	if len(o.Sizes) != want || o.End != "eof" {
		return "harness:unexpected-transcript", fmt.Sprintf("%+v: delivered %d records (want %d), end %q", cs, len(o.Sizes), want, o.End), o
	}
	if cs.Heap {
		// steady state: the largest retained size seen in the second half of the run must not exceed the
		// largest seen between 10% and 50% by more than a small constant (buffer alignment makes the size
		// fluctuate, so it is not compared record by record); a leak of one byte per cycle adds >= cycles/2
		n := len(o.Heap)
		if n < 200 {
			return "harness:heap-run-too-short", fmt.Sprintf("%+v: %d measurements", cs, n), o
		}
		var m1, m2 int64
		for i := n / 10; i < n/2; i++ {
			if o.Heap[i] > m1 {
				m1 = o.Heap[i]
			}
		}
		for i := n / 2; i < n; i++ {
			if o.Heap[i] > m2 {
				m2 = o.Heap[i]
			}
		}
		if m2 > m1+256 {
			return fmt.Sprintf("retained-bytes-grow:%s:sep=%s:%s", cs.Fmt, cs.Sep, cs.Driver), fmt.Sprintf("%+v: bytes reachable from the %s object: max %d between 10%% and 50%% of the run, max %d in the second half (first measurements %v, last %v)", cs, cs.Driver, m1, m2, o.Heap[:4], o.Heap[n-4:]), o
		}
		return "", "", o
	}
	warm := 2 * period
	for i := warm; i+period < len(o.Sigs); i++ {
		if o.Sigs[i] != o.Sigs[i+period] || o.Sizes[i] != o.Sizes[i+period] {
			sepKind := cs.Sep
			s := fmt.Sprintf("grows:%s:sep=%s:pattern=%s:%s", cs.Fmt, sepKind, cs.Pattern, cs.Driver)
			if strings.HasPrefix(cs.Fmt, "xml") && cs.Sep == "chardata" {
				s = "grows:xml:sep=chardata"
			}
			head := o.Sizes
			if len(head) > 24 {
				head = head[:24]
			}
			return s, fmt.Sprintf("%+v: reachable-node counts per delivered record: %v ... last %d (record %d differs from record %d)", cs, head, o.Sizes[len(o.Sizes)-1], i, i+period), o
		}
	}
	return "", "", o
}

func init() {
	core.Register(&core.Prop{
		ID:    "C17",
		Level: "exploration",
		Rule:  "for every format item x separator x periodic outcome pattern over {pass, filtered-out (for six items: the numeric filter cannot be evaluated on the record's value), transform-fails} (quick: 14 words; thorough: every word of length <= 5 with a delivered record) x driver {Transform loop, FormatReader without Release}: prefix (sep record)^k suffix with k cycles; for every delivered record the tree reachable from its root is measured (node count, structure hash) and must be periodic with the pattern period after a 2-period warm-up (a lasso in the retained-state graph, which bounds the size for every k); plus, per item x separator x driver, one run of 1500 (thorough 6000) cycles in which the BYTES reachable from the Transform / reader object (reflection walk: objects behind pointers, slice capacities, strings, map entries) are measured at every 4th delivered record and the maximum over the second half must not exceed the maximum between 10% and 50% by more than 256 bytes; distinct by (item, separator, pattern, driver); 24 format items incl. JSON records keyed inside an object, positional filter, records of more than 4 096 nodes",
		Assumptions: []string{
			"readers are deterministic functions of their retained state and the remaining input, so a repeated retained-tree signature at the same phase of a periodic input repeats forever",
			"non-target declarations that themselves repeat without bound (e.g. repeated global envelopes) are outside the property ('a fixed set of ancestors')",
		},
		Run: func(c *core.Ctx) {
			cycles := 24
			if !c.Quick() {
				cycles = 96
			}
			patterns := c17Patterns
			if !c.Quick() {
				// every outcome word of length <= 5 over {P, F, T} that delivers at least one record
				patterns = nil
				gen.Sequences(3, 5, func(seq []int) bool {
					w := ""
					for _, s := range seq {
						w += string("PFT"[s])
					}
					if strings.Contains(w, "P") {
						patterns = append(patterns, w)
					}
					return true
				})
			}
			idx := 0
			for _, f := range c17Formats() {
				for sep := range f.Seps {
					for _, pat := range patterns {
						for _, drv := range []string{"transform", "reader-norelease"} {
							idx++
							if !c.Mine(idx) {
								continue
							}
							cs := c17Case{Fmt: f.Name, Sep: sep, Pattern: pat, Driver: drv, Cycles: cycles}
							c.Begin(func() interface{} { return cs })
							sig, detail, o := c17Check(cs)
							last := 0
							if len(o.Sizes) > 0 {
								last = o.Sizes[len(o.Sizes)-1]
							}
							c.Eval(fmt.Sprintf("%s|%s|%s|%s|%d", f.Name, sep, pat, drv, last))
							c.Count("records_measured", int64(len(o.Sizes)))
							switch {
							case strings.HasPrefix(sig, "harness:"):
								c.HarnessError(sig + ": " + detail)
							case sig != "":
								c.Violation(sig, detail, cs, func() string { s, _, _ := c17Check(cs); return s })
							case c.WantSample():
								c.Sample(map[string]interface{}{"case": cs, "retained_nodes_per_record_head": o.Sizes[:minInt(8, len(o.Sizes))], "retained_nodes_last": last})
							}
						}
					}
				}
				// retained bytes (everything reachable from the Transform / reader object, not only nodes)
				for sep := range f.Seps {
					if strings.HasPrefix(f.Name, "xml") && sep == "chardata" {
						continue // known finding: one text node per record stays in the tree
					}
					for _, drv := range []string{"transform", "reader-norelease"} {
						idx++
						if !c.Mine(idx) {
							continue
						}
						cs := c17Case{Fmt: f.Name, Sep: sep, Pattern: "PFTP", Driver: drv, Cycles: 1500, Heap: true}
						if strings.HasSuffix(f.Name, "-big-records") {
							continue // (the node-count lasso covers them; a byte walk over 4 200-node records 6 000 times is not worth its time)
						}
						if !c.Quick() {
							cs.Cycles = 6000
						}
						c.Begin(func() interface{} { return cs })
						sig, detail, o := c17Check(cs)
						c.Eval(fmt.Sprintf("heap|%s|%s|%s", f.Name, sep, drv))
						c.Count("retained_bytes_measurements", int64(len(o.Heap)))
						switch {
						case strings.HasPrefix(sig, "harness:"):
							c.HarnessError(sig + ": " + detail)
						case sig != "":
							c.Violation(sig, detail, cs, func() string { s, _, _ := c17Check(cs); return s })
						case c.WantSample():
							c.Sample(map[string]interface{}{"case": cs, "retained_bytes_first": o.Heap[:3], "retained_bytes_last": o.Heap[len(o.Heap)-3:]})
						}
					}
				}
				if !c.Quick() {
					// one long run per format as a sanity check of the lasso argument
					idx++
					if c.Mine(idx) {
						cs := c17Case{Fmt: f.Name, Sep: "none", Pattern: "PFT", Driver: "transform", Cycles: 70000}
						if strings.HasSuffix(f.Name, "-big-records") {
							cs.Cycles = 400 // (25 KB per record: 70 000 cycles would be 5 GB of input)
						}
						c.Begin(func() interface{} { return cs })
						sig, detail, o := c17Check(cs)
						c.Eval(fmt.Sprintf("long|%s", f.Name))
						c.Count("records_measured", int64(len(o.Sizes)))
						if strings.HasPrefix(sig, "harness:") {
							c.HarnessError(sig + ": " + detail)
						} else if sig != "" {
							c.Violation(sig, detail, cs, nil)
						}
					}
				}
				if c.TimeUp() {
					return
				}
			}
		},
		Replay: func(raw json.RawMessage) (string, string) {
			var cs c17Case
			if err := json.Unmarshal(raw, &cs); err != nil {
				return "harness:bad-replay", err.Error()
			}
			sig, detail, o := c17Check(cs)
			if sig == "" {
				detail = fmt.Sprintf("periodic: sizes %v", o.Sizes[:minInt(16, len(o.Sizes))])
			}
			return sig, detail
		},
	})
}

func minInt(a, b int) int {
	if a < b {
		return a
	}
	return b
}
