package props

import (
	"strings"

	"verif/mc/corpus"
)

// TOK-fmt: per-format token alphabets chosen so that short strings reach every error class of
// the reader (shared by C01 and C03).
var tokAlphabets = map[string][]string{
	"csv":          {"a", ",", "\"", "\n", "\r", "é", "|", "1"},
	"csv2":         {"a", ",", "\"", "\n", "\r", "B", "E", "1", "|"},
	"fixed-length": {"a", "b1", "A0", "A9", "V0", "V2 t", "V9", "\n", "\r", " ", "é"},
	"fixedlength2": {"a", "b1", "A0", "A9", "V0", "V2 t", "V9", "Z0", "\n", "\r", "H", "N", "S", "T"},
	"edi":          {"ISA", "A", "IEA", "ST", "N1", "SE", "X", "*", "~", "\n", ":", "?", "\r", "1"},
	"json":         {"{", "}", "[", "]", "\"a\"", ":", ",", "1", "nul", " ", "\"b\"", "\"zz\""},
	"xml":          {"<r>", "</r>", "<a>", "</a>", "<a k=\"1\">", "<b>", "</b>", "x", "1", "&", "<", " ", "<!--c-->", "<a/>"},
}

// tokStrings enumerates every concatenation of up to maxLen tokens (including the empty string).
func tokStrings(tokens []string, maxLen int, visit func(s string, idx int) bool) {
	idx := 0
	var parts []string
	var rec func() bool
	rec = func() bool {
		idx++
		if !visit(strings.Join(parts, ""), idx) {
			return false
		}
		if len(parts) == maxLen {
			return true
		}
		for _, t := range tokens {
			parts = append(parts, t)
			if !rec() {
				return false
			}
			parts = parts[:len(parts)-1]
		}
		return true
	}
	rec()
}

func minimalByName() map[string]corpus.Item {
	m := map[string]corpus.Item{}
	for _, it := range corpus.Minimal() {
		m[it.Name] = it
	}
	return m
}
