package props

import (
	"encoding/json"
	"fmt"
	"github.com/antchfx/xpath"
	"github.com/jf-tech/go-corelib/caches"
	"io"
	"regexp"
	"strconv"
	"strings"

	"github.com/jf-tech/omniparser/extensions/omniv21/fileformat"
	"github.com/jf-tech/omniparser/extensions/omniv21/fileformat/edi"
	"github.com/jf-tech/omniparser/extensions/omniv21/fileformat/flatfile"
	"github.com/jf-tech/omniparser/idr"

	"verif/mc/core"
	"verif/mc/gen"
	"verif/mc/hx"
	"verif/mc/ref"
)

// C05 — hierarchical structure is matched greedily and completely.
// Three drivers over the same reference (ref.Greedy): (i) flatfile.HierarchyReader with a stub
// RecReader, (ii) the EDI reader on real bytes, (iii) csv2 / fixedlength2 through NewSchema.

// (FilterSerial > 0: the run uses a target xpath filter rejecting instances that contain that unit)
type c05Case struct {
	FilterSerial int      `json:"filter_out_serial,omitempty"`
	Driver       string   `json:"driver"` // hier | edi | csv2 | fixedlength2
	Hier         string   `json:"hierarchy"`
	Decls        []*hdecl `json:"decls"`
	Units        []string `json:"units"`
	Variant      int      `json:"variant"`
	// Before (csv2 / fixedlength2): inputs read earlier through readers of the SAME schema object, as
	// (units, variant) pairs; the declarations of a schema are shared by all its readers, and what one input
	// leaves in them must not matter for the next
	Before []string `json:"earlier_inputs_of_the_same_schema,omitempty"`
}

// hdecl is the JSON form of ref.HDecl.
type hdecl struct {
	Name     string   `json:"name"`
	Group    bool     `json:"group,omitempty"`
	Min      int      `json:"min"`
	Max      int      `json:"max"`
	Target   bool     `json:"target,omitempty"`
	Children []*hdecl `json:"children,omitempty"`
}

func toJSONDecls(ds []*ref.HDecl) []*hdecl {
	var out []*hdecl
	for _, d := range ds {
		out = append(out, &hdecl{d.Name, d.Group, d.Min, d.Max, d.Target, toJSONDecls(d.Children)})
	}
	return out
}

func fromJSONDecls(ds []*hdecl) []*ref.HDecl {
	var out []*ref.HDecl
	for _, d := range ds {
		out = append(out, &ref.HDecl{Name: d.Name, Group: d.Group, Min: d.Min, Max: d.Max, Target: d.Target, Children: fromJSONDecls(d.Children)})
	}
	return out
}

// ---- driver (i): HierarchyReader over a stub RecReader ----

type stubDecl struct {
	d    *ref.HDecl
	kids []flatfile.RecDecl
}

func (s *stubDecl) DeclName() string { return s.d.Name }
func (s *stubDecl) Target() bool     { return s.d.Target }
func (s *stubDecl) Group() bool      { return s.d.Group }
func (s *stubDecl) MinOccurs() int   { return s.d.Min }
func (s *stubDecl) MaxOccurs() int {
	if s.d.Max < 0 {
		return int(^uint(0) >> 1)
	}
	return s.d.Max
}
func (s *stubDecl) ChildDecls() []flatfile.RecDecl { return s.kids }

func stubDecls(ds []*ref.HDecl) []flatfile.RecDecl {
	var out []flatfile.RecDecl
	for _, d := range ds {
		out = append(out, &stubDecl{d: d, kids: stubDecls(d.Children)})
	}
	return out
}

type stubRecReader struct {
	units []ref.Unit
	pos   int
}

func (r *stubRecReader) MoreUnprocessedData() (bool, error) { return r.pos < len(r.units), nil }
func (r *stubRecReader) ReadAndMatch(decl flatfile.RecDecl, createIDR bool) (bool, *idr.Node, error) {
	if r.pos >= len(r.units) {
		return false, nil, io.EOF
	}
	if r.units[r.pos].Name != decl.DeclName() {
		return false, nil, nil
	}
	if !createIDR {
		return true, nil, nil
	}
	n := idr.CreateNode(idr.ElementNode, decl.DeclName())
	idr.AddChild(n, idr.CreateNode(idr.TextNode, strconv.Itoa(r.units[r.pos].Serial)))
	r.pos++
	return true, n, nil
}

// realToRef converts a real tree into the reference node form. A record's serial is its direct
// text child or the text of its child elements named s / s2 / e.
func realToRef(n *idr.Node, mark *idr.Node, markOut **ref.RNode) *ref.RNode {
	r := &ref.RNode{Name: n.Data, Serial: -1}
	if n == mark {
		*markOut = r
	}
	var extra []string
	for c := n.FirstChild; c != nil; c = c.NextSibling {
		switch {
		case c.Type == idr.TextNode:
			r.Serial, _ = strconv.Atoi(strings.TrimSpace(c.Data))
		case c.Type == idr.ElementNode && c.Data == "s":
			v, err := strconv.Atoi(strings.TrimSpace(c.InnerText()))
			if err != nil {
				v = -2
			}
			r.Serial = v
		case c.Type == idr.ElementNode && (c.Data == "s2" || c.Data == "e"):
			extra = append(extra, strings.TrimSpace(c.InnerText()))
		case c.Type == idr.ElementNode:
			r.Kids = append(r.Kids, realToRef(c, mark, markOut))
		}
	}
	for _, e := range extra {
		if e != strconv.Itoa(r.Serial) {
			r.Extra = "+" + e
		}
	}
	return r
}

func realSnapshot(target *idr.Node) string {
	root := target
	for root.Parent != nil {
		root = root.Parent
	}
	var mark *ref.RNode
	rr := realToRef(root, target, &mark)
	return ref.Snapshot(rr, mark)
}

type c05Obs struct {
	Deliveries []string
	Terminal   string
}

func (o c05Obs) String() string {
	return strings.Join(o.Deliveries, "\n") + "\n=> " + o.Terminal
}

func mkUnits(names []string) []ref.Unit {
	us := make([]ref.Unit, len(names))
	for i, n := range names {
		us[i] = ref.Unit{Name: n, Serial: i + 1}
	}
	return us
}

func refObs(decls []*ref.HDecl, units []ref.Unit) c05Obs {
	return refObs2(decls, units, false)
}

func refObs2(decls []*ref.HDecl, units []ref.Unit, rootRestart bool) c05Obs {
	all := ref.Number(decls)
	g := ref.Greedy(decls, units, "#root")
	if rootRestart {
		g = ref.GreedyRootRestart(decls, units, "#root")
	}
	o := c05Obs{Deliveries: g.Deliveries}
	switch {
	case g.Terminal == "eof":
		o.Terminal = "eof"
	case strings.HasPrefix(g.Terminal, "min:"):
		var idx, got int
		fmt.Sscanf(g.Terminal, "min:%d:%d", &idx, &got)
		o.Terminal = fmt.Sprintf("min:%s:%d:%d", all[idx].Name, all[idx].Min, got)
	default:
		var pos int
		fmt.Sscanf(g.Terminal, "unexpected:%d", &pos)
		o.Terminal = "unexpected:" + units[pos].Name
	}
	return o
}

const c05MaxReads = 64

// c05FilterOut: the observation expected when a target xpath filter rejects every target instance that
// contains the unit with serial k: the same matching, the same terminal result, the same trees (a
// rejected instance is removed just like a delivered-and-released one), minus those deliveries.
func c05FilterOut(o c05Obs, k int) c05Obs {
	out := c05Obs{Terminal: o.Terminal}
	tag := "#" + strconv.Itoa(k)
	for _, d := range o.Deliveries {
		i := strings.IndexByte(d, '*')
		if i < 0 {
			out.Deliveries = append(out.Deliveries, d)
			continue
		}
		// the marked subtree: up to the end of its name/serial, plus its parenthesised children
		j := i + 1
		for j < len(d) && d[j] != ' ' && d[j] != '(' && d[j] != ')' {
			j++
		}
		if j < len(d) && d[j] == '(' {
			depth := 0
			for ; j < len(d); j++ {
				if d[j] == '(' {
					depth++
				} else if d[j] == ')' {
					depth--
					if depth == 0 {
						j++
						break
					}
				}
			}
		}
		sub := d[i:j]
		hit := false
		for p := strings.Index(sub, tag); p >= 0; {
			e := p + len(tag)
			if e >= len(sub) || sub[e] < '0' || sub[e] > '9' {
				hit = true
				break
			}
			q := strings.Index(sub[e:], tag)
			if q < 0 {
				break
			}
			p = e + q
		}
		if !hit {
			out.Deliveries = append(out.Deliveries, d)
		}
	}
	return out
}

func runHier(decls []*ref.HDecl, units []ref.Unit) c05Obs { return runHierF(decls, units, "") }

// runHierF: with a target xpath filter (empty = none).
func runHierF(decls []*ref.HDecl, units []ref.Unit, filter string) c05Obs {
	var fx *xpath.Expr
	if filter != "" {
		var err error
		if fx, err = caches.GetXPathExpr(filter); err != nil {
			return c05Obs{Terminal: "harness-filter:" + err.Error()}
		}
	}
	hr := flatfile.NewHierarchyReader(stubDecls(decls), &stubRecReader{units: units}, fx)
	var o c05Obs
	for i := 0; i < c05MaxReads; i++ {
		n, err := hr.Read()
		if err != nil {
			switch {
			case err == io.EOF:
				o.Terminal = "eof"
			case flatfile.IsErrFewerThanMinOccurs(err):
				e := err.(flatfile.ErrFewerThanMinOccurs)
				o.Terminal = fmt.Sprintf("min:%s:%d:%d", e.RecDecl.DeclName(), e.RecDecl.MinOccurs(), e.ActualOcccurs)
			case flatfile.IsErrUnexpectedData(err):
				o.Terminal = "unexpected"
			default:
				o.Terminal = "error:" + err.Error()
			}
			return o
		}
		o.Deliveries = append(o.Deliveries, realSnapshot(n))
		hr.Release(n)
	}
	o.Terminal = "no-terminal-result"
	return o
}

// ---- driver (ii): EDI reader ----

// c05VariantDefaultsOmitted is the input variant 0 with the schema spelling changed: a min / max that
// equals the documented default of the format is left out of the declaration.
const c05VariantDefaultsOmitted = 9

func ediDecls(ds []*ref.HDecl, omitDefaults bool) []*edi.SegDecl {
	var out []*edi.SegDecl
	for _, d := range ds {
		min, max := d.Min, d.Max
		sd := &edi.SegDecl{Name: d.Name, IsTarget: d.Target, Min: &min, Max: &max, Children: ediDecls(d.Children, omitDefaults)}
		if omitDefaults && min == 1 {
			sd.Min = nil
		}
		if omitDefaults && max == 1 {
			sd.Max = nil
		}
		if d.Group {
			t := "segment_group"
			sd.Type = &t
		} else {
			sd.Elems = []edi.Elem{{Name: "s", Index: 1}}
		}
		out = append(out, sd)
	}
	return out
}

var ediMinRe = regexp.MustCompile(`segment '([^']*)' needs min occur (\d+), but only got (\d+)`)
var ediUnexpRe = regexp.MustCompile(`segment '([^']*)' is either not declared in schema or appears in an invalid order`)

func ediInput(units []ref.Unit, variant int) string {
	var b strings.Builder
	for i, u := range units {
		b.WriteString(u.Name + "*" + strconv.Itoa(u.Serial))
		last := i == len(units)-1
		switch variant {
		case 0: // every segment terminated
			b.WriteString("~")
		case 1: // the last segment is not terminated
			if !last {
				b.WriteString("~")
			}
		case 2: // terminated, trailing CR LF lines after the last segment
			b.WriteString("~")
			if last {
				b.WriteString("\r\n\n")
			}
		}
	}
	return b.String()
}

func runReaderLoop(r fileformat.FormatReader, classify func(error) string) c05Obs {
	var o c05Obs
	for i := 0; i < c05MaxReads; i++ {
		n, err := r.Read()
		if err != nil {
			o.Terminal = classify(err)
			return o
		}
		o.Deliveries = append(o.Deliveries, realSnapshot(n))
		r.Release(n)
	}
	o.Terminal = "no-terminal-result"
	return o
}

func runEDI(decls []*ref.HDecl, units []ref.Unit, variant int) c05Obs {
	return runEDIF(decls, units, variant, "")
}

func runEDIF(decls []*ref.HDecl, units []ref.Unit, variant int, filter string) c05Obs {
	omit := variant == c05VariantDefaultsOmitted
	if omit {
		variant = 0
	}
	fd := &edi.FileDecl{SegDelim: "~", ElemDelim: "*", SegDecls: ediDecls(decls, omit)}
	r, err := edi.NewReader("in", strings.NewReader(ediInput(units, variant)), fd, filter)
	if err != nil {
		return c05Obs{Terminal: "newreader-error:" + err.Error()}
	}
	return runReaderLoop(r, func(err error) string {
		if err == io.EOF {
			return "eof"
		}
		if m := ediMinRe.FindStringSubmatch(err.Error()); m != nil {
			return fmt.Sprintf("min:%s:%s:%s", m[1], m[2], m[3])
		}
		if m := ediUnexpRe.FindStringSubmatch(err.Error()); m != nil {
			return "unexpected:" + m[1]
		}
		return "error:" + err.Error()
	})
}

// ---- driver (iii): csv2 / fixedlength2 through NewSchema ----
// Record kinds are decided by the declaration name: A = header ^A, B = header ^B + footer ^E,
// C = rows: 2 (matches any two lines).

func c05Adapt(ds []*ref.HDecl) {
	for _, d := range ds {
		if !d.Group {
			switch d.Name {
			case "B":
				d.Footer = "E"
			case "C":
				d.Any, d.Rows = true, 2
			}
		}
		c05Adapt(d.Children)
	}
}

func flatSchema(format string, ds []*ref.HDecl, omitDefaults bool) string {
	var rec func(ds []*ref.HDecl) string
	rec = func(ds []*ref.HDecl) string {
		var parts []string
		for _, d := range ds {
			var f []string
			f = append(f, fmt.Sprintf(`"name":%q`, d.Name))
			if !(omitDefaults && d.Min == 0) {
				f = append(f, fmt.Sprintf(`"min":%d`, d.Min))
			}
			if !(omitDefaults && d.Max == -1) {
				f = append(f, fmt.Sprintf(`"max":%d`, d.Max))
			}
			if d.Target {
				f = append(f, `"is_target":true`)
			}
			childKey, groupType := "child_records", "record_group"
			col := func(name string, extra string) string {
				if format == "csv2" {
					return fmt.Sprintf(`{"name":%q,"index":2%s}`, name, extra)
				}
				return fmt.Sprintf(`{"name":%q,"start_pos":2,"length":4%s}`, name, extra)
			}
			if format == "fixedlength2" {
				childKey, groupType = "child_envelopes", "envelope_group"
			}
			switch {
			case d.Group:
				f = append(f, fmt.Sprintf(`"type":%q`, groupType))
			case d.Any:
				f = append(f, fmt.Sprintf(`"rows":%d,"columns":[%s,%s]`, d.Rows, col("s", `,"line_index":1`), col("s2", `,"line_index":2`)))
			case d.Footer != "":
				f = append(f, fmt.Sprintf(`"header":"^%s","footer":"^%s","columns":[%s,%s]`, d.Name, d.Footer, col("s", `,"line_index":1`), col("e", `,"line_pattern":"^`+d.Footer+`"`)))
			default:
				f = append(f, fmt.Sprintf(`"header":"^%s","columns":[%s]`, d.Name, col("s", "")))
			}
			if len(d.Children) > 0 || d.Group {
				f = append(f, fmt.Sprintf(`%q:[%s]`, childKey, rec(d.Children)))
			}
			parts = append(parts, "{"+strings.Join(f, ",")+"}")
		}
		return strings.Join(parts, ",")
	}
	if format == "csv2" {
		return `{"parser_settings":{"version":"omni.2.1","file_format_type":"csv2"},"file_declaration":{"delimiter":",","records":[` + rec(ds) +
			`]},"transform_declarations":{"FINAL_OUTPUT":{"object":{}}}}`
	}
	return `{"parser_settings":{"version":"omni.2.1","file_format_type":"fixedlength2"},"file_declaration":{"envelopes":[` + rec(ds) +
		`]},"transform_declarations":{"FINAL_OUTPUT":{"object":{}}}}`
}

func flatInput(format string, units []ref.Unit, variant int) string {
	var b strings.Builder
	for i, u := range units {
		if format == "csv2" {
			b.WriteString(u.Name + "," + strconv.Itoa(u.Serial))
		} else {
			b.WriteString(fmt.Sprintf("%s%-4d", u.Name, u.Serial))
		}
		last := i == len(units)-1
		switch variant {
		case 0:
			b.WriteString("\n")
		case 1:
			if !last {
				b.WriteString("\n")
			}
		case 2:
			b.WriteString("\r\n\r\n")
		}
	}
	return b.String()
}

var flatMinRe = regexp.MustCompile(`'([^']*)' needs min occur (\d+), but only got (\d+)`)

// flatReaderFactory builds format readers for one hierarchy (schema validated once).
type flatReaderFactory func(input string) (fileformat.FormatReader, error)

func runFlat(mk flatReaderFactory, input string, lineNames func(line int) string) c05Obs {
	r, err := mk(input)
	if err != nil {
		return c05Obs{Terminal: "newreader-error:" + err.Error()}
	}
	return runReaderLoop(r, func(err error) string {
		if err == io.EOF {
			return "eof"
		}
		if m := flatMinRe.FindStringSubmatch(err.Error()); m != nil {
			name := m[1]
			if k := strings.LastIndex(name, "/"); k >= 0 {
				name = name[k+1:]
			}
			return fmt.Sprintf("min:%s:%s:%s", name, m[2], m[3])
		}
		if strings.HasSuffix(err.Error(), "unexpected data") {
			return "unexpected"
		}
		return "error:" + err.Error()
	})
}

func sameObs(real, want c05Obs, looseUnexpected bool) bool {
	if len(real.Deliveries) != len(want.Deliveries) {
		return false
	}
	for i := range real.Deliveries {
		if real.Deliveries[i] != want.Deliveries[i] {
			return false
		}
	}
	if real.Terminal == want.Terminal {
		return true
	}
	return looseUnexpected && real.Terminal == "unexpected" && strings.HasPrefix(want.Terminal, "unexpected:")
}

// c05Sig classifies a disagreement.
func c05Sig(driver string, variant int, real, want c05Obs) string {
	kind := "terminal-differs"
	switch {
	case len(real.Deliveries) < len(want.Deliveries):
		kind = "target-missing"
	case len(real.Deliveries) > len(want.Deliveries):
		kind = "extra-target"
	default:
		for i := range real.Deliveries {
			if real.Deliveries[i] != want.Deliveries[i] {
				kind = "target-content-differs"
				break
			}
		}
	}
	if kind == "terminal-differs" {
		kind = "terminal:" + strings.SplitN(real.Terminal, ":", 2)[0] + "-instead-of-" + strings.SplitN(want.Terminal, ":", 2)[0]
	}
	return fmt.Sprintf("%s/v%d:%s", driver, variant, kind)
}

func c05CheckCase(cs c05Case) (sig, detail string) {
	decls := fromJSONDecls(cs.Decls)
	units := mkUnits(cs.Units)
	var real, want c05Obs
	loose := false
	switch cs.Driver {
	case "hier":
		want = refObs(decls, units)
		real = runHier(decls, units)
		if cs.FilterSerial > 0 {
			want = c05FilterOut(want, cs.FilterSerial)
			real = runHierF(decls, units, c05HierFilter(cs.FilterSerial))
		}
		loose = true
	case "edi":
		want = refObs(decls, units)
		real = runEDI(decls, units, cs.Variant)
		if cs.FilterSerial > 0 {
			want = c05FilterOut(want, cs.FilterSerial)
			real = runEDIF(decls, units, cs.Variant, c05EDIFilter(cs.FilterSerial))
		}
	default:
		c05Adapt(decls)
		want = refObs(decls, units)
		mk, err := flatFactory(cs.Driver, decls, cs.Variant == c05VariantDefaultsOmitted)
		if err != nil {
			return "harness:schema-rejected", err.Error()
		}
		iv := cs.Variant
		if iv == c05VariantDefaultsOmitted {
			iv = 0
		}
		for _, in := range cs.Before {
			runFlat(mk, in, nil)
		}
		real = runFlat(mk, flatInput(cs.Driver, units, iv), nil)
		loose = true
	}
	if sameObs(real, want, loose) {
		return "", "agree: " + real.String()
	}
	if len(cs.Before) > 0 {
		return cs.Driver + ":result-depends-on-earlier-inputs-of-the-same-schema", fmt.Sprintf(
			"hierarchy %s\nunits %v variant %d, read after %d earlier input(s) of the same schema object (the last one: %q); alone the input is read as the reference says\n-- implementation:\n%s\n-- reference:\n%s",
			ref.Describe(decls), cs.Units, cs.Variant, len(cs.Before), cs.Before[len(cs.Before)-1], real, want)
	}
	if cs.Driver == "edi" && cs.FilterSerial > 0 && sameObs(real, c05FilterOut(refObs2(decls, units, true), cs.FilterSerial), false) {
		return "edi:top-level-sequence-restarts-after-completion", fmt.Sprintf(
			"hierarchy %s\nunits %v variant %d, target filter rejecting unit %d\n-- implementation (equals the greedy matcher with the top-level sequence repeated under a fresh root):\n%s\n-- reference:\n%s",
			ref.Describe(decls), cs.Units, cs.Variant, cs.FilterSerial, real, want)
	}
	if cs.Driver == "edi" && cs.FilterSerial == 0 && sameObs(real, refObs2(decls, units, true), false) {
		return "edi:top-level-sequence-restarts-after-completion", fmt.Sprintf(
			"hierarchy %s\nunits %v variant %d\n-- implementation (equals the greedy matcher with the top-level sequence repeated under a fresh root):\n%s\n-- reference:\n%s",
			ref.Describe(decls), cs.Units, cs.Variant, real, want)
	}
	sig = c05Sig(cs.Driver, cs.Variant, real, want)
	if cs.FilterSerial > 0 {
		sig = "filtered-target:" + sig
	}
	return sig, fmt.Sprintf("hierarchy %s\nunits %v variant %d filter-out-serial %d\n-- implementation:\n%s\n-- reference:\n%s", ref.Describe(decls), cs.Units, cs.Variant, cs.FilterSerial, real, want)
}

// c05HasOcc tells if some declaration has the given min or the given max
func c05HasOcc(ds []*ref.HDecl, min, max int) bool {
	for _, d := range ds {
		if d.Min == min || d.Max == max || c05HasOcc(d.Children, min, max) {
			return true
		}
	}
	return false
}

// target xpath filters rejecting every target instance that contains the unit with serial k
func c05EDIFilter(k int) string {
	return fmt.Sprintf(".[not(descendant-or-self::*[s='%d'])]", k)
}
func c05HierFilter(k int) string {
	return fmt.Sprintf(".[not(descendant-or-self::*[text()='%d'])]", k)
}

func init() {
	occFull := [][2]int{{0, 1}, {0, 2}, {0, -1}, {1, 1}, {1, 2}, {1, -1}, {2, 2}, {2, -1}}
	occRed := [][2]int{{0, 1}, {0, -1}, {1, 1}, {1, 2}, {2, -1}}
	core.Register(&core.Prop{
		ID:    "C05",
		Level: "model_checking",
		Rule:  "every declaration hierarchy (all forest shapes, inner node = group or record-with-children, names, (min,max), single target position) up to the node bound x every unit sequence over the declared names plus an undeclared one up to the length bound, executed on the real matcher state machines (HierarchyReader with stub RecReader; EDI reader on bytes with/without final terminator; csv2 and fixedlength2 through NewSchema with header, header/footer and rows:2 records, with/without final newline, blank lines) and compared step by step with the recursive greedy reference; for the HierarchyReader and EDI drivers additionally every run with a target xpath filter that rejects the target instances containing unit k, for every k in a delivered instance (oracle: the unfiltered reference run minus those deliveries - same matching, terminal result and trees); a case is distinct by (driver, hierarchy, units, variant); states/transitions count hierarchies and matcher runs; every hierarchy also spelled with default-valued min / max left out; csv2 / fixedlength2: a trailing line of blanks must act like an undeclared line",
		Assumptions: []string{
			"max: 0 is outside the alphabet (the property quantifies over max in {1,2,..,unbounded})",
			"unit payloads are a serial number; tokenisation of payloads is C06/C07's subject",
			"the reference matcher (ref/greedy.go, 60 lines) is the declarative meaning of min/max/group as documented in doc/*_in_depth.md",
		},
		BudgetQuick: 300, BudgetThorough: 1700,
		Run: c05Run(occFull, occRed),
		Replay: func(raw json.RawMessage) (string, string) {
			var cs c05Case
			if err := json.Unmarshal(raw, &cs); err != nil {
				return "harness:bad-replay", err.Error()
			}
			return c05CheckCase(cs)
		},
	})
}

func flatFactory(format string, decls []*ref.HDecl, omitDefaults bool) (flatReaderFactory, error) {
	schemaText := flatSchema(format, decls, omitDefaults)
	return hx.FormatReaderFactory(schemaText)
}

func c05Run(occFull, occRed [][2]int) func(c *core.Ctx) {
	return func(c *core.Ctx) {
		type plan struct {
			driver   string
			spec     gen.HierSpec
			alphabet []string
			maxLen   int
			variants int
		}
		var plans []plan
		abc := []string{"A", "B", "C"}
		ab := []string{"A", "B"}
		if c.Quick() {
			plans = []plan{
				{"hier", gen.HierSpec{Nodes: 1, Depth: 3, Names: abc, Occ: occFull}, []string{"A", "B", "C", "X"}, 5, 1},
				{"hier", gen.HierSpec{Nodes: 2, Depth: 3, Names: abc, Occ: occFull}, []string{"A", "B", "C", "X"}, 5, 1},
				{"hier", gen.HierSpec{Nodes: 3, Depth: 3, Names: ab, Occ: occRed}, []string{"A", "B", "X"}, 5, 1},
				{"edi", gen.HierSpec{Nodes: 1, Depth: 3, Names: abc, Occ: occFull}, []string{"A", "B", "C", "X"}, 5, 3},
				{"edi", gen.HierSpec{Nodes: 2, Depth: 3, Names: abc, Occ: occFull}, []string{"A", "B", "C", "X"}, 4, 3},
				{"edi", gen.HierSpec{Nodes: 3, Depth: 3, Names: ab, Occ: occRed}, []string{"A", "B", "X"}, 4, 1},
				{"csv2", gen.HierSpec{Nodes: 1, Depth: 3, Names: abc, Occ: occRed}, []string{"A", "B", "C", "E", "X"}, 4, 3},
				{"csv2", gen.HierSpec{Nodes: 2, Depth: 3, Names: abc, Occ: occRed[:3]}, []string{"A", "B", "C", "E", "X"}, 4, 2},
				{"fixedlength2", gen.HierSpec{Nodes: 1, Depth: 3, Names: abc, Occ: occRed}, []string{"A", "B", "C", "E", "X"}, 4, 3},
				{"fixedlength2", gen.HierSpec{Nodes: 2, Depth: 3, Names: abc, Occ: occRed[:3]}, []string{"A", "B", "C", "E", "X"}, 4, 2},
				{"csv2", gen.HierSpec{Nodes: 3, Depth: 3, Names: abc, Occ: occRed[:3]}, []string{"A", "B", "C", "E", "X"}, 3, 1},
				{"fixedlength2", gen.HierSpec{Nodes: 3, Depth: 3, Names: abc, Occ: occRed[:3]}, []string{"A", "B", "C", "E", "X"}, 3, 1},
			}
		} else {
			plans = []plan{
				{"hier", gen.HierSpec{Nodes: 1, Depth: 3, Names: abc, Occ: occFull}, []string{"A", "B", "C", "X"}, 6, 1},
				{"hier", gen.HierSpec{Nodes: 2, Depth: 3, Names: abc, Occ: occFull}, []string{"A", "B", "C", "X"}, 6, 1},
				{"hier", gen.HierSpec{Nodes: 3, Depth: 3, Names: abc, Occ: occFull}, []string{"A", "B", "C", "X"}, 5, 1},
				{"hier", gen.HierSpec{Nodes: 4, Depth: 3, Names: ab, Occ: occRed[:4]}, []string{"A", "B", "X"}, 6, 1},
				{"edi", gen.HierSpec{Nodes: 1, Depth: 3, Names: abc, Occ: occFull}, []string{"A", "B", "C", "X"}, 6, 3},
				{"edi", gen.HierSpec{Nodes: 2, Depth: 3, Names: abc, Occ: occFull}, []string{"A", "B", "C", "X"}, 5, 3},
				{"edi", gen.HierSpec{Nodes: 3, Depth: 3, Names: ab, Occ: occFull}, []string{"A", "B", "X"}, 5, 3},
				{"edi", gen.HierSpec{Nodes: 4, Depth: 3, Names: ab, Occ: occRed[:3]}, []string{"A", "B", "X"}, 5, 1},
				{"csv2", gen.HierSpec{Nodes: 1, Depth: 3, Names: abc, Occ: occFull}, []string{"A", "B", "C", "E", "X"}, 5, 3},
				{"csv2", gen.HierSpec{Nodes: 2, Depth: 3, Names: abc, Occ: occRed}, []string{"A", "B", "C", "E", "X"}, 5, 3},
				{"csv2", gen.HierSpec{Nodes: 3, Depth: 3, Names: abc, Occ: occRed[:3]}, []string{"A", "B", "C", "E", "X"}, 4, 1},
				{"fixedlength2", gen.HierSpec{Nodes: 1, Depth: 3, Names: abc, Occ: occFull}, []string{"A", "B", "C", "E", "X"}, 5, 3},
				{"fixedlength2", gen.HierSpec{Nodes: 2, Depth: 3, Names: abc, Occ: occRed}, []string{"A", "B", "C", "E", "X"}, 5, 3},
				{"fixedlength2", gen.HierSpec{Nodes: 3, Depth: 3, Names: abc, Occ: occRed[:3]}, []string{"A", "B", "C", "E", "X"}, 4, 1},
			}
		}
		gidx := 0
		for _, pl := range plans {
			pl := pl
			stop := false
			gen.Hierarchies(pl.spec, func(_ int, decls []*ref.HDecl) bool {
				gidx++
				if !c.Mine(gidx) {
					return true
				}
				if c.TimeUp() {
					stop = true
					return false
				}
				c.Count("states", 1) // one matcher configuration (hierarchy) fully explored
				var mk, mkOmit flatReaderFactory
				// inputs read so far through the two schema objects of this hierarchy (logged by the factories)
				var earlier, earlierOmit []string
				histLen := map[bool]int{}
				work := decls
				if pl.driver == "csv2" || pl.driver == "fixedlength2" {
					work = fromJSONDecls(toJSONDecls(decls))
					c05Adapt(work)
					var err error
					mk, err = flatFactory(pl.driver, work, false)
					if err != nil {
						c.HarnessError("generated schema rejected: " + err.Error() + "\n" + flatSchema(pl.driver, work, false))
						return true
					}
					if flatSchema(pl.driver, work, true) != flatSchema(pl.driver, work, false) {
						if mkOmit, err = flatFactory(pl.driver, work, true); err != nil {
							c.HarnessError("generated schema rejected: " + err.Error() + "\n" + flatSchema(pl.driver, work, true))
							return true
						}
					}
				}
				if mk != nil {
					inner := mk
					mk = func(in string) (fileformat.FormatReader, error) {
						histLen[false] = len(earlier)
						earlier = append(earlier, in)
						return inner(in)
					}
				}
				if mkOmit != nil {
					inner := mkOmit
					mkOmit = func(in string) (fileformat.FormatReader, error) {
						histLen[true] = len(earlierOmit)
						earlierOmit = append(earlierOmit, in)
						return inner(in)
					}
				}
				// the same hierarchy spelled with every min / max that equals the format's default left out
				omitVariant := mkOmit != nil || (pl.driver == "edi" && c05HasOcc(work, 1, 1))
				names := make([]string, 0, pl.maxLen)
				var cur []string
				c.Begin(func() interface{} {
					return c05Case{Driver: pl.driver, Hier: ref.Describe(decls), Decls: toJSONDecls(decls), Units: cur}
				})
				gen.Sequences(len(pl.alphabet), pl.maxLen, func(seq []int) bool {
					names = names[:0]
					for _, s := range seq {
						names = append(names, pl.alphabet[s])
					}
					cur = names
					units := mkUnits(names)
					want := refObs(work, units)
					for v := 0; v <= pl.variants; v++ {
						if v == pl.variants {
							if !omitVariant {
								break
							}
							v = c05VariantDefaultsOmitted
							c.Count("defaults_omitted_runs", 1)
						}
						var real c05Obs
						loose := true
						switch {
						case pl.driver == "hier":
							real = runHier(work, units)
						case pl.driver == "edi":
							real = runEDI(work, units, v)
							loose = false
						case v == c05VariantDefaultsOmitted:
							real = runFlat(mkOmit, flatInput(pl.driver, units, 0), nil)
						default:
							real = runFlat(mk, flatInput(pl.driver, units, v), nil)
						}
						c.Count("transitions", 1)
						c.Count("traces_validated_against_impl", 1)
						c.EvalN(pl.driver+"|"+want.Terminal+"|"+strconv.Itoa(len(want.Deliveries)), 1)
						// what the same schema object (mk, or mkOmit for the defaults-omitted variant) had read before
						hist := earlier
						if v == c05VariantDefaultsOmitted {
							hist = earlierOmit
						}
						if n := histLen[v == c05VariantDefaultsOmitted]; n < len(hist) {
							hist = hist[:n]
						}
						if !sameObs(real, want, loose) {
							cs := c05Case{Driver: pl.driver, Hier: ref.Describe(work), Decls: toJSONDecls(decls), Units: append([]string(nil), names...), Variant: v}
							sig, detail := c05CheckCase(cs)
							if sig == "" && pl.driver != "hier" && pl.driver != "edi" {
								// the readers of one hierarchy come from ONE schema object: does the disagreement come back
								// after the input read just before this one, or after all inputs read so far?
								for _, h := range [][]string{hist[max(0, len(hist)-1):], hist[max(0, len(hist)-40):], hist} {
									cs.Before = h
									if sig, detail = c05CheckCase(cs); sig != "" {
										break
									}
								}
							}
							if sig == "" {
								sig, detail = "harness:not-reproducible", "disagreement did not reproduce from the serialised case: "+ref.Describe(work)
							}
							if strings.HasPrefix(sig, "harness:") {
								c.HarnessError(sig + " " + detail)
							} else {
								c.Violation(sig, detail, cs, func() string { s, _ := c05CheckCase(cs); return s })
							}
						} else if c.WantSample() && len(want.Deliveries) > 1 && len(names) >= 3 {
							c.Sample(map[string]interface{}{"driver": pl.driver, "hierarchy": ref.Describe(work), "units": append([]string(nil), names...), "variant": v,
								"deliveries": want.Deliveries, "terminal": want.Terminal})
						}
					}
					// a line of nothing but blanks is a line like any other, not an empty line to be skipped: at
					// the end of the input it must have the effect of a line no declaration knows (terminal
					// result and number of deliveries; the line itself carries no serial)
					if (pl.driver == "csv2" || pl.driver == "fixedlength2") && len(names) < pl.maxLen {
						withX := runFlat(mk, flatInput(pl.driver, mkUnits(append(append([]string{}, names...), "X")), 0), nil)
						withWS := runFlat(mk, flatInput(pl.driver, units, 0)+"   \n", nil)
						c.Count("transitions", 2)
						c.Count("blank_padded_line_runs", 1)
						if withX.Terminal != withWS.Terminal || len(withX.Deliveries) != len(withWS.Deliveries) {
							c.Violation("line-of-blanks-not-treated-as-a-line:"+pl.driver,
								fmt.Sprintf("hierarchy %s\nunits %v followed by a line of three spaces:\n%s\n-- followed by an undeclared unit X instead:\n%s", ref.Describe(work), names, withWS, withX),
								c05Case{Driver: pl.driver, Hier: ref.Describe(work), Decls: toJSONDecls(decls), Units: append(append([]string{}, names...), " ")}, nil)
						}
					}
					// target xpath filter: for every unit k, reject the target instances containing it; matching,
					// terminal result and trees must be those of the unfiltered run, minus the rejected deliveries
					if (pl.driver == "hier" || pl.driver == "edi") && len(want.Deliveries) > 0 {
						for k := 1; k <= len(units); k++ {
							wantK := c05FilterOut(want, k)
							if len(wantK.Deliveries) == len(want.Deliveries) {
								continue // unit k is in no delivered instance: same as the unfiltered run
							}
							var real c05Obs
							if pl.driver == "hier" {
								real = runHierF(work, units, c05HierFilter(k))
							} else {
								real = runEDIF(work, units, 0, c05EDIFilter(k))
							}
							c.Count("transitions", 1)
							c.Count("traces_validated_against_impl", 1)
							c.Count("filtered_target_runs", 1)
							c.EvalN(pl.driver+"|filtered|"+wantK.Terminal+"|"+strconv.Itoa(len(wantK.Deliveries)), 1)
							if !sameObs(real, wantK, pl.driver == "hier") {
								cs := c05Case{Driver: pl.driver, Hier: ref.Describe(work), Decls: toJSONDecls(decls), Units: append([]string(nil), names...), FilterSerial: k}
								sig, detail := c05CheckCase(cs)
								if sig == "" {
									sig, detail = "harness:not-reproducible", "filtered disagreement did not reproduce from the serialised case: "+ref.Describe(work)
								}
								if strings.HasPrefix(sig, "harness:") {
									c.HarnessError(sig + " " + detail)
								} else {
									c.Violation(sig, detail, cs, func() string { s, _ := c05CheckCase(cs); return s })
								}
							}
						}
					}
					return true
				})
				return true
			})
			if stop {
				return
			}
		}
	}
}
