package props

import (
	"fmt"
	"runtime"
	"strings"
	"sync"

	"github.com/jf-tech/omniparser"
	"github.com/jf-tech/omniparser/extensions/omniv21"
	"github.com/jf-tech/omniparser/extensions/omniv21/fileformat"
	"github.com/jf-tech/omniparser/idr"

	"verif/mc/hx"
)

// RaceScenario runs one free-running scenario (real goroutines) and returns an error on wrong
// results; data races are reported by the race detector itself.
func RaceScenario(name string) error {
	for _, procs := range []int{1, 2, 16} {
		runtime.GOMAXPROCS(procs)
		var err error
		switch name {
		case "nodes":
			err = raceNodes()
		case "transforms":
			err = raceTransforms(false)
		case "javascript":
			err = raceTransforms(true)
		case "newschema":
			err = raceNewSchema()
		default:
			return fmt.Errorf("unknown scenario %s", name)
		}
		if err != nil {
			return fmt.Errorf("GOMAXPROCS=%d: %w", procs, err)
		}
	}
	return nil
}

func raceNodes() error {
	const G, rounds = 8, 300
	var wg sync.WaitGroup
	errs := make(chan error, G)
	var ids sync.Map
	for g := 0; g < G; g++ {
		wg.Add(1)
		go func(g int) {
			defer wg.Done()
			tag := fmt.Sprintf("g%d", g)
			var kept []*idr.Node
			for r := 0; r < rounds; r++ {
				root := idr.CreateNode(idr.ElementNode, tag)
				var all []*idr.Node
				all = append(all, root)
				for k := 0; k < 1+r%4; k++ {
					c := idr.CreateNode(idr.ElementNode, tag)
					idr.AddChild(all[k%len(all)], c)
					all = append(all, c)
				}
				for _, n := range all {
					if n.Data != tag {
						errs <- fmt.Errorf("goroutine %d: its node reads %q", g, n.Data)
						return
					}
					if prev, dup := ids.LoadOrStore(n.ID, g); dup {
						errs <- fmt.Errorf("ID %d handed out twice (goroutines %v and %d)", n.ID, prev, g)
						return
					}
				}
				if e := auditTree(root); e != "" {
					errs <- fmt.Errorf("goroutine %d: %s", g, e)
					return
				}
				if r%3 == 0 && len(all) > 2 {
					idr.RemoveAndReleaseTree(all[len(all)-1])
				}
				// most trees are given back at once (the pool serves the next round); every fourth one is kept
				// for a while, so that the pool runs dry and new nodes have to be made while others do the same
				if r%4 != 1 {
					idr.RemoveAndReleaseTree(root)
					continue
				}
				kept = append(kept, root)
				if len(kept) > 40 {
					for _, k := range kept[:20] {
						if k.Data != tag {
							errs <- fmt.Errorf("goroutine %d: a tree it kept now reads %q", g, k.Data)
							return
						}
						if e := auditTree(k); e != "" {
							errs <- fmt.Errorf("goroutine %d: a tree it kept: %s", g, e)
							return
						}
						idr.RemoveAndReleaseTree(k)
					}
					kept = kept[20:]
				}
			}
		}(g)
	}
	wg.Wait()
	close(errs)
	return <-errs
}

type raceJob struct {
	name   string
	schema omniparser.Schema
	input  string
	ext    map[string]string
	solo   string
}

// raceNewSchema: goroutines creating Schemas at the same time through ONE shared Extension value (the way an
// application configures it once): its CreateParams lists a caller-supplied file format in a slice with
// spare capacity. Each goroutine creates schemas under names of its own - a built-in format, the custom
// format, and one whose FINAL_OUTPUT xpath is turned down: the error names the schema it was created as, the
// accepted schemas transform their input as they do alone.
func raceNewSchema() error {
	formats := make([]fileformat.FileFormat, 0, 16)
	formats = append(formats, &c01LinesFormat{mode: "pool"})
	ext := omniparser.Extension{
		CreateSchemaHandler:       omniv21.CreateSchemaHandler,
		CreateSchemaHandlerParams: &omniv21.CreateParams{CustomFileFormats: formats},
	}
	hdr := func(f string) string {
		return `"parser_settings":{"version":"omni.2.1","file_format_type":"` + f + `"}`
	}
	good := `{` + hdr("csv2") + `,"file_declaration":{"delimiter":",","records":[{"columns":[{"name":"a"}]}]},"transform_declarations":{"FINAL_OUTPUT":{"object":{"a":{"xpath":"a"}}}}}`
	bad := `{` + hdr("json") + `,"transform_declarations":{"FINAL_OUTPUT":{"xpath":"/*[","object":{"a":{"xpath":"a"}}}}}`
	custom := c01CustomSchemaText("pool")
	one := func(name string) (string, error) {
		var out []string
		for _, text := range []string{good, custom, bad, good} {
			s, err := omniparser.NewSchema(name, strings.NewReader(text), ext)
			if err != nil {
				out = append(out, "error: "+err.Error())
				continue
			}
			r := hx.Run(s, strings.NewReader("x\ny\n"), hx.Opts{MaxReads: 50})
			out = append(out, hx.Transcript(r.Steps)+r.PanicSite)
		}
		return strings.Join(out, "\n--\n"), nil
	}
	const G = 8
	solo := make([]string, G)
	for g := 0; g < G; g++ {
		solo[g], _ = one(fmt.Sprintf("schema-%d", g))
		if !strings.Contains(solo[g], fmt.Sprintf("schema-%d", g)) {
			return fmt.Errorf("harness: the turned-down schema's error does not name it: %s", solo[g])
		}
	}
	var wg sync.WaitGroup
	errs := make(chan error, G)
	for g := 0; g < G; g++ {
		wg.Add(1)
		go func(g int) {
			defer wg.Done()
			for r := 0; r < 40; r++ {
				if got, _ := one(fmt.Sprintf("schema-%d", g)); got != solo[g] {
					select {
					case errs <- fmt.Errorf("NewSchema(%q, ...) through a shared Extension, %d goroutines at once, differs from the same calls alone:\n%s\n-- alone:\n%s", fmt.Sprintf("schema-%d", g), G, got, solo[g]):
					default:
					}
					return
				}
			}
		}(g)
	}
	wg.Wait()
	close(errs)
	return <-errs
}

func raceTransforms(jsOnly bool) error {
	var jobs []*raceJob
	byText := map[string]omniparser.Schema{}
	for _, j := range c15Jobs() {
		if jsOnly && !strings.Contains(j.Schema, "javascript") {
			continue
		}
		if j.Name == "js-changing-builtin-objects" {
			continue // the known finding of C13 / C15: its results depend on which pooled VM a call gets
		}
		// jobs with the same schema text share ONE Schema object (e.g. the typed-externals jobs, which
		// differ in their external properties only)
		s, ok := byText[j.Schema]
		if !ok {
			var err error
			s, err, _ = hx.NewSchema("s", j.Schema)
			if err != nil {
				return fmt.Errorf("schema %s: %v", j.name(), err)
			}
			byText[j.Schema] = s
		}
		jobs = append(jobs, &raceJob{name: j.Name, schema: s, input: j.Input, ext: j.Ext})
	}
	run := func(j *raceJob) string {
		r := hx.Run(j.schema, strings.NewReader(j.input), hx.Opts{MaxReads: 500, Raw: true, Externals: j.ext})
		return hx.Transcript(r.Steps) + r.PanicSite
	}
	for _, j := range jobs {
		j.solo = run(j)
	}
	// cold start: a Schema object nobody has used yet, its first records transformed by several
	// goroutines at once (whatever a schema sets up lazily on first use is set up under contention)
	for _, j := range jobs {
		text := ""
		for t, s := range byText {
			if s == j.schema {
				text = t
			}
		}
		fresh, err, _ := hx.NewSchema("s", text)
		if err != nil {
			return fmt.Errorf("schema %s: %v", j.name, err)
		}
		cold := &raceJob{name: j.name, schema: fresh, input: j.input, ext: j.ext}
		var cwg sync.WaitGroup
		got := make([]string, 4)
		for g := range got {
			cwg.Add(1)
			go func(g int) {
				defer cwg.Done()
				got[g] = run(cold)
			}(g)
		}
		cwg.Wait()
		for _, o := range got {
			if o != j.solo {
				return fmt.Errorf("job %s, first use of a new Schema object by 4 goroutines at once, differs from its solo run:\n%s\n-- solo:\n%s", j.name, o, j.solo)
			}
		}
	}
	const rounds = 40
	var wg sync.WaitGroup
	errs := make(chan error, 64)
	for g := 0; g < 2*len(jobs); g++ {
		wg.Add(1)
		go func(g int) {
			defer wg.Done()
			for r := 0; r < rounds; r++ {
				j := jobs[(g+r)%len(jobs)] // same Schema objects shared by all goroutines
				if got := run(j); got != j.solo {
					select {
					case errs <- fmt.Errorf("job %s run concurrently differs from its solo run:\n%s\n-- solo:\n%s", j.name, got, j.solo):
					default:
					}
					return
				}
			}
		}(g)
	}
	wg.Wait()
	close(errs)
	return <-errs
}

func (j c15Job) name() string { return j.Name }
