package props

import (
	"bufio"
	"fmt"
	"io"
	"strings"

	"github.com/jf-tech/omniparser"
	"github.com/jf-tech/omniparser/errs"
	"github.com/jf-tech/omniparser/extensions/omniv21"
	"github.com/jf-tech/omniparser/extensions/omniv21/fileformat"
	"github.com/jf-tech/omniparser/extensions/omniv21/transform"
	"github.com/jf-tech/omniparser/idr"
)

// C01 family E4: a caller-supplied file format (omniv21.CreateParams.CustomFileFormats) under the built-in
// schema handler. Its reader turns every input line into a record <rec><v>line</v></rec>; the three modes
// differ in how the nodes come about - all of them legal for a FormatReader:
//   "fresh"  nodes built by hand (&idr.Node{...}), so every node ID is 0
//   "reused" ONE record node handed out again and again, its content replaced in place
//   "pooled" idr.CreateNode / RemoveAndReleaseTree like the built-in readers
// A line "!" is a continuable failure, a line "#" a fatal one.

type c01LinesFormat struct{ mode string }

func (f *c01LinesFormat) ValidateSchema(format string, _ []byte, _ *transform.Decl) (interface{}, error) {
	if format != "lines-"+f.mode {
		return nil, errs.ErrSchemaNotSupported
	}
	return f.mode, nil
}

func (f *c01LinesFormat) CreateFormatReader(name string, input io.Reader, _ interface{}) (fileformat.FormatReader, error) {
	return &c01LinesReader{mode: f.mode, name: name, sc: bufio.NewScanner(input)}, nil
}

type c01LinesReader struct {
	mode   string
	name   string
	sc     *bufio.Scanner
	line   int
	shared *idr.Node
}

type c01LinesContinuable struct{ msg string }

func (e c01LinesContinuable) Error() string { return e.msg }

func (r *c01LinesReader) Read() (*idr.Node, error) {
	if !r.sc.Scan() {
		return nil, io.EOF
	}
	r.line++
	text := r.sc.Text()
	switch text {
	case "!":
		return nil, c01LinesContinuable{r.FmtErr("bad line").Error()}
	case "#":
		return nil, r.FmtErr("broken input")
	}
	switch r.mode {
	case "fresh":
		rec := &idr.Node{Type: idr.ElementNode, Data: "rec"}
		v := &idr.Node{Type: idr.ElementNode, Data: "v"}
		idr.AddChild(rec, v)
		idr.AddChild(v, &idr.Node{Type: idr.TextNode, Data: text})
		return rec, nil
	case "reused":
		if r.shared == nil {
			r.shared = &idr.Node{Type: idr.ElementNode, Data: "rec"}
			v := &idr.Node{Type: idr.ElementNode, Data: "v"}
			idr.AddChild(r.shared, v)
			idr.AddChild(v, &idr.Node{Type: idr.TextNode, Data: text})
		}
		r.shared.FirstChild.FirstChild.Data = text
		return r.shared, nil
	}
	rec := idr.CreateNode(idr.ElementNode, "rec")
	v := idr.CreateNode(idr.ElementNode, "v")
	idr.AddChild(rec, v)
	idr.AddChild(v, idr.CreateNode(idr.TextNode, text))
	return rec, nil
}

func (r *c01LinesReader) Release(n *idr.Node) {
	if r.mode == "pooled" && n != nil {
		idr.RemoveAndReleaseTree(n)
	}
}

func (r *c01LinesReader) IsContinuableError(err error) bool {
	_, ok := err.(c01LinesContinuable)
	return ok
}

func (r *c01LinesReader) FmtErr(format string, args ...interface{}) error {
	return fmt.Errorf("input '%s' line %d: %s", r.name, r.line, fmt.Sprintf(format, args...))
}

func c01CustomSchemaText(mode string) string {
	return `{"parser_settings":{"version":"omni.2.1","file_format_type":"lines-` + mode + `"},"transform_declarations":{"FINAL_OUTPUT":{"object":{"v":{"xpath":"v","keep_empty_or_null":true,"no_trim":true}}}}}`
}

// c01CustomSchema builds the Schema of a custom-format item; the item name is "custom-format/<mode>".
func c01CustomSchema(item string) (omniparser.Schema, error) {
	mode := strings.TrimPrefix(item, "custom-format/")
	return omniparser.NewSchema("s", strings.NewReader(c01CustomSchemaText(mode)), omniparser.Extension{
		CreateSchemaHandler:       omniv21.CreateSchemaHandler,
		CreateSchemaHandlerParams: &omniv21.CreateParams{CustomFileFormats: []fileformat.FileFormat{&c01LinesFormat{mode: mode}}},
	})
}
