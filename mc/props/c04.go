package props

import (
	"encoding/json"
	"fmt"
	"io"
	"reflect"
	"sort"
	"strconv"
	"strings"
	"unsafe"

	"github.com/jf-tech/omniparser/idr"

	"verif/mc/core"
	"verif/mc/gen"
)

// C04 — streaming target selection equals whole-document selection (XML, JSON): document x xpath
// enumeration, differential between the stream readers and MatchAll on the fully loaded document.

type c04Case struct {
	Kind  string `json:"kind"` // xml | json
	Doc   string `json:"document"`
	XPath string `json:"xpath"`
}

// nodeSer serialises a subtree structurally (types, names, JSON type flags, text).
func nodeSer(n *idr.Node, b *strings.Builder) {
	switch n.Type {
	case idr.TextNode:
		b.WriteString("T")
	case idr.AttributeNode:
		b.WriteString("A")
	case idr.ElementNode:
		b.WriteString("E")
	default:
		b.WriteString("D")
	}
	if idr.IsJSON(n) {
		fmt.Fprintf(b, "%d", uint(idr.JSONTypeOf(n)))
	}
	b.WriteString(strconv.Quote(n.Data))
	if n.FirstChild != nil {
		b.WriteByte('[')
		for c := n.FirstChild; c != nil; c = c.NextSibling {
			nodeSer(c, b)
		}
		b.WriteByte(']')
	}
}

func serNode(n *idr.Node) string {
	var b strings.Builder
	nodeSer(n, &b)
	return b.String()
}

type streamReader interface {
	Read() (*idr.Node, error)
	Release(*idr.Node)
}

func newStream(kind, doc, xpath string) (streamReader, error) {
	if kind == "xml" {
		return idr.NewXMLStreamReader(strings.NewReader(doc), xpath)
	}
	return idr.NewJSONStreamReader(strings.NewReader(doc), xpath)
}

// unexportedNode reads an unexported *idr.Node field of a reader (root); nil if absent.
func unexportedNode(r interface{}, field string) *idr.Node {
	v := reflect.ValueOf(r)
	if v.Kind() != reflect.Ptr || v.Elem().Kind() != reflect.Struct {
		return nil
	}
	f := v.Elem().FieldByName(field)
	if !f.IsValid() || f.Kind() != reflect.Ptr {
		return nil
	}
	n, _ := reflect.NewAt(f.Type(), unsafe.Pointer(f.UnsafeAddr())).Elem().Interface().(*idr.Node)
	return n
}

// splitLastFilter is the harness's own splitter of the final-step predicate (the xpaths of the
// alphabet are built as path + predicate, so the split is known by construction).
type c04XPath struct {
	Path string
	Pred string // "" or "[...]"
	Wrap string // "": Path+Pred; "paren": (Path+Pred); "union": Path+Pred | /nosuch; "union2": /nosuch[zz] | Path+Pred
	// Path2/Pred2 (Wrap "union-real"): a second branch that selects nodes of its own: Path+Pred | Path2+Pred2
	Path2, Pred2 string
}

// candPath is the expression without its filters: what makes a node a candidate.
func (x c04XPath) candPath() string {
	if x.Wrap == "union-real" {
		return x.Path + " | " + x.Path2
	}
	return x.Path
}

func (x c04XPath) String() string {
	switch x.Wrap {
	case "paren":
		return "(" + x.Path + x.Pred + ")"
	case "union":
		return x.Path + x.Pred + " | /nosuch"
	case "union2":
		return "/nosuch[zz] | " + x.Path + x.Pred
	case "union-real":
		return x.Path + x.Pred + " | " + x.Path2 + x.Pred2
	}
	return x.Path + x.Pred
}

// c04Expected evaluates the property's definition on the fully loaded document.
// the fully loaded document of the most recent (kind, doc) and its candidates per path: the xpaths of
// one document are checked one after the other, and queries do not change the tree
var c04Whole struct {
	kind, doc string
	root      *idr.Node
	cands     map[string][]*idr.Node
}

func c04Expected(kind, doc string, xp c04XPath) ([]string, string) {
	if c04Whole.root == nil || c04Whole.kind != kind || c04Whole.doc != doc {
		whole, err := newStream(kind, doc, ".")
		if err != nil {
			return nil, "harness: " + err.Error()
		}
		top, err := whole.Read()
		if err != nil {
			return nil, "harness: whole-document load failed: " + err.Error()
		}
		root := top
		for root.Parent != nil {
			root = root.Parent
		}
		c04Whole.kind, c04Whole.doc, c04Whole.root, c04Whole.cands = kind, doc, root, map[string][]*idr.Node{}
	}
	root := c04Whole.root
	cands, ok := c04Whole.cands[xp.candPath()]
	if !ok {
		var err error
		cands, err = idr.MatchAll(root, xp.candPath())
		if err != nil {
			return nil, "harness: " + err.Error()
		}
		if xp.Wrap == "union-real" {
			// the engine gives a union branch by branch (and a node selected by both twice): the
			// definition is about the set, in document order
			pos := map[*idr.Node]int{}
			var walk func(n *idr.Node)
			walk = func(n *idr.Node) {
				pos[n] = len(pos)
				for c := n.FirstChild; c != nil; c = c.NextSibling {
					walk(c)
				}
			}
			walk(root)
			seen := map[*idr.Node]bool{}
			var uniq []*idr.Node
			for _, n := range cands {
				if !seen[n] {
					seen[n] = true
					uniq = append(uniq, n)
				}
			}
			sort.Slice(uniq, func(i, j int) bool { return pos[uniq[i]] < pos[uniq[j]] })
			cands = uniq
		}
		c04Whole.cands[xp.candPath()] = cands
	}
	var err error
	full, err := idr.MatchAll(root, xp.String())
	if err != nil {
		return nil, "harness: " + err.Error()
	}
	inFull := map[*idr.Node]bool{}
	for _, n := range full {
		inFull[n] = true
	}
	inCand := map[*idr.Node]bool{}
	for _, n := range cands {
		inCand[n] = true
	}
	var out []string
	for _, n := range cands {
		if n.Type != idr.ElementNode {
			continue // the stream readers can only deliver elements / containers
		}
		outer := true
		for p := n.Parent; p != nil; p = p.Parent {
			if inCand[p] && p.Type == idr.ElementNode {
				outer = false
				break
			}
		}
		if outer && inFull[n] {
			out = append(out, serNode(n))
		}
	}
	return out, ""
}

// c04Check: the caller releases every delivered node before the next Read; for small documents the run
// is repeated with a caller that never calls Release (the next Read has to clean up by itself).
func c04Check(cs c04Case, xp c04XPath) (sig, detail string) {
	sig, detail = c04Check1(cs, xp, true)
	if sig == "" && len(cs.Doc) <= 36 {
		if sig, detail = c04Check1(cs, xp, false); sig != "" && !strings.HasPrefix(sig, "harness:") {
			sig, detail = sig+":caller-never-releases", "(the caller never calls Release)\n"+detail
		}
	}
	return sig, detail
}

func c04Check1(cs c04Case, xp c04XPath, release bool) (sig, detail string) {
	want, herr := c04Expected(cs.Kind, cs.Doc, xp)
	if herr != "" {
		return "harness:expected", herr
	}
	sr, err := newStream(cs.Kind, cs.Doc, xp.String())
	if err != nil {
		return "harness:newstream", err.Error()
	}
	var got []string
	end := ""
	for i := 0; i < 64; i++ {
		n, err := sr.Read()
		if err != nil {
			if err == io.EOF {
				end = "eof"
			} else {
				end = "error: " + err.Error()
			}
			break
		}
		got = append(got, serNode(n))
		if release {
			sr.Release(n)
		}
	}
	same := len(got) == len(want) && end == "eof"
	if same {
		for i := range got {
			if got[i] != want[i] {
				same = false
			}
		}
	}
	if same {
		// nothing delivered or rejected may stay behind
		if root := unexportedNode(sr, "root"); root != nil {
			left, _ := idr.MatchAll(root, xp.candPath())
			for _, n := range left {
				if n.Type == idr.ElementNode && n != root {
					return cs.Kind + ":candidate-left-in-tree-after-eof", fmt.Sprintf("doc %s xpath %s: %s still attached", cs.Doc, xp, serNode(n))
				}
			}
		}
		return "", ""
	}
	kind := "differs"
	switch {
	case end != "eof":
		kind = "stream-error"
	case len(got) > len(want):
		kind = "extra-or-non-matching-node-delivered"
	case len(got) < len(want):
		kind = "matching-node-skipped"
	default:
		kind = "node-content-differs"
	}
	// the known (repaired) defect: an outer candidate delivered because a strict descendant matches
	return cs.Kind + ":" + kind, fmt.Sprintf("doc %s\nxpath %s\n-- streamed (%s):\n%s\n-- whole-document selection:\n%s", cs.Doc, xp, end, strings.Join(got, "\n"), strings.Join(want, "\n"))
}

// ---- generators ----

type c04XMLAlpha struct {
	names []string
	attrs []string // "" = absent
	lead  []string // text before the children
	trail []string // text after the children
	ns    bool     // the root declares the prefixes p and q (names may then be p:a, q:a ...)
	// redecl: namespace declarations an element may carry itself ("" = none), e.g. binding a URI that an
	// outer element bound to another prefix
	redecl []string
}

func c04XMLDocs(n, maxDepth int, al c04XMLAlpha, ids bool, visit func(doc string) bool) {
	per := len(al.names) * len(al.attrs) * len(al.lead) * len(al.trail)
	if len(al.redecl) > 0 {
		per *= len(al.redecl)
	}
	gen.Shapes(n, maxDepth, func(parent []int) bool {
		radix := make([]int, n)
		for i := range radix {
			radix[i] = per
		}
		kids := make([][]int, n)
		for i := 1; i < n; i++ {
			kids[parent[i]] = append(kids[parent[i]], i)
		}
		ok := true
		gen.Counter(radix, func(d []int) bool {
			var b strings.Builder
			var render func(i int)
			render = func(i int) {
				v := d[i]
				name := al.names[v%len(al.names)]
				v /= len(al.names)
				attr := al.attrs[v%len(al.attrs)]
				v /= len(al.attrs)
				lead := al.lead[v%len(al.lead)]
				v /= len(al.lead)
				trail := al.trail[v%len(al.trail)]
				v /= len(al.trail)
				b.WriteString("<" + name)
				if i == 0 && al.ns {
					b.WriteString(` xmlns:p="u" xmlns:q="v"`)
				}
				if len(al.redecl) > 0 && i > 0 {
					b.WriteString(al.redecl[v%len(al.redecl)])
				}
				if ids {
					fmt.Fprintf(&b, ` i="%d"`, i)
				}
				if attr != "" {
					fmt.Fprintf(&b, ` k="%s"`, attr)
				}
				b.WriteString(">" + lead)
				for _, k := range kids[i] {
					render(k)
				}
				b.WriteString(trail + "</" + name + ">")
			}
			render(0)
			ok = visit(b.String())
			return ok
		})
		return ok
	})
}

// c04JSONDocs enumerates JSON values with exactly n value nodes.
func c04JSONDocs(n int, scalars, keys []string, visit func(doc string) bool) {
	var vals func(n int) []string
	memo := map[int][]string{}
	// sequences of values with total size n
	var seqs func(n int) [][]string
	seqMemo := map[int][][]string{}
	seqs = func(n int) [][]string {
		if s, ok := seqMemo[n]; ok {
			return s
		}
		var out [][]string
		if n == 0 {
			out = [][]string{nil}
		}
		for k := 1; k <= n; k++ {
			for _, first := range vals(k) {
				for _, rest := range seqs(n - k) {
					out = append(out, append([]string{first}, rest...))
				}
			}
		}
		seqMemo[n] = out
		return out
	}
	vals = func(n int) []string {
		if v, ok := memo[n]; ok {
			return v
		}
		var out []string
		if n == 1 {
			out = append(out, scalars...)
		}
		for _, s := range seqs(n - 1) {
			out = append(out, "["+strings.Join(s, ",")+"]")
			// every key assignment
			radix := make([]int, len(s))
			for i := range radix {
				radix[i] = len(keys)
			}
			if len(s) == 0 {
				out = append(out, "{}")
				continue
			}
			gen.Counter(radix, func(d []int) bool {
				parts := make([]string, len(s))
				for i := range s {
					parts[i] = strconv.Quote(keys[d[i]]) + ":" + s[i]
				}
				out = append(out, "{"+strings.Join(parts, ",")+"}")
				return true
			})
		}
		memo[n] = out
		return out
	}
	for _, v := range vals(n) {
		if !visit(v) {
			return
		}
	}
}

func c04XPaths(kind string) []c04XPath {
	var paths, preds []string
	if kind == "xml" {
		paths = []string{"/a", "/a/b", "/*/b", "//b", "/a//b", "/a/*", "//*", "//a"}
		preds = []string{"", "[.='1']", "[@k='1']", "[b]", "[b='2']", "[text()='1']", "[not(b)]", "[count(*)=2]", "[count(*)=0]", "[.='']",
			"['x]'!='']", `[.!="'"]`, `[.='1' and .!="'"]`, "[not(@k)]", "[b/@k='1']", "[.//b='1']",
			// several predicates on the final step (all about the candidate itself)
			"[@k='1'][b]", "[@k='1'][.='1']", "[not(@k)][b='2']", "[@k='1'][not(b)]", "[@k][@k='1'][count(*)=0]", "[b][@k='1']", "[b][b='2']", "[.='1'][not(@k)]",
			// spelling variants of the same class: white space, nested brackets, double-quoted bracket literal
			"[.='1'] ", "[ .='1' ]", "[b[.='2']]", `[b="2" or .="]"]`, "[b] [b='2']", "[self::b]", "[self::a][b]",
			// the predicate is not the textual tail of the expression: a step that stays on the candidate after it
			"[b]/.", "[.='1']/self::node()", "[@k='1']/self::*"}
	} else {
		paths = []string{"/a", "/a/b", "/*/b", "//b", "/a//b", "/a/*", "//*", "/*", "/*/*"}
		preds = []string{"", "[.='1']", "[b]", "[b='1']", "[not(b)]", "[count(*)=2]", "[count(*)=0]", "[.='']", "['x]'!='']", `[.!="'"]`, `[.='1' and .!="'"]`, "[a='true']", "[.//b='1']",
			"[b][a]", "[b][b='1']", "[not(b)][.='1']", "[count(*)=2][a='true']",
			"[.='1'] ", "[ .='1' ]", "[b[.='1']]", `[b="1" or .="]"]`, "[b] [b='1']", "[b]/.", "[.='1']/self::node()"}
	}
	var out []c04XPath
	for _, p := range paths {
		for _, q := range preds {
			out = append(out, c04XPath{Path: p, Pred: q})
		}
	}
	return out
}

// c04BasePredCount is the number of leading predicates of each alphabet that are run on every document
// plan; the later ones (several filters on one step, spelling variants) are run on documents up to
// c04ExtMaxN nodes (quick 3, thorough 4) - they exercise the splitting of the xpath, not new tree shapes.
func c04SplitXPaths(kind string) (base, ext []c04XPath) {
	nb := map[string]int{"xml": 16, "json": 13}[kind]
	all := c04XPaths(kind)
	per := len(all) / map[string]int{"xml": 8, "json": 9}[kind]
	for i, x := range all {
		if i%per < nb {
			base = append(base, x)
			// the same expression in parentheses and as a branch of a union
			if i%per < 6 || strings.Contains(x.Pred, `"'"`) || strings.Contains(x.Pred, "]'") {
				for _, w := range []string{"paren", "union", "union2"} {
					ext = append(ext, c04XPath{Path: x.Path, Pred: x.Pred, Wrap: w})
				}
			}
		} else {
			ext = append(ext, x)
		}
	}
	// unions of two branches that both select nodes (each with or without a filter): a candidate can be
	// selected by the later branch and contain a node the earlier branch selects, and the other way round
	var branches []c04XPath
	for i, x := range all {
		if (i%per < 3 || x.Pred == `[.!="'"]`) && i/per < 4 {
			branches = append(branches, x)
		}
	}
	for _, x1 := range branches {
		for _, x2 := range branches {
			if x1.Path != x2.Path && (x1.Pred != "" || x2.Pred != "") {
				ext = append(ext, c04XPath{Path: x1.Path, Pred: x1.Pred, Wrap: "union-real", Path2: x2.Path, Pred2: x2.Pred})
			}
		}
	}
	return
}

func init() {
	core.Register(&core.Prop{
		ID:    "C04",
		Level: "exploration",
		Rule:  "every XML document with up to N elements (all tree shapes to depth 4, names {a,b}, optional attribute k, text before/after the children, for documents up to 3 (thorough 4) elements also the same local name under different namespace prefixes (a, p:a, q:a) with prefixed target paths, and for documents up to 2 (thorough 3) elements also comments, CDATA sections, processing instructions and line breaks there; once with a unique id attribute per element for exact node identity and once without) and every JSON value with up to N value nodes (scalars, arrays, objects over keys {a,b}, any nesting) x every target xpath = path in {/a,/a/b,/*/b,//b,/a//b,/a/*,//*,..} + final-step predicate on the candidate's own value/attribute/text/children/descendants (incl. literals containing brackets and the other quote character), and - on documents up to 3 (thorough 4) nodes - several filters on the final step and spelling variants (white space, nested brackets, self axis); the stream reader's delivered nodes (serialised at delivery time) must equal, in order, the outermost nodes selected on the fully loaded document that satisfy the full xpath; a case is distinct by (document, xpath), outcome class = (xpath, number of records); elements binding a URI again that an outer element bound to another prefix; quote-in-literal predicates in parentheses and unions",
		Assumptions: []string{
			"the whole-document tree is loaded by the same reader with target '.', so node construction itself is C08's subject, not C04's",
			"xpaths are of the property's class: predicates only on the final step and only about the candidate itself",
		},
		BudgetQuick: 400, BudgetThorough: 2400,
		Run: func(c *core.Ctx) {
			full := c04XMLAlpha{names: []string{"a", "b"}, attrs: []string{"", "1"}, lead: []string{"", "1", "2"}, trail: []string{"", " "}}
			red := c04XMLAlpha{names: []string{"a", "b"}, attrs: []string{"", "1"}, lead: []string{"", "1"}, trail: []string{""}}
			type xplan struct {
				n   int
				al  c04XMLAlpha
				ids bool // give every element a unique id attribute (exact node identity)
			}
			// comments, CDATA, processing instructions and line breaks around and between candidates
			misc := c04XMLAlpha{names: []string{"a", "b"}, attrs: []string{"", "1"}, lead: []string{"", "<!--c-->1", "<![CDATA[1]]>", "<?p x?>2", "\n"}, trail: []string{"", "<!--c-->", "<![CDATA[ ]]>", "\n"}}
			xplans := []xplan{{1, full, true}, {2, full, true}, {3, full, true}, {4, red, true}, {1, full, false}, {2, full, false}, {3, full, false}, {1, misc, false}, {2, misc, false}, {2, misc, true}}
			jmax := 4
			var xtail []xplan
			if !c.Quick() {
				xplans = []xplan{{1, full, true}, {2, full, true}, {3, full, true}, {4, red, true},
					{1, full, false}, {2, full, false}, {3, full, false}, {4, red, false}, {1, misc, false}, {2, misc, false}, {3, misc, false}, {3, misc, true}}
				// the two big plans come after everything else, so that running out of time costs nothing else
				xtail = []xplan{{5, red, true}, {4, full, true}}
				jmax = 5
			}
			idx := 0
			run := func(kind, doc string, xps []c04XPath) bool {
				idx++
				if !c.Mine(idx) {
					return true
				}
				for _, xp := range xps {
					cs := c04Case{Kind: kind, Doc: doc, XPath: xp.String()}
					c.Begin(func() interface{} { return cs })
					sig, detail := c04Check(cs, xp)
					c.Eval(kind + "|" + xp.String())
					switch {
					case strings.HasPrefix(sig, "harness:"):
						c.HarnessError(sig + ": " + detail + " doc=" + doc + " xpath=" + xp.String())
					case sig != "":
						c.Violation(sig, detail, cs, func() string { s, _ := c04Check(cs, xp); return s })
					case c.WantSample() && len(doc) > 40 && xp.Pred != "":
						c.Sample(cs)
					}
				}
				c.Count("documents", 1)
				return !c.TimeUp()
			}
			extMaxN := 3
			if !c.Quick() {
				extMaxN = 4
			}
			xbase, xext := c04SplitXPaths("xml")
			for _, pl := range xplans {
				stop := false
				xx := xbase
				if pl.n <= extMaxN {
					xx = append(append([]c04XPath{}, xbase...), xext...)
				}
				c04XMLDocs(pl.n, 4, pl.al, pl.ids, func(doc string) bool {
					if !run("xml", doc, xx) {
						stop = true
						return false
					}
					return true
				})
				if stop {
					return
				}
			}
			// same local name under different namespace prefixes (a, p:a, q:a as siblings and nested)
			{
				nsal := c04XMLAlpha{names: []string{"a", "p:a", "q:a"}, attrs: []string{"", "1"}, lead: []string{"", "1"}, trail: []string{""}, ns: true}
				var nsx []c04XPath
				for _, pth := range []string{"/a/a", "/a/p:a", "/p:a/q:a", "//a", "//p:a", "//q:a", "/*/p:a", "/*/*", "//*", "/a/*", "/p:a/*"} {
					for _, q := range []string{"", "[.='1']", "[@k='1']", "[not(@k)]", "[a]", "[p:a]", "[not(*)]"} {
						nsx = append(nsx, c04XPath{Path: pth, Pred: q})
					}
				}
				nmax := 3
				if !c.Quick() {
					nmax = 4
				}
				for n := 1; n <= nmax; n++ {
					stop := false
					for _, ids := range []bool{false, true} {
						c04XMLDocs(n, 4, nsal, ids, func(doc string) bool {
							if !run("xml", doc, nsx) {
								stop = true
								return false
							}
							return true
						})
					}
					if stop {
						return
					}
				}
			}
			// elements that bind a URI again which an outer element bound to another prefix (the scope of such a
			// declaration ends with its element, whether or not the element was delivered as a record)
			{
				real := c04XMLAlpha{names: []string{"a", "p:a", "q:a"}, attrs: []string{""}, lead: []string{"", "1"}, trail: []string{""}, ns: true,
					redecl: []string{"", ` xmlns:q="u"`, ` xmlns:p="v" xmlns:q="u"`}}
				var nsx []c04XPath
				for _, pth := range []string{"/a/a", "/a/p:a", "/a/q:a", "/p:a/q:a", "//a", "//p:a", "//q:a", "/*/p:a", "/*/q:a", "/*/*", "//*"} {
					for _, q := range []string{"", "[.='1']", "[p:a]", "[q:a]", "[not(*)]"} {
						nsx = append(nsx, c04XPath{Path: pth, Pred: q})
					}
				}
				nmax := 3
				if !c.Quick() {
					nmax = 4
				}
				for n := 2; n <= nmax; n++ {
					stop := false
					c04XMLDocs(n, 4, real, true, func(doc string) bool {
						if !run("xml", doc, nsx) {
							stop = true
							return false
						}
						return true
					})
					if stop {
						return
					}
				}
			}
			jbase, jext := c04SplitXPaths("json")
			for n := 1; n <= jmax; n++ {
				stop := false
				jx := jbase
				if n <= extMaxN {
					jx = append(append([]c04XPath{}, jbase...), jext...)
				}
				c04JSONDocs(n, []string{"1", `"1"`, "true", "null"}, []string{"a", "b"}, func(doc string) bool {
					if !run("json", doc, jx) {
						stop = true
						return false
					}
					return true
				})
				if stop {
					return
				}
			}
			c.Note("all plans but the two largest XML plans completed")
			for _, pl := range xtail {
				stop := false
				xx := xbase
				if pl.n <= extMaxN {
					xx = append(append([]c04XPath{}, xbase...), xext...)
				}
				c04XMLDocs(pl.n, 4, pl.al, pl.ids, func(doc string) bool {
					if !run("xml", doc, xx) {
						stop = true
						return false
					}
					return true
				})
				if stop {
					return
				}
				c.Note(fmt.Sprintf("XML plan with %d elements completed", pl.n))
			}
		},
		Replay: func(raw json.RawMessage) (string, string) {
			var cs c04Case
			if err := json.Unmarshal(raw, &cs); err != nil {
				return "harness:bad-replay", err.Error()
			}
			b0, e0 := c04SplitXPaths(cs.Kind)
			for _, xp := range append(append(c04XPaths(cs.Kind), b0...), e0...) {
				if xp.String() == cs.XPath {
					sig, detail := c04Check(cs, xp)
					if sig == "" {
						detail = "streamed records equal the whole-document selection"
					}
					return sig, detail
				}
			}
			// xpaths of the namespace plan: path + one predicate, split at the first '['
			if i := strings.Index(cs.XPath, "["); i != 0 {
				xp := c04XPath{Path: cs.XPath}
				if i > 0 {
					xp = c04XPath{Path: cs.XPath[:i], Pred: cs.XPath[i:]}
				}
				sig, detail := c04Check(cs, xp)
				if sig == "" {
					detail = "streamed records equal the whole-document selection"
				}
				return sig, detail
			}
			return "harness:unknown-xpath", cs.XPath
		},
	})
}
