package props

import (
	"encoding/json"
	"fmt"
	"sort"
	"strconv"
	"strings"
	"time"

	"github.com/tkuchiki/go-timezone"

	"github.com/jf-tech/omniparser/customfuncs"

	"verif/mc/core"
)

// C19 — date-time functions preserve the instant and invert each other: finite grid enumeration
// against the time package.

type wall struct {
	Y, M, D, h, m, s int
	Frac             string // fractional second digits, "" or 1..9 digits
}

func (w wall) nanos() int {
	if w.Frac == "" {
		return 0
	}
	f := (w.Frac + "000000000")[:9]
	n, _ := strconv.Atoi(f)
	return n
}

type layoutSpec struct {
	Date  int    // index into c19DateForms
	Delim string // "T", " ", ""
	Time  int    // -1 = date only; index into c19TimeForms
	AmPm  int    // 0 none, 1 " PM", 2 "PM"
	TZ    string // "", "Z", "+hh", "+hhmm", "+hh:mm", " +hh:mm", "-IANA"
}

var c19DateForms = []string{"yyyy-mm-dd", "mm-dd-yyyy", "yyyy/mm/dd", "mm/dd/yyyy", "m/dd/yyyy", "m/d/yyyy", "mm/d/yyyy", "mm/dd/yy", "yyyymmdd"}
var c19TimeForms = []string{"hh:mm:ss", "hh:mm", "hhmmss", "hhmm"}

func (l layoutSpec) String() string {
	t := "date-only"
	if l.Time >= 0 {
		t = c19TimeForms[l.Time] + []string{"", " PM", "PM"}[l.AmPm]
	}
	return fmt.Sprintf("%s|%q|%s|tz=%s", c19DateForms[l.Date], l.Delim, t, l.TZ)
}

// render writes the wall-clock reading in the layout; ok=false if the layout cannot express it
// (two-digit years, single-digit month forms with a two-digit month, ...).
func (l layoutSpec) render(w wall, offSec int, iana string) (string, bool) {
	var b strings.Builder
	y4 := fmt.Sprintf("%04d", w.Y)
	switch c19DateForms[l.Date] {
	case "yyyy-mm-dd":
		fmt.Fprintf(&b, "%s-%02d-%02d", y4, w.M, w.D)
	case "mm-dd-yyyy":
		fmt.Fprintf(&b, "%02d-%02d-%s", w.M, w.D, y4)
	case "yyyy/mm/dd":
		fmt.Fprintf(&b, "%s/%02d/%02d", y4, w.M, w.D)
	case "mm/dd/yyyy":
		fmt.Fprintf(&b, "%02d/%02d/%s", w.M, w.D, y4)
	case "m/dd/yyyy":
		if w.M > 9 {
			return "", false
		}
		fmt.Fprintf(&b, "%d/%02d/%s", w.M, w.D, y4)
	case "m/d/yyyy":
		if w.M > 9 || w.D > 9 {
			return "", false
		}
		fmt.Fprintf(&b, "%d/%d/%s", w.M, w.D, y4)
	case "mm/d/yyyy":
		if w.D > 9 {
			return "", false
		}
		fmt.Fprintf(&b, "%02d/%d/%s", w.M, w.D, y4)
	case "mm/dd/yy":
		if w.Y < 1969 || w.Y > 2068 {
			return "", false
		}
		fmt.Fprintf(&b, "%02d/%02d/%02d", w.M, w.D, w.Y%100)
	case "yyyymmdd":
		fmt.Fprintf(&b, "%s%02d%02d", y4, w.M, w.D)
	}
	if l.Time < 0 {
		if w.h != 0 || w.m != 0 || w.s != 0 || w.Frac != "" || l.TZ != "" {
			return "", false
		}
		return b.String(), true
	}
	b.WriteString(l.Delim)
	h := w.h
	suffix := ""
	if l.AmPm > 0 {
		suffix = "AM"
		if h >= 12 {
			suffix = "PM"
		}
		h = h % 12
		if h == 0 {
			h = 12
		}
		if l.AmPm == 1 {
			suffix = " " + suffix
		}
	}
	switch c19TimeForms[l.Time] {
	case "hh:mm:ss":
		fmt.Fprintf(&b, "%02d:%02d:%02d", h, w.m, w.s)
		if w.Frac != "" {
			b.WriteString("." + w.Frac)
		}
	case "hh:mm":
		if w.s != 0 || w.Frac != "" {
			return "", false
		}
		fmt.Fprintf(&b, "%02d:%02d", h, w.m)
	case "hhmmss":
		if w.Frac != "" {
			return "", false
		}
		fmt.Fprintf(&b, "%02d%02d%02d", h, w.m, w.s)
	case "hhmm":
		if w.s != 0 || w.Frac != "" {
			return "", false
		}
		fmt.Fprintf(&b, "%02d%02d", h, w.m)
	}
	b.WriteString(suffix)
	sign := "+"
	o := offSec
	if o < 0 {
		sign, o = "-", -o
	}
	oh, om := o/3600, o%3600/60
	switch l.TZ {
	case "":
	case "Z":
		if offSec != 0 {
			return "", false
		}
		b.WriteString("Z")
	case "+hh":
		if om != 0 || o%60 != 0 {
			return "", false
		}
		fmt.Fprintf(&b, "%s%02d", sign, oh)
	case "+hhmm":
		if o%60 != 0 {
			return "", false
		}
		fmt.Fprintf(&b, "%s%02d%02d", sign, oh, om)
	case "+hh:mm":
		if o%60 != 0 {
			return "", false
		}
		fmt.Fprintf(&b, "%s%02d:%02d", sign, oh, om)
	case " +hh:mm":
		if o%60 != 0 {
			return "", false
		}
		fmt.Fprintf(&b, " %s%02d:%02d", sign, oh, om)
	case "-IANA":
		b.WriteString("-" + iana)
	}
	return b.String(), true
}

type c19Case struct {
	Fn      string   `json:"function"`
	Args    []string `json:"args"`
	Want    string   `json:"want"`    // expected RFC3339 / epoch text; "ERROR" = must fail
	Instant string   `json:"instant"` // RFC3339Nano of the expected instant (informational)
	Layout  string   `json:"layout,omitempty"`
	// Before: calls made first in the same process (results ignored): the functions keep no state, so
	// what an earlier call read a text as must not matter
	Before []c19Case `json:"calls_before,omitempty"`
}

func c19Call(cs c19Case) (string, error) {
	a := cs.Args
	switch cs.Fn {
	case "dateTimeToRFC3339":
		return customfuncs.DateTimeToRFC3339(nil, a[0], a[1], a[2])
	case "dateTimeLayoutToRFC3339":
		return customfuncs.DateTimeLayoutToRFC3339(nil, a[0], a[1], a[2], a[3], a[4])
	case "dateTimeToEpoch":
		return customfuncs.DateTimeToEpoch(nil, a[0], a[1], a[2])
	case "epochToDateTimeRFC3339":
		return customfuncs.EpochToDateTimeRFC3339(nil, a[0], a[1], a[2:]...)
	}
	return "", fmt.Errorf("unknown function")
}

func yearClass(y int) string {
	switch {
	case y < 1678:
		return "year<1678"
	case y > 2262:
		return "year>2262"
	}
	return "year1678-2262"
}

func c19Check(cs c19Case) (sig, detail string) {
	var got string
	var err error
	pv, site := core.Safe(func() {
		for _, b := range cs.Before {
			c19Call(b)
		}
		got, err = c19Call(cs)
	})
	yc := ""
	if t, perr := time.Parse(time.RFC3339Nano, cs.Instant); perr == nil {
		yc = ":" + yearClass(t.UTC().Year())
	}
	unit := ""
	if cs.Fn == "dateTimeToEpoch" {
		unit = ":" + cs.Args[2]
	} else if cs.Fn == "epochToDateTimeRFC3339" {
		unit = ":" + cs.Args[1]
	}
	lay := ""
	if cs.Layout != "" {
		lay = ":" + cs.Layout
	}
	if strings.HasPrefix(cs.Layout, "zone-abbreviation|") && pv == nil {
		// a layout with a zone ABBREVIATION: the instant the abbreviation's real offset gives, or an error -
		// never another time
		if err != nil {
			return "", ""
		}
		want, _ := time.Parse(time.RFC3339Nano, cs.Instant)
		back, berr := time.Parse(time.RFC3339, got)
		if berr != nil {
			return "rfc3339-text-not-parsable:" + cs.Fn, fmt.Sprintf("args %q returned %q (%v)", cs.Args, got, berr)
		}
		if back.Unix() == want.Unix() {
			return "", ""
		}
		asUTC, _ := time.Parse(time.RFC3339Nano, cs.Want) // the wall reading taken for UTC
		if back.Unix() == asUTC.Unix() {
			return "zone-abbreviation-in-layout-read-as-utc", fmt.Sprintf("args %q returned %q: the abbreviation was taken for a zone of offset 0; the text denotes %s", cs.Args, got, want.UTC().Format(time.RFC3339))
		}
		return "wrong-value:" + cs.Fn + ":zone-abbreviation", fmt.Sprintf("args %q: got %s, the text denotes %s", cs.Args, got, want.UTC().Format(time.RFC3339))
	}
	switch {
	case pv != nil:
		return "panic:" + cs.Fn + ":" + site, fmt.Sprintf("%v args %q", pv, cs.Args)
	case cs.Want == "ERROR":
		if err == nil {
			return "no-error-for-unparsable-input:" + cs.Fn, fmt.Sprintf("args %q returned %q", cs.Args, got)
		}
		return "", ""
	case err != nil:
		if strings.Contains(err.Error(), "in any supported date/time format") && cs.Layout != "" {
			// sig: time form + fraction length only, so that one table gap is one signature
			parts := strings.Split(cs.Layout, "|")
			frac := 0
			if i := strings.Index(cs.Args[0], "."); i >= 0 {
				for j := i + 1; j < len(cs.Args[0]) && cs.Args[0][j] >= '0' && cs.Args[0][j] <= '9'; j++ {
					frac++
				}
			}
			if len(parts) >= 3 {
				return fmt.Sprintf("smart-parser-rejects-advertised-layout:%s:fraction-digits=%d", parts[2], frac), fmt.Sprintf("%s args %q: %v", cs.Fn, cs.Args, err)
			}
		}
		return "unexpected-error:" + cs.Fn + unit + lay, fmt.Sprintf("args %q: %v (want %s)", cs.Args, err, cs.Want)
	case got != cs.Want:
		return "wrong-value:" + cs.Fn + unit + yc, fmt.Sprintf("args %q: got %s want %s (instant %s)", cs.Args, got, cs.Want, cs.Instant)
	}
	// the text agrees with the standard formatter; when it carries a zone it must also DENOTE the instant
	if cs.Fn != "dateTimeToEpoch" && cs.Instant != "" && len(got) > 19 {
		want, perr := time.Parse(time.RFC3339Nano, cs.Instant)
		back, berr := time.Parse(time.RFC3339, got)
		switch {
		case perr != nil:
		case want.Year() < 1 || want.Year() > 9999 || strings.HasPrefix(got, "10000-") || strings.HasPrefix(got, "0000-"):
			// the instant, or its reading in the target zone, lies outside the years 1..9999 of the property
		case berr != nil:
			return "rfc3339-text-not-parsable:" + cs.Fn, fmt.Sprintf("args %q returned %q, which is not RFC3339 (%v)", cs.Args, got, berr)
		case back.Unix() != want.Unix():
			return "rfc3339-text-denotes-another-instant:zone-offset-with-seconds", fmt.Sprintf("args %q returned %q, which reads as %s, %d s away from the instant %s (the zone's offset at that time has a seconds part that RFC3339 cannot express)", cs.Args, got, back.UTC().Format(time.RFC3339), back.Unix()-want.Unix(), want.UTC().Format(time.RFC3339))
		}
	}
	return "", ""
}

func c19Zones() []string {
	m := map[string]bool{}
	for _, tzs := range timezone.New().Timezones() {
		for _, tz := range tzs {
			if _, err := time.LoadLocation(tz); err == nil {
				m[tz] = true
			}
		}
	}
	var out []string
	for z := range m {
		out = append(out, z)
	}
	sort.Strings(out)
	return out
}

func rfc(t time.Time) string { return t.Format(time.RFC3339) }

func init() {
	core.Register(&core.Prop{
		ID:    "C19",
		Level: "exploration",
		Rule:  "finite grid: instants = {Jan 1 00:00:00, Feb 28 23:59:59, Feb 29 (leap years), Jun 30 12:34:56, Dec 31 23:59:59} of EVERY year 1..9999 + 1 s around every offset transition 1900-2037 of 40 zones + the int64-nanosecond limits + sentinels; layouts = every date form x date/time delimiter x time form x AM/PM form x fraction length 0..9 x zone suffix form advertised by the smart parser; zones = every IANA name known to the parser that this system can load, as source and as target; both epoch units; expected values computed with time.Date/In/Unix; plus every ordered pair of different readings of one text (day-first / month-first layout, layoutTZ on / off, smart parser, both epoch units) made by consecutive calls; plus a mutation alphabet of unparsable strings that must yield errors; plus dateTimeLayoutToRFC3339 with 5 layouts carrying a zone abbreviation x 15 abbreviations (UTC, GMT, GMT+3, WET, PDT, EST, CEST, JST ...) x 3 readings x 3 target zones: the instant the abbreviation denotes, or an error; a case is distinct by (function, arguments)",
		Assumptions: []string{
			"the expected values come from Go's time package (time.Date, Time.In, Time.Unix), which is the trusted base",
			"RFC3339 output has second resolution: a fractional second in the input is compared after truncation for the RFC3339 functions and exactly (to the millisecond) for dateTimeToEpoch MILLISECOND",
			"wall-clock readings inside a DST gap/overlap are resolved as time.Date resolves them",
		},
		BudgetQuick: 100, BudgetThorough: 900,
		Run: c19Run,
		Replay: func(raw json.RawMessage) (string, string) {
			var cs c19Case
			if err := json.Unmarshal(raw, &cs); err != nil {
				return "harness:bad-replay", err.Error()
			}
			sig, detail := c19Check(cs)
			if sig == "" {
				detail = "ok: " + cs.Want
			}
			return sig, detail
		},
	})
}

func c19Run(c *core.Ctx) {
	idx := 0
	emit := func(cs c19Case) {
		idx++
		if !c.Mine(idx) {
			return
		}
		c.Begin(func() interface{} { return cs })
		sig, detail := c19Check(cs)
		key := cs.Fn
		if len(cs.Args) > 0 && len(cs.Args[0]) >= 4 {
			key += "|" + cs.Layout
		}
		c.Eval(key)
		if sig != "" {
			c.Violation(sig, detail, cs, func() string { s, _ := c19Check(cs); return s })
		} else if c.WantSample() && cs.Layout != "" && idx%977 == 0 {
			c.Sample(cs)
		}
	}
	ny, _ := time.LoadLocation("America/New_York")
	kolkata, _ := time.LoadLocation("Asia/Kolkata")
	// one instant (given by wall clock w in location loc, nil = no zone) through the four functions
	do := func(w wall, l layoutSpec, loc *time.Location, ianaName string, fromTZ, toTZ string) {
		var inst time.Time
		off := 0
		zoned := l.TZ != ""
		if zoned {
			inst = time.Date(w.Y, time.Month(w.M), w.D, w.h, w.m, w.s, w.nanos(), loc)
			_, off = inst.Zone()
			if l.TZ != "-IANA" {
				// the string carries (wall clock, numeric offset): that pair defines the instant
				inst = time.Date(w.Y, time.Month(w.M), w.D, w.h, w.m, w.s, w.nanos(), time.FixedZone("", off))
			}
		}
		s, ok := l.render(w, off, ianaName)
		if !ok {
			return
		}
		// expected instant and presentation
		var expInst time.Time
		hasTZ := zoned
		switch {
		case zoned:
			expInst = inst
			if l.TZ != "-IANA" {
				expInst = inst.In(time.FixedZone("", off))
			}
		case fromTZ != "":
			fl, _ := time.LoadLocation(fromTZ)
			expInst = time.Date(w.Y, time.Month(w.M), w.D, w.h, w.m, w.s, w.nanos(), fl)
			hasTZ = true
		default:
			expInst = time.Date(w.Y, time.Month(w.M), w.D, w.h, w.m, w.s, w.nanos(), time.UTC)
		}
		out := expInst
		if toTZ != "" {
			tl, _ := time.LoadLocation(toTZ)
			if hasTZ {
				out = expInst.In(tl)
			} else {
				out = time.Date(w.Y, time.Month(w.M), w.D, w.h, w.m, w.s, w.nanos(), tl)
				hasTZ = true
			}
		}
		want := out.Format("2006-01-02T15:04:05")
		if hasTZ {
			want = rfc(out)
		}
		lay := l.String()
		emit(c19Case{Fn: "dateTimeToRFC3339", Args: []string{s, fromTZ, toTZ}, Want: want, Instant: out.UTC().Format(time.RFC3339Nano), Layout: lay})
		if toTZ == "" {
			// epoch: zone-less input without fromTZ is taken at face value (UTC)
			e := expInst
			emit(c19Case{Fn: "dateTimeToEpoch", Args: []string{s, fromTZ, "SECOND"}, Want: strconv.FormatInt(e.Unix(), 10), Instant: e.UTC().Format(time.RFC3339Nano), Layout: lay})
			ms := e.Unix()*1000 + int64(e.Nanosecond()/1e6)
			emit(c19Case{Fn: "dateTimeToEpoch", Args: []string{s, fromTZ, "MILLISECOND"}, Want: strconv.FormatInt(ms, 10), Instant: e.UTC().Format(time.RFC3339Nano), Layout: lay})
			// inverse
			emit(c19Case{Fn: "epochToDateTimeRFC3339", Args: []string{strconv.FormatInt(e.Unix(), 10), "SECOND"}, Want: rfc(e.UTC()), Instant: e.UTC().Format(time.RFC3339Nano)})
			emit(c19Case{Fn: "epochToDateTimeRFC3339", Args: []string{strconv.FormatInt(ms, 10), "MILLISECOND", "America/New_York"}, Want: rfc(time.Unix(e.Unix(), int64(e.Nanosecond()/1e6)*1e6).In(ny)), Instant: e.UTC().Format(time.RFC3339Nano)})
		}
	}

	isLeap := func(y int) bool { return y%4 == 0 && (y%100 != 0 || y%400 == 0) }
	grid := func(y int) []wall {
		ws := []wall{{y, 1, 1, 0, 0, 0, ""}, {y, 2, 28, 23, 59, 59, ""}, {y, 6, 30, 12, 34, 56, ""}, {y, 12, 31, 23, 59, 59, ""}}
		if isLeap(y) {
			ws = append(ws, wall{y, 2, 29, 12, 0, 0, ""})
		}
		return ws
	}
	// (1) every year x representative layouts x zone forms
	repr := []layoutSpec{
		{0, "T", 0, 0, ""}, {0, "T", 0, 0, "Z"}, {0, " ", 0, 0, "+hh:mm"}, {0, "T", 0, 0, "-IANA"},
		{3, " ", 1, 1, ""}, {8, "", 2, 0, ""}, {1, " ", 0, 2, "+hhmm"}, {2, "T", 3, 0, ""},
	}
	ystep := 1
	if c.Quick() {
		ystep = 3
	}
	for y := 1; y <= 9999; y += ystep {
		for _, w := range grid(y) {
			for li, l := range repr {
				loc, name := time.UTC, "UTC"
				switch l.TZ {
				case "+hh:mm", "+hhmm":
					loc, name = kolkata, "Asia/Kolkata"
				case "-IANA":
					loc, name = ny, "America/New_York"
				}
				do(w, l, loc, name, "", "")
				if li%2 == 0 {
					do(w, l, loc, name, "Asia/Tokyo", "Europe/Paris")
					do(w, l, loc, name, "", "America/Los_Angeles")
				}
			}
		}
		if c.TimeUp() {
			return
		}
	}
	// boundary years always
	special := []wall{{1, 1, 1, 0, 0, 0, ""}, {9999, 12, 31, 23, 59, 59, ""}, {1677, 9, 21, 0, 12, 43, ""}, {1677, 9, 21, 0, 12, 44, ""}, {2262, 4, 11, 23, 47, 16, ""}, {2262, 4, 11, 23, 47, 17, ""},
		{1969, 12, 31, 23, 59, 59, ""}, {1970, 1, 1, 0, 0, 0, ""}, {2038, 1, 19, 3, 14, 8, ""}, {2068, 12, 31, 1, 2, 3, ""}, {2020, 2, 29, 12, 0, 0, ""}, {2021, 3, 14, 2, 30, 0, ""}, {2021, 11, 7, 1, 30, 0, ""},
		{2000, 1, 2, 3, 4, 5, "123456789"}, {1999, 10, 9, 13, 7, 9, "5"}, {2009, 9, 9, 0, 0, 0, ""}, {2011, 11, 1, 12, 0, 0, ""}, {1985, 7, 4, 0, 30, 0, ""}}
	// (2) every layout on the special instants
	fracs := []string{"", "1", "12", "123", "1234", "12345", "123456", "1234567", "12345678", "123456789"}
	tzForms := []string{"", "Z", "+hh", "+hhmm", "+hh:mm", " +hh:mm", "-IANA"}
	for _, w0 := range special {
		for di := range c19DateForms {
			do(w0, layoutSpec{di, "", -1, 0, ""}, nil, "", "", "")
			for _, delim := range []string{"T", " ", ""} {
				if delim == "" && c19DateForms[di] != "yyyymmdd" {
					continue
				}
				for ti := range c19TimeForms {
					for ap := 0; ap < 3; ap++ {
						for _, fr := range fracs {
							if fr != "" && ti != 0 {
								continue
							}
							w := w0
							if w0.Frac == "" || ti == 0 {
								w.Frac = fr
							}
							if ti != 0 {
								w.Frac = ""
							}
							if ti == 1 || ti == 3 {
								w.s = 0
							}
							for _, tz := range tzForms {
								loc, name := time.UTC, "UTC"
								if tz != "" && tz != "Z" {
									loc, name = kolkata, "Asia/Kolkata"
									if tz == "+hh" {
										loc, name = time.FixedZone("", -7*3600), ""
									}
									if tz == "-IANA" {
										loc, name = ny, "America/New_York"
									}
								}
								l := layoutSpec{di, delim, ti, ap, tz}
								do(w, l, loc, name, "", "")
								do(w, l, loc, name, "Australia/Lord_Howe", "")
								do(w, l, loc, name, "", "Asia/Kathmandu")
								do(w, l, loc, name, "Asia/Tokyo", "Asia/Tokyo") // the same zone as source and as target
							}
						}
					}
				}
			}
		}
		if c.TimeUp() {
			return
		}
	}
	// (3) every zone as source and as target on the special instants; transitions of 40 zones
	zones := c19Zones()
	c.Max("zones", int64(len(zones)))
	partners := []string{"UTC", "America/New_York", "Asia/Kolkata", "Australia/Lord_Howe", "Europe/London", "Pacific/Apia"}
	base := layoutSpec{0, "T", 0, 0, ""}
	for zi, z := range zones {
		loc, _ := time.LoadLocation(z)
		for wi, w := range special {
			if c.Quick() && (wi+zi)%3 != 0 {
				continue
			}
			p := partners[(wi+zi)%len(partners)]
			do(w, base, nil, "", z, p)
			do(w, base, nil, "", p, z)
			do(w, layoutSpec{0, "T", 0, 0, "-IANA"}, loc, z, "", p)
			do(w, base, nil, "", "", z)
			do(w, base, nil, "", z, z)
			do(w, layoutSpec{0, "T", 0, 0, "-IANA"}, loc, z, p, p)
			do(w, layoutSpec{0, "T", 0, 0, "Z"}, time.UTC, "UTC", z, z)
		}
		if c.TimeUp() {
			return
		}
	}
	tz40 := zones
	if len(tz40) > 40 {
		step := len(zones) / 40
		tz40 = nil
		for i := 0; i < len(zones) && len(tz40) < 40; i += step {
			tz40 = append(tz40, zones[i])
		}
		tz40 = append(tz40, "America/New_York", "Europe/London", "Australia/Lord_Howe", "Pacific/Apia", "America/Sao_Paulo")
	}
	for _, z := range tz40 {
		loc, err := time.LoadLocation(z)
		if err != nil {
			continue
		}
		start := time.Date(1900, 1, 1, 0, 0, 0, 0, time.UTC).Unix()
		end := time.Date(2037, 12, 31, 0, 0, 0, 0, time.UTC).Unix()
		_, prev := time.Unix(start, 0).In(loc).Zone()
		ntr := 0
		for t := start; t < end; t += 86400 {
			_, o := time.Unix(t+86400, 0).In(loc).Zone()
			if o == prev {
				continue
			}
			lo, hi := t, t+86400 // offset(lo)=prev, offset(hi)=o
			for hi-lo > 1 {
				mid := (lo + hi) / 2
				if _, om := time.Unix(mid, 0).In(loc).Zone(); om == prev {
					lo = mid
				} else {
					hi = mid
				}
			}
			prev = o
			ntr++
			if c.Quick() && ntr%4 != 0 {
				continue
			}
			for _, d := range []int64{-1, 0, 1} {
				ti := time.Unix(hi+d, 0).In(loc)
				w := wall{ti.Year(), int(ti.Month()), ti.Day(), ti.Hour(), ti.Minute(), ti.Second(), ""}
				do(w, layoutSpec{0, "T", 0, 0, "-IANA"}, loc, z, "", "UTC")
				do(w, base, nil, "", z, "UTC")
				uw := ti.UTC()
				do(wall{uw.Year(), int(uw.Month()), uw.Day(), uw.Hour(), uw.Minute(), uw.Second(), ""}, layoutSpec{0, "T", 0, 0, "Z"}, time.UTC, "UTC", "", z)
			}
		}
		c.Count("zone_transitions_visited", int64(ntr))
		if c.TimeUp() {
			return
		}
	}
	// (4) explicit layouts
	for _, w := range special {
		t := time.Date(w.Y, time.Month(w.M), w.D, w.h, w.m, w.s, 0, time.UTC)
		for _, lt := range []struct {
			layout string
			tz     bool
		}{{"2006-01-02 15:04:05", false}, {"02/01/2006 15:04", false}, {time.RFC1123Z, true}, {time.RFC3339, true}, {"Jan _2 2006 3:04PM", false}, {time.UnixDate, true}} {
			tt := t
			if strings.Contains(lt.layout, "15:04") && !strings.Contains(lt.layout, ":05") || strings.Contains(lt.layout, "3:04PM") {
				tt = t.Truncate(time.Minute)
			}
			in := tt
			if lt.tz {
				in = tt.In(time.FixedZone("", 5*3600+1800))
				if lt.layout == time.UnixDate {
					in = tt.UTC()
				}
			}
			if (w.Y < 1000 && strings.Contains(lt.layout, "Jan")) || in.Year() > 9999 || in.Year() < 1 {
				continue
			}
			s := in.Format(lt.layout)
			flag := strconv.FormatBool(lt.tz)
			want := in.Format("2006-01-02T15:04:05")
			if lt.tz {
				want = rfc(in)
			}
			emit(c19Case{Fn: "dateTimeLayoutToRFC3339", Args: []string{s, lt.layout, flag, "", ""}, Want: want, Instant: in.UTC().Format(time.RFC3339Nano), Layout: "explicit:" + lt.layout})
			if lt.tz {
				emit(c19Case{Fn: "dateTimeLayoutToRFC3339", Args: []string{s, lt.layout, flag, "Asia/Tokyo", "America/New_York"}, Want: rfc(in.In(ny)), Instant: in.UTC().Format(time.RFC3339Nano), Layout: "explicit:" + lt.layout})
			} else {
				tk, _ := time.LoadLocation("Asia/Tokyo")
				x := time.Date(in.Year(), in.Month(), in.Day(), in.Hour(), in.Minute(), in.Second(), 0, tk)
				emit(c19Case{Fn: "dateTimeLayoutToRFC3339", Args: []string{s, lt.layout, flag, "Asia/Tokyo", "America/New_York"}, Want: rfc(x.In(ny)), Instant: x.UTC().Format(time.RFC3339Nano), Layout: "explicit:" + lt.layout})
			}
		}
	}
	// (4b) the same text read in different ways by consecutive calls (explicit day-first / month-first
	// layouts, layoutTZ on and off, the smart parser, both epoch units): every ordered pair of readings
	{
		utc := func(y int, m time.Month, d, hh, mm, ss int) time.Time {
			return time.Date(y, m, d, hh, mm, ss, 0, time.UTC)
		}
		var groups [][]c19Case
		{
			t := "03/04/2021 10:20:30"
			mf, df := utc(2021, 3, 4, 10, 20, 30), utc(2021, 4, 3, 10, 20, 30)
			groups = append(groups, []c19Case{
				{Fn: "dateTimeLayoutToRFC3339", Args: []string{t, "02/01/2006 15:04:05", "false", "", ""}, Want: df.Format("2006-01-02T15:04:05"), Layout: "pair"},
				{Fn: "dateTimeLayoutToRFC3339", Args: []string{t, "01/02/2006 15:04:05", "false", "", ""}, Want: mf.Format("2006-01-02T15:04:05"), Layout: "pair"},
				{Fn: "dateTimeToRFC3339", Args: []string{t, "", ""}, Want: mf.Format("2006-01-02T15:04:05"), Layout: "pair"},
				{Fn: "dateTimeToEpoch", Args: []string{t, "", "SECOND"}, Want: strconv.FormatInt(mf.Unix(), 10), Layout: "pair"},
				{Fn: "dateTimeToEpoch", Args: []string{t, "", "MILLISECOND"}, Want: strconv.FormatInt(mf.Unix()*1000, 10), Layout: "pair"},
				{Fn: "dateTimeLayoutToRFC3339", Args: []string{t, "02/01/2006 15:04:05", "false", "Asia/Tokyo", "UTC"}, Want: rfc(df.Add(-9 * time.Hour)), Layout: "pair"},
			})
			t2 := "25/12/2022 00:00:00" // only readable day-first
			x := utc(2022, 12, 25, 0, 0, 0)
			groups = append(groups, []c19Case{
				{Fn: "dateTimeLayoutToRFC3339", Args: []string{t2, "02/01/2006 15:04:05", "false", "", ""}, Want: x.Format("2006-01-02T15:04:05"), Layout: "pair"},
				{Fn: "dateTimeToRFC3339", Args: []string{t2, "", ""}, Want: "ERROR", Layout: "pair"},
				{Fn: "dateTimeToEpoch", Args: []string{t2, "", "SECOND"}, Want: "ERROR", Layout: "pair"},
			})
			t3 := "2021-03-04T10:20:30-07:00" // with layoutTZ the offset counts, without it the wall clock is taken as it is
			y := time.Date(2021, 3, 4, 10, 20, 30, 0, time.FixedZone("", -7*3600))
			groups = append(groups, []c19Case{
				{Fn: "dateTimeLayoutToRFC3339", Args: []string{t3, time.RFC3339, "true", "", ""}, Want: rfc(y), Layout: "pair"},
				{Fn: "dateTimeLayoutToRFC3339", Args: []string{t3, time.RFC3339, "false", "", ""}, Want: "2021-03-04T10:20:30", Layout: "pair"},
				{Fn: "dateTimeToRFC3339", Args: []string{t3, "", "UTC"}, Want: rfc(y.UTC()), Layout: "pair"},
				{Fn: "dateTimeToEpoch", Args: []string{t3, "", "SECOND"}, Want: strconv.FormatInt(y.Unix(), 10), Layout: "pair"},
			})
		}
		for _, g := range groups {
			for i := range g {
				emit(g[i])
				for j := range g {
					if i != j {
						cs := g[i]
						cs.Before = []c19Case{g[j]}
						emit(cs)
						cs2 := g[i]
						cs2.Before = []c19Case{g[j], g[j], g[i]}
						emit(cs2)
					}
				}
			}
		}
	}
	// (4c) dateTimeLayoutToRFC3339 with a layout that has a zone ABBREVIATION (the function's documentation lists
	// "tz short names like 'PST'"): the instant the abbreviation denotes, or an error
	{
		abbr := []struct {
			name string
			off  int
		}{{"UTC", 0}, {"GMT", 0}, {"GMT+3", 3 * 3600}, {"GMT-11", -11 * 3600}, {"WET", 0}, {"PDT", -7 * 3600}, {"PST", -8 * 3600}, {"EST", -5 * 3600}, {"EDT", -4 * 3600},
			{"CET", 3600}, {"CEST", 2 * 3600}, {"JST", 9 * 3600}, {"AEST", 10 * 3600}, {"NZDT", 13 * 3600}, {"MSK", 3 * 3600}}
		for _, lay := range []string{"2006-01-02 15:04:05 MST", time.RFC1123, time.RFC822, time.UnixDate, "Jan _2 2006 3:04PM MST"} {
			for _, wl := range []time.Time{time.Date(2020, 9, 22, 12, 34, 0, 0, time.UTC), time.Date(2021, 1, 3, 0, 5, 0, 0, time.UTC), time.Date(1999, 12, 31, 23, 59, 0, 0, time.UTC)} {
				for _, a := range abbr {
					text := wl.In(time.FixedZone(a.name, 0)).Format(lay) // the wall reading followed by the abbreviation
					inst := time.Date(wl.Year(), wl.Month(), wl.Day(), wl.Hour(), wl.Minute(), wl.Second(), 0, time.FixedZone(a.name, a.off))
					for _, toTZ := range []string{"", "UTC", "Asia/Tokyo"} {
						emit(c19Case{Fn: "dateTimeLayoutToRFC3339", Args: []string{text, lay, "true", "", toTZ}, Layout: "zone-abbreviation|" + a.name,
							Want: wl.Format(time.RFC3339Nano), Instant: inst.Format(time.RFC3339Nano)})
					}
				}
			}
		}
	}
	// (5) empty input and unparsable inputs
	for _, fn := range []c19Case{
		{Fn: "dateTimeToRFC3339", Args: []string{"", "UTC", "UTC"}, Want: ""},
		{Fn: "dateTimeLayoutToRFC3339", Args: []string{"", "2006", "false", "", ""}, Want: ""},
		{Fn: "dateTimeToEpoch", Args: []string{"", "", "SECOND"}, Want: ""},
		{Fn: "epochToDateTimeRFC3339", Args: []string{"", "SECOND"}, Want: ""},
	} {
		emit(fn)
	}
	bad := []string{"2020-13-01", "2020-00-10", "2020-02-30", "2021-02-29", "2020-01-32T00:00:00", "2020-01-01T24:00:00", "2020-01-01T23:60:00", "2020-01-01T23:59:61", "2020-01-01 13:00:00 PM",
		"13/01/2020", "01/32/2020", "2020-1-1", "20201301", "2020-01-01T12:00:00+25:00x", "2020-01-01T12:00:00-Mars/Base", "yesterday", "2020-01-01T12:00:00.1234567890",
		"2020/01-01", "0000-00-00", "2020-01-01T12", "12:00:00", " ", "2020-01-01T12:00:00Zulu", "２０２０-01-01"}
	for _, b := range bad {
		emit(c19Case{Fn: "dateTimeToRFC3339", Args: []string{b, "", ""}, Want: "ERROR"})
		emit(c19Case{Fn: "dateTimeToRFC3339", Args: []string{b, "UTC", "Asia/Tokyo"}, Want: "ERROR"})
		emit(c19Case{Fn: "dateTimeToEpoch", Args: []string{b, "", "SECOND"}, Want: "ERROR"})
	}
	emit(c19Case{Fn: "dateTimeToRFC3339", Args: []string{"2020-01-01T00:00:00", "Not/AZone", ""}, Want: "ERROR"})
	emit(c19Case{Fn: "dateTimeToRFC3339", Args: []string{"2020-01-01T00:00:00", "", "Not/AZone"}, Want: "ERROR"})
	emit(c19Case{Fn: "dateTimeToEpoch", Args: []string{"2020-01-01T00:00:00", "", "HOUR"}, Want: "ERROR"})
	emit(c19Case{Fn: "epochToDateTimeRFC3339", Args: []string{"12x", "SECOND"}, Want: "ERROR"})
	emit(c19Case{Fn: "epochToDateTimeRFC3339", Args: []string{"12", "HOUR"}, Want: "ERROR"})
	emit(c19Case{Fn: "epochToDateTimeRFC3339", Args: []string{"12", "SECOND", "Not/AZone"}, Want: "ERROR"})
	emit(c19Case{Fn: "epochToDateTimeRFC3339", Args: []string{"12", "SECOND", "UTC", "UTC"}, Want: "ERROR"})
	emit(c19Case{Fn: "dateTimeLayoutToRFC3339", Args: []string{"2020-01-01", "2006-01-02", "maybe", "", ""}, Want: "ERROR"})
	emit(c19Case{Fn: "dateTimeLayoutToRFC3339", Args: []string{"2020-13-01", "2006-01-02", "false", "", ""}, Want: "ERROR"})
}
