package props

import (
	"encoding/json"
	"encoding/xml"
	"fmt"
	"io"
	"os"
	"os/exec"
	"regexp"
	"sort"
	"strings"

	"github.com/jf-tech/omniparser"
	"github.com/jf-tech/omniparser/customfuncs"
	"github.com/jf-tech/omniparser/extensions/omniv21"
	v21cf "github.com/jf-tech/omniparser/extensions/omniv21/customfuncs"
	"github.com/jf-tech/omniparser/transformctx"

	"verif/mc/core"
	"verif/mc/gen"
	"verif/mc/hx"
)

// C15 — results and checksums are a deterministic function of (schema, input, externals):
// BFS over process histories with a fresh-process baseline; checksum equal <=> records equal.

type c15Job struct {
	Name   string
	Schema string
	Input  string
	Ext    map[string]string
	// CustomUpper: the schema is created with a caller's extension, built the documented way
	// (Merge(CommonCustomFuncs, OmniV21CustomFuncs, own)), whose own 'upper' only capitalises the first letter
	CustomUpper bool
	// CustomUpperAny: a caller's extension whose 'upper' takes any value (interface{}) and says "ABSENT" when it
	// is given none - another SIGNATURE under the name of a builtin
	CustomUpperAny bool
}

func c15Jobs() []c15Job {
	var jobs []c15Job
	for _, f := range c10Formats() {
		jobs = append(jobs, c15Job{Name: "c10/" + f.Name, Schema: f.Schema, Input: c10Input(f, "ABCDEBA")})
	}
	h := func(f string) string {
		return `"parser_settings":{"version":"omni.2.1","file_format_type":"` + f + `"}`
	}
	jobs = append(jobs,
		c15Job{Name: "xml-namespaces", Schema: `{` + h("xml") + `,"transform_declarations":{"FINAL_OUTPUT":{"xpath":"/o:orders/o:order","object":{"id":{"xpath":"@id"},"cp":{"custom_func":{"name":"copy"}},"item":{"xpath":"o:item"},"ext":{"external":"e1"},"u":{"custom_func":{"name":"uuidv3","args":[{"xpath":"o:item"}]}}}}}}`,
			Input: `<o:orders xmlns:o="urn:x" xmlns:p="urn:y"><o:order id="1" p:k="v"><o:item>a</o:item><p:note>n</p:note></o:order><o:order id="2"><o:item>b</o:item></o:order></o:orders>`, Ext: map[string]string{"e1": "E"}},
		c15Job{Name: "xml-uri-bound-twice", Schema: `{` + h("xml") + `,"transform_declarations":{"FINAL_OUTPUT":{"xpath":"/*/*","object":{"cp":{"custom_func":{"name":"copy"}},"name":{"custom_func":{"name":"javascript_with_context","args":[{"const":"Object.keys(JSON.parse(_node)).sort().join(',')"}]}}}}}}`,
			Input: `<orders xmlns:o="urn:x" xmlns="urn:x"><o:order id="1"><item>a</item></o:order><order id="2"><o:item>b</o:item></order></orders>`},
		c15Job{Name: "json-xpath-dynamic", Schema: `{` + h("json") + `,"transform_declarations":{"FINAL_OUTPUT":{"xpath":"/recs/*","object":{"v":{"xpath_dynamic":{"custom_func":{"name":"concat","args":[{"const":"fields/"},{"xpath":"key"}]}}},"w":{"xpath_dynamic":{"xpath":"key"}},"all":{"array":[{"xpath":"fields/*","type":"float"}]},"cp":{"xpath":"fields","custom_func":{"name":"copy"}}}}}}`,
			Input: `{"recs":[{"key":"a","fields":{"a":1,"b":2.5},"a":"A"},{"key":"b","fields":{"a":3,"b":4,"c":5},"b":"B"},{"key":"zz","fields":{"x":true}}]}`},
		c15Job{Name: "csv-datetime", Schema: `{` + h("csv") + `,"file_declaration":{"delimiter":"|","header_row_index":1,"data_row_index":2,"columns":[{"name":"D"},{"name":"TZ"}]},"transform_declarations":{"FINAL_OUTPUT":{"object":{"t":{"custom_func":{"name":"dateTimeToRFC3339","args":[{"xpath":"D"},{"xpath":"TZ"},{"const":"UTC"}]}},"e":{"custom_func":{"name":"dateTimeToEpoch","args":[{"xpath":"D"},{"xpath":"TZ"},{"const":"MILLISECOND"}]}},"l":{"custom_func":{"name":"lower","args":[{"xpath":"TZ"}]}}}}}}`,
			Input: "D|TZ\n2020-02-29 12:34:56|America/New_York\n1969-07-20T20:17:40Z|\n09/10/2021 1:02:03 PM|Asia/Kolkata\n"},
	)
	// scripts: one that throws while it holds arguments (under ignore_error), one that looks for globals it was not given
	jsThrow := `{` + h("csv") + `,"file_declaration":{"delimiter":",","data_row_index":1,"columns":[{"name":"A"}]},"transform_declarations":{"FINAL_OUTPUT":{"object":{"a":{"xpath":"A"},"t":{"custom_func":{"name":"javascript","ignore_error":true,"args":[{"const":"if (secret != '') { throw 'no: ' + secret } 1"},{"const":"secret"},{"xpath":"A"},{"const":"JSON"},{"const":"shadow"}]}},"u":{"custom_func":{"name":"javascript_with_context","ignore_error":true,"args":[{"const":"throw _node"}]}}}}}}`
	jsProbe := `{` + h("csv") + `,"file_declaration":{"delimiter":",","data_row_index":1,"columns":[{"name":"A"}]},"transform_declarations":{"FINAL_OUTPUT":{"object":{"a":{"xpath":"A"},"p":{"custom_func":{"name":"javascript","args":[{"const":"[typeof secret, typeof _node, typeof JSON, typeof a, typeof v, typeof k, typeof t, typeof K, typeof cnt, typeof dbl, typeof seen, typeof helper].join('|')"}]}},"q":{"custom_func":{"name":"javascript","args":[{"const":"(typeof secret == 'undefined') ? 'n/a' : secret"}]}}}}}}`
	upperSchema := `{` + h("csv") + `,"file_declaration":{"delimiter":",","data_row_index":1,"columns":[{"name":"A"}]},"transform_declarations":{"FINAL_OUTPUT":{"object":{"u":{"custom_func":{"name":"upper","args":[{"xpath":"A"}]}},"l":{"custom_func":{"name":"lower","args":[{"xpath":"A"}]}}}}}}`
	jobs = append(jobs,
		c15Job{Name: "js-throwing-while-holding-arguments", Schema: jsThrow, Input: "s3cret\nx\n"},
		c15Job{Name: "js-looking-for-globals", Schema: jsProbe, Input: "r1\nr2\n"},
		// scripts with declarations at their top level (const, let, class, var, function) and with variables
		// they assign without declaring: every record, every transform and every other script finds the
		// VM's global scope as it was
		c15Job{Name: "js-top-level-declarations", Schema: `{` + h("json") + `,"transform_declarations":{"FINAL_OUTPUT":{"xpath":"/*","object":{
  "a_const":{"custom_func":{"name":"javascript","args":[{"const":"const k = 2; k * n"},{"const":"n"},{"xpath":"n","type":"int"}]}},
  "b_let":{"custom_func":{"name":"javascript","args":[{"const":"let t = n + 1; t"},{"const":"n"},{"xpath":"n","type":"int"}]}},
  "c_class":{"custom_func":{"name":"javascript","args":[{"const":"class K { v() { return n * 3 } }; new K().v()"},{"const":"n"},{"xpath":"n","type":"int"}]}},
  "d_var":{"custom_func":{"name":"javascript","args":[{"const":"var cnt = (typeof cnt === 'undefined') ? 1 : cnt + 1; cnt"}]}},
  "e_function":{"custom_func":{"name":"javascript","args":[{"const":"function dbl(x) { return x * 2 }; dbl(n)"},{"const":"n"},{"xpath":"n","type":"int"}]}},
  "f_undeclared":{"custom_func":{"name":"javascript","args":[{"const":"if (typeof seen === 'undefined') { seen = 0 }; seen += 1; seen"}]}},
  "g_helper":{"custom_func":{"name":"javascript","args":[{"const":"helper = function(x) { return 'h' + x }; helper(n)"},{"const":"n"},{"xpath":"n","type":"int"}]}},
  "h_probe":{"custom_func":{"name":"javascript","args":[{"const":"[typeof k, typeof t, typeof K, typeof cnt, typeof dbl, typeof seen, typeof helper, typeof late].join('|')"}]}},
  "a0_getter":{"custom_func":{"name":"javascript","args":[{"const":"(function(){ var vv = n; return { get x() { late = vv; return vv * 5 } } })()"},{"const":"n"},{"xpath":"n","type":"int"}]}},
  "a1_late":{"custom_func":{"name":"javascript","args":[{"const":"typeof late"}]}}}}}}`,
			Input: `[{"n":1},{"n":2},{"n":3}]`},
		// scripts that do things to the global object itself: assign to a builtin's name, define a property
		// that does not enumerate, use a symbol key, delete a builtin, make the object non-extensible, and an
		// argument whose NAME (taken from the input) is __proto__
		c15Job{Name: "js-changing-the-global-object", Schema: `{` + h("json") + `,"transform_declarations":{"FINAL_OUTPUT":{"xpath":"/*","object":{
  "a_date":{"custom_func":{"name":"javascript","args":[{"const":"Date = d.substring(0, 4); Date"},{"const":"d"},{"xpath":"d"}]}},
  "b_year":{"custom_func":{"name":"javascript","args":[{"const":"new Date(0).getUTCFullYear() + n"},{"const":"n"},{"xpath":"n","type":"int"}]}},
  "c_hidden":{"custom_func":{"name":"javascript","args":[{"const":"(function(g){ var r = typeof hid; Object.defineProperty(g, 'hid', {value: n, configurable: true, enumerable: false}); return r })(this)"},{"const":"n"},{"xpath":"n","type":"int"}]}},
  "d_symbol":{"custom_func":{"name":"javascript","args":[{"const":"(function(g){ var s = Symbol.for('k'); var r = typeof g[s]; g[s] = n; return r })(this)"},{"const":"n"},{"xpath":"n","type":"int"}]}},
  "e_delete":{"custom_func":{"name":"javascript","args":[{"const":"(function(g){ var r = typeof JSON; delete g.JSON; return r })(this)"}]}},
  "f_json":{"custom_func":{"name":"javascript","args":[{"const":"JSON.stringify([n])"},{"const":"n"},{"xpath":"n","type":"int"}]}},
  "g_frozen":{"custom_func":{"name":"javascript","args":[{"const":"(function(g){ if (n == 2) { Object.preventExtensions(g) } return 'v' + n })(this)"},{"const":"n"},{"xpath":"n","type":"int"}]}},
  "h_named":{"custom_func":{"name":"javascript","ignore_error":true,"args":[{"const":"'k=' + k"},{"const":"k"},{"xpath":"n"},{"xpath":"name"},{"xpath":"nv"}]}},
  "i_own":{"custom_func":{"name":"javascript","args":[{"const":"this.hasOwnProperty('v') + ':' + typeof toString + ':' + typeof hid"},{"const":"v"},{"xpath":"n"}]}}}}}}`,
			Input: `[{"n":1,"d":"2020-01","name":"x","nv":"1"},{"n":2,"d":"2021-02","name":"__proto__"},{"n":3,"d":"2022-03","name":"__proto__","nv":"s"},{"n":4,"d":"2023-04","name":"y","nv":"2"}]`},
		// ... and scripts that change the builtin OBJECTS (known finding: a pooled VM keeps that)
		c15Job{Name: "js-changing-builtin-objects", Schema: `{` + h("json") + `,"transform_declarations":{"FINAL_OUTPUT":{"xpath":"/*","object":{
  "a_math":{"custom_func":{"name":"javascript","args":[{"const":"(function(){ var r = Math.zz === undefined ? 'clean' : 'kept:' + Math.zz; Math.zz = n; return r })()"},{"const":"n"},{"xpath":"n","type":"int"}]}},
  "b_proto":{"custom_func":{"name":"javascript","args":[{"const":"(function(){ var r = typeof [].zzlast; Array.prototype.zzlast = function() { return 1 }; return r })()"}]}},
  "c_attr":{"custom_func":{"name":"javascript","args":[{"const":"(function(g){ var r = Object.getOwnPropertyDescriptor(g, 'parseInt').writable; Object.defineProperty(g, 'parseInt', {writable: false}); return r })(this)"}]}},
  "d_tag":{"custom_func":{"name":"javascript","args":[{"const":"(function(g){ var r = String(g); Object.defineProperty(g, Symbol.toStringTag, {value: 'X', configurable: true}); return r })(this)"}]}}}}}}`,
			Input: `[{"n":1},{"n":2},{"n":3}]`},
		// a script whose calls nest as deep as the data says (300, 600, 900, 3000 levels)
		c15Job{Name: "js-deep-recursion", Schema: `{` + h("json") + `,"transform_declarations":{"FINAL_OUTPUT":{"xpath":"/*","object":{
  "d":{"custom_func":{"name":"javascript","args":[{"const":"(function f(k) { return k == 0 ? 0 : 1 + f(k - 1) })(n)"},{"const":"n"},{"xpath":"n","type":"int"}]}}}}}}`,
			Input: `[{"n":300},{"n":600},{"n":900},{"n":3000},{"n":5}]`},
		// an array element whose xpath is a union: the elements come in the order the xpath engine gives them
		// (all of the left branch, then the right one) for every record, whatever the nodes' history in the pool
		c15Job{Name: "xml-union-in-array", Schema: `{` + h("xml") + `,"transform_declarations":{"FINAL_OUTPUT":{"xpath":"/r/o","object":{
  "u":{"array":[{"xpath":"a|b"}]},"v":{"array":[{"xpath":"b|a|c/a"}]},"w":{"array":[{"xpath":"*[self::b or self::a]"}]}}}}}`,
			Input: `<r><o><a>a1</a><b>b1</b><a>a2</a><b>b2</b><c><a>a3</a></c></o><o><a>a1</a><b>b1</b><a>a2</a><b>b2</b><c><a>a3</a></c></o><o><b>b1</b><a>a1</a></o></r>`},
		// a script that enumerates its object argument (JSON.stringify, Object.keys, for-in)
		c15Job{Name: "js-object-argument-enumerated", Schema: `{` + h("json") + `,"transform_declarations":{"FINAL_OUTPUT":{"xpath":"/*","object":{
  "a_json":{"custom_func":{"name":"javascript","args":[{"const":"JSON.stringify(o)"},{"const":"o"},{"template":"OBJ"}]}},
  "b_keys":{"custom_func":{"name":"javascript","args":[{"const":"Object.keys(o).join()"},{"const":"o"},{"template":"OBJ"}]}},
  "c_forin":{"custom_func":{"name":"javascript","args":[{"const":"var s = ''; for (var k in o.inner) { s += k + '=' + o.inner[k] + ';' }; s"},{"const":"o"},{"template":"OBJ"}]}},
  "d_list":{"custom_func":{"name":"javascript","args":[{"const":"JSON.stringify(l)"},{"const":"l"},{"array":[{"template":"OBJ"},{"xpath":"b"}]}]}},
  "e_args":{"custom_func":{"name":"javascript","args":[{"const":"Object.keys(this).join()"},{"const":"zeta"},{"xpath":"a"},{"const":"alpha"},{"xpath":"b"},{"const":"mid"},{"xpath":"c"},{"const":"k10"},{"xpath":"a"},{"const":"k9"},{"xpath":"b"},{"const":"b2"},{"xpath":"c"}]}}}},
 "OBJ":{"object":{"zeta":{"xpath":"a"},"alpha":{"xpath":"b"},"mid":{"xpath":"c"},"k10":{"xpath":"a"},"k9":{"xpath":"b"},"inner":{"object":{"y":{"xpath":"a"},"x":{"xpath":"b"},"w":{"xpath":"c"},"v":{"xpath":"a"}}}}}}}`,
			Input: `[{"a":"1","b":"2","c":"3"},{"a":"4","b":"5","c":"6"}]`},
		c15Job{Name: "upper-with-callers-extension", Schema: upperSchema, Input: "alice\nBOB\n", CustomUpper: true},
		c15Job{Name: "upper-with-builtin-extension", Schema: upperSchema, Input: "alice\nBOB\n"},
		// rows with an empty value: the argument is absent - "" for a string parameter, nil for interface{}
		c15Job{Name: "upper-any-with-callers-extension", Schema: upperSchema, Input: "alice\n\"\"\nBOB\n", CustomUpperAny: true},
		c15Job{Name: "upper-with-builtin-extension-absent-values", Schema: upperSchema, Input: "alice\n\"\"\nBOB\n"},
	)
	// typed external properties: the same schema text with different property values (a long-lived
	// process keeps ONE Schema object and creates a Transform per input)
	extSchema := `{` + h("csv") + `,"file_declaration":{"delimiter":",","data_row_index":1,"columns":[{"name":"A"}]},"transform_declarations":{"FINAL_OUTPUT":{"object":{"a":{"xpath":"A"},"n":{"external":"n","type":"int"},"f":{"external":"f","type":"float"},"b":{"external":"b","type":"boolean"},"s":{"external":"s"},"t":{"template":"T"}}},"T":{"external":"n","type":"int"}}}`
	jobs = append(jobs,
		c15Job{Name: "typed-externals/1", Schema: extSchema, Input: "x\ny\n", Ext: map[string]string{"n": "7", "f": "1.5", "b": "true", "s": "one"}},
		c15Job{Name: "typed-externals/2", Schema: extSchema, Input: "x\n", Ext: map[string]string{"n": "8", "f": "-2.25", "b": "false", "s": "two"}},
		c15Job{Name: "typed-externals/missing", Schema: extSchema, Input: "x\n", Ext: map[string]string{"f": "0", "b": "true", "s": ""}},
		// sibling object keys that share their last dotted part, all failing on the same record: the error
		// names the field evaluated first, so the evaluation order must not depend on map iteration
		c15Job{Name: "dotted-sibling-keys-failing-together", Schema: `{` + h("csv") + `,"file_declaration":{"delimiter":",","data_row_index":1,"columns":[{"name":"A"},{"name":"B"}]},"transform_declarations":{"FINAL_OUTPUT":{"object":{"billing.amount":{"xpath":"A","type":"int"},"shipping.amount":{"xpath":"B","type":"int"},"tax.amount":{"xpath":"A","type":"float"},"amount":{"xpath":"B","type":"float"},"a.b.amount":{"xpath":"A","type":"boolean"},"z":{"object":{"p.q":{"xpath":"B","type":"int"},"r.q":{"xpath":"A","type":"int"}}}}}}}`,
			Input: "1,2\nx,y\n3,z\nw,4\n"},
	)
	return jobs
}

// c15TZJobs: jobs run only in fresh processes, each under several process time zones (the TZ variable): the
// process's zone is not among (schema, input, externals). Values without a zone that fall into the hour a
// zone with daylight saving skips or repeats (New York 2021-03-14 / 2021-11-07, London 2021-03-28 / 2021-10-31,
// Lord Howe 2021-10-03), through the smart parser and through explicit layouts, with and without fromTZ / toTZ.
func c15TZJobs() []c15Job {
	h := `"parser_settings":{"version":"omni.2.1","file_format_type":"csv"}`
	return []c15Job{{Name: "tz/csv-datetime-in-skipped-and-repeated-hours", Schema: `{` + h + `,"file_declaration":{"delimiter":"|","data_row_index":1,"columns":[{"name":"D"},{"name":"TZ"}]},"transform_declarations":{"FINAL_OUTPUT":{"object":{` +
		`"smart":{"custom_func":{"name":"dateTimeToRFC3339","ignore_error":true,"args":[{"xpath":"D"},{"xpath":"TZ"},{"const":""}]}},` +
		`"smart_to":{"custom_func":{"name":"dateTimeToRFC3339","ignore_error":true,"args":[{"xpath":"D"},{"xpath":"TZ"},{"const":"Asia/Tokyo"}]}},` +
		`"layout":{"custom_func":{"name":"dateTimeLayoutToRFC3339","ignore_error":true,"args":[{"xpath":"D"},{"const":"2006-01-02 15:04:05"},{"const":"false"},{"xpath":"TZ"},{"const":""}]}},` +
		`"layout_to":{"custom_func":{"name":"dateTimeLayoutToRFC3339","ignore_error":true,"args":[{"xpath":"D"},{"const":"2006-01-02 15:04:05"},{"const":"false"},{"xpath":"TZ"},{"const":"Asia/Tokyo"}]}},` +
		`"epoch":{"custom_func":{"name":"dateTimeToEpoch","ignore_error":true,"args":[{"xpath":"D"},{"xpath":"TZ"},{"const":"SECOND"}]}},` +
		`"back":{"custom_func":{"name":"epochToDateTimeRFC3339","ignore_error":true,"args":[{"custom_func":{"name":"dateTimeToEpoch","args":[{"xpath":"D"},{"xpath":"TZ"},{"const":"SECOND"}]}},{"const":"SECOND"}]}}` +
		`}}}}`,
		Input: "2021-03-14 02:30:00|\n2021-03-14 02:30:00|America/New_York\n2021-03-14 02:30:00|UTC\n2021-11-07 01:30:00|\n2021-11-07 01:30:00|America/Chicago\n" +
			"2021-03-28 01:30:00|\n2021-10-31 01:30:00|\n2021-10-03 02:15:00|\n2021-10-03 02:15:00|Australia/Lord_Howe\n2021-07-01 12:00:00|\n1969-12-31 23:59:59|\n"}}
}

// c15ProbeJobs: what `mc c15probe <i>` indexes - the jobs of the histories, then the fresh-process-only jobs.
func c15ProbeJobs() []c15Job { return append(c15Jobs(), c15TZJobs()...) }

var c15Zones = []string{"UTC", "America/New_York", "Europe/London", "Australia/Lord_Howe"}

// c15TZCheck runs probe job i in one fresh process per zone of c15Zones (and one with the harness's own
// environment): all transcripts must be the same.
func c15TZCheck(i int, name string) (sig, detail string) {
	first, err := c15Fresh(i)
	if err != nil {
		return "harness:fresh-process", err.Error()
	}
	for _, z := range c15Zones {
		b, err := c15Fresh(i, "TZ="+z)
		if err != nil {
			return "harness:fresh-process", err.Error()
		}
		if d := c15Diff(b, first); d != "" {
			return "result-depends-on-the-time-zone-of-the-process:" + name, fmt.Sprintf("job %s in a fresh process with TZ=%s differs from the same job in a fresh process with the harness's environment (TZ=%q) at %s", name, z, os.Getenv("TZ"), d)
		}
	}
	return "", ""
}

// c15Schemas holds the Schema objects of the current process history when schema objects are reused.
var c15Schemas map[string]omniparser.Schema

func c15RunJob(j c15Job) []string {
	var schema omniparser.Schema
	key := fmt.Sprint(j.CustomUpper, j.CustomUpperAny) + j.Schema
	if s, ok := c15Schemas[key]; ok {
		schema = s
	} else {
		var exts []omniparser.Extension
		if j.CustomUpper {
			own := customfuncs.CustomFuncs{"upper": func(_ *transformctx.Ctx, s string) (string, error) {
				if s == "" {
					return s, nil
				}
				return strings.ToUpper(s[:1]) + s[1:], nil
			}}
			exts = append(exts, omniparser.Extension{CreateSchemaHandler: omniv21.CreateSchemaHandler,
				CustomFuncs: customfuncs.Merge(customfuncs.CommonCustomFuncs, v21cf.OmniV21CustomFuncs, own)})
		}
		if j.CustomUpperAny {
			own := customfuncs.CustomFuncs{"upper": func(_ *transformctx.Ctx, v interface{}) (string, error) {
				if v == nil {
					return "ABSENT", nil
				}
				return strings.ToUpper(fmt.Sprint(v)), nil
			}}
			exts = append(exts, omniparser.Extension{CreateSchemaHandler: omniv21.CreateSchemaHandler,
				CustomFuncs: customfuncs.Merge(customfuncs.CommonCustomFuncs, v21cf.OmniV21CustomFuncs, own)})
		}
		s, err, ps := hx.NewSchema("s", j.Schema, exts...)
		if err != nil {
			return []string{"SCHEMA ERROR " + err.Error() + ps}
		}
		schema = s
		if c15Schemas != nil {
			c15Schemas[key] = s
		}
	}
	r := hx.Run(schema, strings.NewReader(j.Input), hx.Opts{MaxReads: 500, Raw: true, Externals: j.Ext})
	var out []string
	if r.NewTransformErr != "" {
		out = append(out, "NEWTRANSFORM "+r.NewTransformErr)
	}
	for _, s := range r.Steps {
		out = append(out, s.String()+" raw="+s.Raw)
	}
	if r.PanicSite != "" {
		out = append(out, "PANIC "+r.PanicVal+" @ "+r.PanicSite)
	}
	return out
}

// C15Probe is the body of `mc c15probe <job index>`: run one job in a fresh process.
func C15Probe(i int) {
	jobs := c15ProbeJobs()
	if i < 0 || i >= len(jobs) {
		os.Exit(2)
	}
	b, _ := json.Marshal(c15RunJob(jobs[i]))
	os.Stdout.Write(b)
}

func c15Fresh(i int, env ...string) ([]string, error) {
	self, _ := os.Executable()
	cmd := exec.Command(self, "c15probe", fmt.Sprint(i))
	cmd.Env = append(append(os.Environ(), "GOMAXPROCS=2"), env...)
	b, err := cmd.Output()
	if err != nil {
		return nil, err
	}
	var out []string
	if err := json.Unmarshal(b, &out); err != nil {
		return nil, err
	}
	return out, nil
}

type c15Case struct {
	History []string `json:"history_of_earlier_jobs"`
	Probe   string   `json:"probe_job"`
	// ReuseSchemas: jobs of the history that have the same schema text share one Schema object
	ReuseSchemas bool `json:"reuse_schema_objects,omitempty"`
	// Zones: the case is "probe job in fresh processes under every zone of c15Zones" (no history)
	Zones bool `json:"fresh_process_per_time_zone,omitempty"`
}

var uuidRe = regexp.MustCompile(`[0-9a-f]{8}-[0-9a-f]{4}-[0-9a-f]{4}-[0-9a-f]{4}-[0-9a-f]{12}`)

func c15Diff(a, b []string) string {
	for i := 0; i < len(a) || i < len(b); i++ {
		var x, y string
		if i < len(a) {
			x = a[i]
		}
		if i < len(b) {
			y = b[i]
		}
		if x != y {
			return fmt.Sprintf("result %d:\n   here:     %s\n   baseline: %s", i, x, y)
		}
	}
	return ""
}

func c15Check(cs c15Case, base map[string][]string) (sig, detail string) {
	jobs := map[string]c15Job{}
	idxOf := map[string]int{}
	for i, j := range c15ProbeJobs() {
		jobs[j.Name] = j
		idxOf[j.Name] = i
	}
	if cs.Zones {
		if _, ok := idxOf[cs.Probe]; !ok {
			return "harness:bad-replay", "no job " + cs.Probe
		}
		return c15TZCheck(idxOf[cs.Probe], cs.Probe)
	}
	if base == nil {
		base = map[string][]string{}
		b, err := c15Fresh(idxOf[cs.Probe])
		if err != nil {
			return "harness:fresh-process", err.Error()
		}
		base[cs.Probe] = b
	}
	resetProcessState()
	c15Schemas = nil
	if cs.ReuseSchemas {
		c15Schemas = map[string]omniparser.Schema{}
	}
	defer func() { c15Schemas = nil }()
	for _, hname := range cs.History {
		c15RunJob(jobs[hname])
	}
	got := c15RunJob(jobs[cs.Probe])
	if d := c15Diff(got, base[cs.Probe]); d != "" {
		if cs.Probe == "js-changing-builtin-objects" {
			for _, hname := range cs.History {
				if hname == cs.Probe {
					// known finding: the probe's own earlier run changed Math / Array.prototype in a pooled VM
					return "js:pooled-vm-keeps-changes-to-builtin-objects", fmt.Sprintf("probe %s after history %v differs from its fresh-process run at %s", cs.Probe, cs.History, d)
				}
			}
		}
		return "history-dependent-output:" + cs.Probe, fmt.Sprintf("probe %s after history %v differs from its fresh-process run at %s", cs.Probe, cs.History, d)
	}
	return "", ""
}

// ---- checksums ----

type c15SumCase struct {
	Fmt  string `json:"format_item"`
	RecA string `json:"record_a"`
	RecB string `json:"record_b"`
}

// c15Variants: per format item of c17Formats a list of records; index 0 and 1 are equal in content.
func c15Variants() map[string][]string {
	return map[string][]string{
		"csv":               {"x,1\n", "x,1\n", "x,2\n", "y,1\n", "x,11\n", "x ,1\n"},
		"csv2-flat":         {"R,x,1\n", "R,x,1\n", "R,x,2\n", "R,y,1\n", "R,xx,1\n", "R,,1\n"},
		"csv2-nested":       {"H,x\nD,1\n", "H,x\nD,1\n", "H,x\nD,2\n", "H,y\nD,1\n", "H,x\nD,1\nD,1\n", "H,x\n"},
		"fixed-length-rows": {"xxxx\n11\n", "xxxx\n11\n", "xxxx\n12\n", "xxxy\n11\n", "xxx\n11\n", "xxxx\n1\n"},
		"fixedlength2-flat": {"Rxxxx11\n", "Rxxxx11\n", "Rxxxx12\n", "Rxxxy11\n", "Rxxx 11\n", "Rxxxx1\n"},
		"edi-flat":          {"A*x*1~", "A*x*1~", "A*x*2~", "A*y*1~", "A*xx*1~", "A**1~"},
		"edi-nested":        {"ST*x\nN1*1\nSE\n", "ST*x\nN1*1\nSE\n", "ST*x\nN1*2\nSE\n", "ST*y\nN1*1\nSE\n", "ST*x\nN1*1\nN1*1\nSE\n", "ST*x\nSE\n"},
		"json-array":        {`{"a":"x","b":[1,{"c":2}]},`, `{"a":"x","b":[1,{"c":2}]},`, `{"a":"x","b":[1,{"c":3}]},`, `{"a":"y","b":[1,{"c":2}]},`, `{"a":"x","b":[1,{"c":"2"}]},`, `{"a":"x","b":[[1],{"c":2}]},`, `{"a":"x","b":[1,{"c":2}],"d":null},`, `{"a":"x","b":{"":1}},`, `{"a":"x","b":[1]},`, `{"a":"x","b":1},`, `{"a":"x","b":"1"},`},
		"xml-basic":         {`<a k="x"><b>1</b><c/></a>`, `<a k="x"><b>1</b><c/></a>`, `<a k="x"><b>2</b><c/></a>`, `<a k="y"><b>1</b><c/></a>`, `<a k="x"><b>1</b><c>z</c></a>`, `<a k="x" j="1"><b>1</b><c/></a>`, `<a k="x"><b>1</b><c/><c/></a>`, `<a k="x"><b>1</b></a>`, `<a k="x">t1<b>1</b><c/></a>`, `<a k="x">t2<b>1</b><c/></a>`, `<a k="x"><b>1</b><c k="1"><d>1</d><d>2</d></c></a>`, `<a k="x"><b>1</b><c k="2"><d>1</d><d>2</d></c></a>`, `<a k="x"><b j="1">1</b><c/></a>`, `<a k="x"><b j="2">1</b><c/></a>`},
	}
}

func c15SameRefJ2(a, b string) bool {
	ja, ea := c15RefJ2(a)
	jb, eb := c15RefJ2(b)
	return ea == nil && eb == nil && ja == jb
}

func c15SumCheck(cs c15SumCase) (sig, detail string) {
	var f *c17Fmt
	for _, x := range c17Formats() {
		if x.Name == cs.Fmt {
			x := x
			f = &x
		}
	}
	if f == nil {
		return "harness:unknown-format", cs.Fmt
	}
	schema, err, _ := hx.NewSchema("s", f.Schema)
	if err != nil {
		return "harness:schema", err.Error()
	}
	run := func(rec string) (raw, sum string, ok bool) {
		r := hx.Run(schema, strings.NewReader(f.Prefix+rec+f.Suffix), hx.Opts{Raw: true})
		for _, s := range r.Steps {
			if s.Kind == "rec" {
				return s.Raw, s.Sum, true
			}
		}
		return "", "", false
	}
	ra, sa, oka := run(cs.RecA)
	rb, sb, okb := run(cs.RecB)
	if !oka || !okb {
		return "harness:no-record", fmt.Sprintf("%s: %q / %q delivered no record", cs.Fmt, cs.RecA, cs.RecB)
	}
	same := cs.RecA == cs.RecB
	switch {
	case same && sa != sb:
		return "equal-records-different-checksums:" + cs.Fmt, fmt.Sprintf("%q twice: %s vs %s (raw %s / %s)", cs.RecA, sa, sb, ra, rb)
	case !same && sa == sb && strings.HasPrefix(cs.Fmt, "xml") && c15SameRefJ2(cs.RecA, cs.RecB):
		// the JSON rendering the checksum is computed from is documented not to carry the difference
		return "xml-canonical-json-drops-mixed-text-and-array-element-attributes", fmt.Sprintf("%q and %q have the same canonical JSON %s, hence the same checksum %s", cs.RecA, cs.RecB, ra, sa)
	case !same && sa == sb:
		return "different-records-same-checksum:" + cs.Fmt, fmt.Sprintf("%q and %q both give %s (raw %s / %s)", cs.RecA, cs.RecB, sa, ra, rb)
	}
	return "", ""
}

// c15RefJ2 is the rendering of an XML record as JSON the way idr/marshal2.go documents it, written
// down independently from the record's text (encoding/xml tokens): an element with character data
// and no child elements is its text (attributes not rendered); an element with two or more child
// elements that all have one name is the list of their renderings (the name, the element's
// attributes and its character data are not rendered); any other element is an object of its child
// elements by name (a repeated name gives a list) plus "#attributes" (character data next to child
// elements is not rendered). Those omissions are the known finding; whatever else two different
// records may share, it is not this rendering.
func c15RefJ2(rec string) (string, error) {
	type el struct {
		name  string
		attrs [][2]string
		kids  []*el
		text  []string
		elems int
	}
	dec := xml.NewDecoder(strings.NewReader(rec))
	root := &el{}
	stack := []*el{root}
	for {
		tok, err := dec.Token()
		if err == io.EOF {
			break
		}
		if err != nil {
			return "", err
		}
		top := stack[len(stack)-1]
		switch t := tok.(type) {
		case xml.StartElement:
			e := &el{name: t.Name.Local}
			for _, a := range t.Attr {
				e.attrs = append(e.attrs, [2]string{a.Name.Local, a.Value})
			}
			top.kids = append(top.kids, e)
			top.elems++
			stack = append(stack, e)
		case xml.EndElement:
			stack = stack[:len(stack)-1]
		case xml.CharData:
			top.text = append(top.text, string(t))
		}
	}
	var inner func(e *el) string
	inner = func(e *el) string { // (records of the families have no mixed content below a text-only element)
		return strings.Join(e.text, "")
	}
	var conv func(e *el) interface{}
	conv = func(e *el) interface{} {
		if len(e.text) > 0 && e.elems == 0 {
			return inner(e)
		}
		sameName := e.elems > 1
		for _, k := range e.kids {
			if k.name != e.kids[0].name {
				sameName = false
			}
		}
		if sameName {
			arr := []interface{}{}
			for _, k := range e.kids {
				arr = append(arr, conv(k))
			}
			return arr
		}
		obj := map[string]interface{}{}
		isArr := map[string]bool{}
		for _, k := range e.kids {
			v := conv(k)
			if prev, found := obj[k.name]; found {
				if isArr[k.name] {
					obj[k.name] = append(prev.([]interface{}), v)
				} else {
					obj[k.name] = []interface{}{prev, v}
					isArr[k.name] = true
				}
			} else {
				obj[k.name] = v
			}
		}
		if len(e.attrs) > 0 {
			at := map[string]interface{}{}
			for _, a := range e.attrs {
				at[a[0]] = a[1]
			}
			obj["#attributes"] = at
		}
		return obj
	}
	if len(root.kids) != 1 {
		return "", fmt.Errorf("not one record: %s", rec)
	}
	b, err := json.Marshal(conv(root.kids[0]))
	return string(b), err
}

// ---- checksums of XML records of every small shape ----

// c15XMLShapes enumerates records <a>...</a> with up to n elements below <a>, names {e,x}, an element
// having either children or a text out of {"", 1, 2} (no attributes, no mixed content: what the known
// finding is about stays out). canon is the record's content up to the order of differently named
// siblings: text, or name -> the children of that name in document order.
func c15XMLShapes(n int, visit func(doc, canon string)) {
	names := []string{"e", "x"}
	texts := []string{"", "1", "2"}
	for total := 1; total <= n+1; total++ {
		gen.Shapes(total, 4, func(parent []int) bool {
			kids := make([][]int, total)
			for i := 1; i < total; i++ {
				kids[parent[i]] = append(kids[parent[i]], i)
			}
			radix := make([]int, total)
			for i := range radix {
				radix[i] = len(names) * len(texts)
			}
			radix[0] = len(texts)
			gen.Counter(radix, func(d []int) bool {
				valid := true
				var render func(i int) (string, string)
				render = func(i int) (string, string) {
					name, text := "a", texts[d[i]%len(texts)]
					if i > 0 {
						name = names[d[i]/len(texts)]
					}
					if len(kids[i]) == 0 {
						return "<" + name + ">" + text + "</" + name + ">", fmt.Sprintf("%q", text)
					}
					if text != "" {
						valid = false // (one rendering per shape: inner elements carry no text)
					}
					var doc strings.Builder
					by := map[string][]string{}
					doc.WriteString("<" + name + ">")
					for _, k := range kids[i] {
						kd, kc := render(k)
						doc.WriteString(kd)
						kn := names[d[k]/len(texts)]
						by[kn] = append(by[kn], kc)
					}
					doc.WriteString("</" + name + ">")
					var ks []string
					for k := range by {
						ks = append(ks, k)
					}
					sort.Strings(ks)
					var c strings.Builder
					c.WriteString("{")
					for _, k := range ks {
						c.WriteString(k + ":[" + strings.Join(by[k], ",") + "]")
					}
					c.WriteString("}")
					return doc.String(), c.String()
				}
				doc, canon := render(0)
				if valid {
					visit(doc, canon)
				}
				return true
			})
			return true
		})
	}
}

// c15XMLShapeCheck transforms all the records in one document and groups them by checksum: records
// whose content differs must not share one.
func c15XMLShapeCheck(n int) (records, known int, sig, detail string, pair *c15SumCase) {
	var f *c17Fmt
	for _, x := range c17Formats() {
		if x.Name == "xml-basic" {
			x := x
			f = &x
		}
	}
	schema, err, _ := hx.NewSchema("s", f.Schema)
	if err != nil {
		return 0, 0, "harness:schema", err.Error(), nil
	}
	var docs, canons []string
	c15XMLShapes(n, func(doc, canon string) {
		docs = append(docs, `<a k="x">`+strings.TrimPrefix(doc, "<a>"))
		canons = append(canons, canon)
	})
	r := hx.Run(schema, strings.NewReader(f.Prefix+strings.Join(docs, "")+f.Suffix), hx.Opts{Raw: true, MaxReads: len(docs) + 10})
	var sums []string
	for _, st := range r.Steps {
		if st.Kind == "rec" || st.Kind == "fail" {
			sums = append(sums, st.Sum)
		}
	}
	if len(sums) != len(docs) {
		return len(docs), 0, "harness:record-count", fmt.Sprintf("%d records in, %d results out", len(docs), len(sums)), nil
	}
	first := map[string]int{}
	for i, s := range sums {
		if s == "" {
			continue
		}
		if j, seen := first[s]; seen {
			if canons[j] != canons[i] && !c15SameRefJ2(docs[j], docs[i]) {
				pair := &c15SumCase{Fmt: "xml-basic", RecA: docs[j], RecB: docs[i]}
				if sig, detail := c15SumCheck(*pair); sig != "" { // (the pair on its own, as the replay runs it)
					return len(docs), known, sig, detail, pair
				}
				return len(docs), known, "harness:not-reproducible", fmt.Sprintf("%s and %s shared the checksum %s in the long document, but not when transformed alone", docs[j], docs[i], s), pair
			}
			if canons[j] != canons[i] {
				known++ // only the common name of same-named children differs: the documented rendering
			}
		} else {
			first[s] = i
		}
	}
	return len(docs), known, "", "", nil
}

func init() {
	core.Register(&core.Prop{
		ID:    "C15",
		Level: "exploration",
		Rule:  "jobs = 19 (schema, input, externals) triples covering all seven formats, templates, xpath_dynamic, javascript(_with_context), copy, uuidv3, date-time functions, XML namespaces incl. one URI bound twice, typed external properties (one schema text, three property sets), dotted sibling object keys failing together, a script that throws while holding arguments and one that looks for globals it was not given, the same schema under the built-in extension, under a caller's extension that overrides 'upper', and under one that binds 'upper' to another SIGNATURE (interface{} parameter, rows with absent values); histories are run both with every job parsing its schema anew and with jobs of equal schema text sharing ONE Schema object; every history of up to 2 (thorough 3) earlier jobs followed by a probe job is run in one process (pools and caches warm, ID counter advanced; state reset only between histories) and the probe's full transcript (bytes, checksums, raw records, errors) must equal the transcript of the same job in a FRESH process (3 fresh subprocesses per job, which must also agree with each other); no emitted record may contain a UUID-shaped string that is not in the input (declaration hashes are UUIDs); checksums: every pair from a per-format record alphabet (equal content, one value changed, shape changed) must have equal checksums iff the records are equal; the same long inputs of multi-line records (5 items) handed over at once and in pieces of 1000 / 100 / 7 bytes give the same transcript; every XML record of up to 5 (thorough 6) elements over two names and three texts (no attributes, no mixed content), all in one document: records of different content (up to the order of differently named siblings) never share a checksum; distinct by (history, probe) / (format, record pair); every job (and one more with zone-less date-times in the hours New York / London / Lord Howe skip or repeat, through the smart parser and an explicit layout, with and without fromTZ / toTZ, epoch and back) also runs in a fresh process under TZ=UTC, America/New_York, Europe/London, Australia/Lord_Howe: all transcripts equal (the process time zone is not among schema, input, externals); further jobs: scripts with top-level declarations, scripts changing the global object / builtin objects (known finding), script enumerating an object argument, union xpath in an array, data-driven call depth",
		Assumptions: []string{
			"Go map iteration order cannot be enumerated: order dependence is exposed only through repetition (every probe runs at least 100 times across histories), which is stated here rather than claimed exhaustive",
			"the `now` function and scripts drawing randomness are excluded by the property",
		},
		BudgetQuick: 400,
		Run: func(c *core.Ctx) {
			jobs := c15Jobs()
			base := map[string][]string{}
			for i, j := range jobs {
				var first []string
				for k := 0; k < 3; k++ {
					b, err := c15Fresh(i)
					if err != nil {
						c.HarnessError("fresh process for job " + j.Name + ": " + err.Error())
						return
					}
					if k == 0 {
						first = b
					} else if d := c15Diff(b, first); d != "" && c.Shard == 0 {
						c.Violation("fresh-processes-disagree:"+j.Name, "two fresh processes running "+j.Name+" differ at "+d, c15Case{Probe: j.Name}, nil)
					}
				}
				base[j.Name] = first
				if c.Shard == 0 {
					for _, line := range first {
						if strings.HasPrefix(line, "rec ") {
							body := line[:strings.Index(line+" #", " #")]
							for _, u := range uuidRe.FindAllString(body, -1) {
								if !strings.Contains(j.Input, u) && !strings.Contains(j.Name, "namespaces") {
									c.Violation("uuid-in-emitted-record:"+j.Name, "record contains "+u+": "+line, c15Case{Probe: j.Name}, nil)
								}
							}
						}
					}
				}
			}
			depth := 2
			if !c.Quick() {
				depth = 3
			}
			idx := 0
			gen.Sequences(len(jobs), depth, func(h []int) bool {
				for p := range jobs {
					idx++
					if !c.Mine(idx) {
						continue
					}
					for _, reuse := range []bool{false, true} {
						cs := c15Case{Probe: jobs[p].Name, ReuseSchemas: reuse}
						for _, x := range h {
							cs.History = append(cs.History, jobs[x].Name)
						}
						if reuse {
							// only histories in which some schema text occurs twice differ from the re-parsed run
							seen, dup := map[string]bool{jobs[p].Schema: true}, false
							for _, x := range h {
								if seen[jobs[x].Schema] {
									dup = true
								}
								seen[jobs[x].Schema] = true
							}
							if !dup {
								continue
							}
						}
						c.Begin(func() interface{} { return cs })
						sig, detail := c15Check(cs, base)
						c.Eval(fmt.Sprintf("%v|%s|%v", h, cs.Probe, reuse))
						c.Count("histories", 1)
						if strings.HasPrefix(sig, "harness:") {
							c.HarnessError(sig + ": " + detail)
						} else if sig != "" {
							c.Violation(sig, detail, cs, func() string { s, _ := c15Check(cs, base); return s })
						} else if c.WantSample() && len(h) == depth && idx%101 == 0 {
							c.Sample(map[string]interface{}{"history": cs.History, "probe": cs.Probe, "reuse_schema_objects": reuse, "probe_results": len(base[cs.Probe])})
						}
					}
				}
				return !c.TimeUp()
			})
			// every job in a fresh process per process time zone
			for i, j := range c15ProbeJobs() {
				idx++
				if !c.Mine(idx) {
					continue
				}
				cs := c15Case{Probe: j.Name, Zones: true}
				c.Begin(func() interface{} { return cs })
				sig, detail := c15TZCheck(i, j.Name)
				c.Eval("tz|" + j.Name)
				c.Count("jobs_run_in_a_fresh_process_per_time_zone", 1)
				c.Count("fresh_processes_with_a_time_zone", int64(len(c15Zones)))
				c.Alive()
				if strings.HasPrefix(sig, "harness:") {
					c.HarnessError(sig + ": " + detail)
				} else if sig != "" {
					c.Violation(sig, detail, cs, func() string { s, _ := c15TZCheck(i, j.Name); return s })
				}
			}
			// checksums
			for name, recs := range c15Variants() {
				for i := range recs {
					for j := i + 1; j < len(recs); j++ {
						idx++
						if !c.Mine(idx) {
							continue
						}
						cs := c15SumCase{Fmt: name, RecA: recs[i], RecB: recs[j]}
						c.Begin(func() interface{} { return cs })
						sig, detail := c15SumCheck(cs)
						c.Eval("sum|" + name + fmt.Sprint(i, j))
						c.Count("checksum_pairs", 1)
						if strings.HasPrefix(sig, "harness:") {
							c.HarnessError(sig + ": " + detail)
						} else if sig != "" {
							c.Violation(sig, detail, map[string]interface{}{"checksum": cs}, func() string { s, _ := c15SumCheck(cs); return s })
						}
					}
				}
			}
			// the same input bytes handed over differently (all at once, in pieces of 1000, 100, 7 bytes):
			// long inputs of multi-line records, whose reader buffers fill up at different places
			{
				items := c09Long()
				// 3-line records with empty lines inside the records
				var b strings.Builder
				for i := 0; b.Len() < 3*4096+500; i++ {
					fmt.Fprintf(&b, "a%02d-%s\n", i%100, strings.Repeat("x", i%17))
					if i%3 == 1 {
						b.WriteString("\n")
					}
					fmt.Fprintf(&b, "b%02d-%s\r\n", i%100, strings.Repeat("y", i%13))
					if i%4 == 2 {
						b.WriteString("\r\n")
					}
					fmt.Fprintf(&b, "c%02d-%s\n", i%100, strings.Repeat("z", i%7))
				}
				items = append(items, c09Item{Name: "c09/fixedlength2-rows3+empty-lines-inside", Schema: items[0].Schema, Inputs: [][]byte{[]byte(b.String())}})
				for _, it := range items {
					idx++
					if !c.Mine(idx) {
						continue
					}
					for _, in := range it.Inputs {
						c.Begin(func() interface{} {
							return map[string]interface{}{"delivery": map[string]interface{}{"item": it.Name, "schema": it.Schema, "input": string(in)}}
						})
						whole := c18Run1(it.Schema, in)
						for _, size := range []int{1000, 100, 7} {
							pieces := c18RunPieces(it.Schema, in, []int{size})
							c.Eval("delivery|" + it.Name)
							c.Count("delivery_runs", 1)
							if whole.NewTransformErr != pieces.NewTransformErr || !hx.SameSteps(whole.Steps, pieces.Steps) {
								c.Violation("result-depends-on-how-the-input-bytes-are-handed-over:"+it.Name,
									fmt.Sprintf("%s, %d bytes of input: read at once and in pieces of %d bytes give different results\n-- at once:\n%s\n-- in pieces:\n%s", it.Name, len(in), size,
										trunc2(hx.Transcript(whole.Steps), 1500), trunc2(hx.Transcript(pieces.Steps), 1500)),
									map[string]interface{}{"delivery": map[string]interface{}{"item": it.Name, "schema": it.Schema, "input": string(in), "piece_size": size}}, nil)
								break
							}
						}
					}
				}
			}
			// checksums of XML records of every small shape
			idx++
			if c.Mine(idx) {
				n := 5
				if !c.Quick() {
					n = 6
				}
				c.Begin(func() interface{} { return map[string]interface{}{"xml_record_shapes_up_to": n} })
				recs, known, sig, detail, pair := c15XMLShapeCheck(n)
				c.Count("xml_record_shapes_checksummed", int64(recs))
				c.Count("xml_record_shapes_sharing_a_checksum_by_the_documented_rendering", int64(known))
				c.Eval("sum|xml-record-shapes")
				if strings.HasPrefix(sig, "harness:") {
					c.HarnessError(sig + ": " + detail)
				} else if sig != "" {
					c.Violation(sig, detail, map[string]interface{}{"checksum": pair}, func() string { s, _ := c15SumCheck(*pair); return s })
				}
			}
		},
		Replay: func(raw json.RawMessage) (string, string) {
			var w struct {
				Checksum *c15SumCase `json:"checksum"`
				Delivery *struct {
					Item   string `json:"item"`
					Schema string `json:"schema"`
					Input  string `json:"input"`
					Size   int    `json:"piece_size"`
				} `json:"delivery"`
			}
			json.Unmarshal(raw, &w)
			if w.Delivery != nil {
				whole := c18Run1(w.Delivery.Schema, []byte(w.Delivery.Input))
				pieces := c18RunPieces(w.Delivery.Schema, []byte(w.Delivery.Input), []int{w.Delivery.Size})
				if whole.NewTransformErr != pieces.NewTransformErr || !hx.SameSteps(whole.Steps, pieces.Steps) {
					return "result-depends-on-how-the-input-bytes-are-handed-over:" + w.Delivery.Item, "read at once and in pieces give different results"
				}
				return "", "same transcript however the bytes are handed over"
			}
			if w.Checksum != nil {
				sig, detail := c15SumCheck(*w.Checksum)
				if sig == "" {
					detail = "checksums behave"
				}
				return sig, detail
			}
			var cs c15Case
			if err := json.Unmarshal(raw, &cs); err != nil {
				return "harness:bad-replay", err.Error()
			}
			sig, detail := c15Check(cs, nil)
			if sig == "" {
				detail = "probe equals its fresh-process run"
			}
			return sig, detail
		},
	})
}
