package props

import (
	"fmt"

	"github.com/jf-tech/omniparser/idr"

	"verif/mc/vsync"
)

// nodePool returns the shim pool behind idr's node pool.
func nodePool() *vsync.Pool {
	p, _ := idr.VerifNodePool().(*vsync.Pool)
	return p
}

// auditTree checks the structural invariants of the whole tree containing n: parent / first /
// last / prev / next links mutually consistent, acyclic, every node reachable once, no node of
// the tree sitting in the pool. It returns "" or a description of the first problem.
func auditTree(n *idr.Node) string {
	if n == nil {
		return "nil node"
	}
	root := n
	for steps := 0; root.Parent != nil; steps++ {
		if steps > 100000 {
			return "parent chain does not end (cycle)"
		}
		root = root.Parent
	}
	pool := nodePool()
	seen := map[*idr.Node]bool{}
	ids := map[int64]*idr.Node{}
	var walk func(x *idr.Node, depth int) string
	walk = func(x *idr.Node, depth int) string {
		if seen[x] {
			return fmt.Sprintf("node %q (id %d) is reachable twice", x.Data, x.ID)
		}
		if depth > 10000 {
			return "tree deeper than 10000 (cycle)"
		}
		seen[x] = true
		if o, dup := ids[x.ID]; dup && o != x {
			return fmt.Sprintf("two nodes of one tree share ID %d", x.ID)
		}
		ids[x.ID] = x
		if pool != nil && pool.Contains(x) {
			return fmt.Sprintf("node %q (id %d) is in the pool while still reachable from a live tree", x.Data, x.ID)
		}
		if (x.FirstChild == nil) != (x.LastChild == nil) {
			return fmt.Sprintf("node %q: FirstChild/LastChild disagree about having children", x.Data)
		}
		var prev *idr.Node
		count := 0
		for c := x.FirstChild; c != nil; c = c.NextSibling {
			count++
			if count > 1000000 {
				return "sibling chain does not end (cycle)"
			}
			if c.Parent != x {
				return fmt.Sprintf("node %q lists child %q whose Parent is not that node", x.Data, c.Data)
			}
			if c.PrevSibling != prev {
				return fmt.Sprintf("child %q of %q has a wrong PrevSibling", c.Data, x.Data)
			}
			if e := walk(c, depth+1); e != "" {
				return e
			}
			prev = c
		}
		if x.LastChild != prev {
			return fmt.Sprintf("node %q: LastChild is not the end of the child list", x.Data)
		}
		return ""
	}
	if root.PrevSibling != nil || root.NextSibling != nil {
		return "root node has siblings"
	}
	return walk(root, 0)
}
