package props

import (
	"encoding/json"
	"fmt"
	"strings"

	v21cf "github.com/jf-tech/omniparser/extensions/omniv21/customfuncs"
	"github.com/jf-tech/omniparser/idr"

	"verif/mc/core"
	"verif/mc/gen"
	"verif/mc/vsync"
)

// C20 — JavaScript calls are isolated from each other and map values faithfully: call-history
// enumeration on pooled VMs (pool answer reuse / fresh) and schedule exploration of two threads.

type jsCall struct {
	Name string        `json:"name"`
	JS   string        `json:"js,omitempty"`
	Args []interface{} `json:"args,omitempty"`
	Ctx  string        `json:"ctx,omitempty"`  // "", "rec", "root"; "newrec" = world step, no call
	Want string        `json:"want,omitempty"` // expected JSON of the result, or "ERROR"
}

func c20Alphabet() []jsCall {
	return []jsCall{
		{Name: "a+1", JS: "a+1", Args: []interface{}{"a", int64(1)}, Want: "2"},
		{Name: "typeof-a-unset", JS: "typeof a", Want: `"undefined"`},
		{Name: "typeof-a-string", JS: "typeof a", Args: []interface{}{"a", "s"}, Want: `"string"`},
		{Name: "a+b", JS: "a+b", Args: []interface{}{"a", 1.5, "b", true}, Want: "2.5"},
		{Name: "arg-named-JSON", JS: "typeof JSON", Args: []interface{}{"JSON", "x"}, Want: `"string"`},
		{Name: "JSON.stringify", JS: "JSON.stringify([1])", Want: `"[1]"`},
		{Name: "array", JS: "[1,'a',true,[2]]", Want: `[1,"a",true,[2]]`},
		{Name: "object", JS: "({k:1,n:{m:[2]}})", Want: `{"k":1,"n":{"m":[2]}}`},
		{Name: "string", JS: "'str' + b", Args: []interface{}{"b", "é"}, Want: `"stré"`},
		{Name: "boolean", JS: "!b", Args: []interface{}{"b", false}, Want: "true"},
		{Name: "float", JS: "b/2", Args: []interface{}{"b", int64(3)}, Want: "1.5"},
		{Name: "NaN", JS: "0/0", Want: "ERROR"},
		{Name: "Infinity", JS: "1/0", Want: "ERROR"},
		{Name: "null", JS: "null", Want: "ERROR"},
		{Name: "undefined", JS: "undefined", Want: "ERROR"},
		{Name: "throw-with-arg", JS: "throw 'x' + a", Args: []interface{}{"a", "leak", "secret", "s3"}, Want: "ERROR"},
		{Name: "typeof-secret", JS: "typeof secret", Want: `"undefined"`},
		{Name: "syntax-error", JS: "a +", Args: []interface{}{"a", int64(1)}, Want: "ERROR"},
		{Name: "odd-args", JS: "1", Args: []interface{}{"a"}, Want: "ERROR"},
		{Name: "iife-local", JS: "(function(){ var t = 5; return t + (typeof a) })()", Want: `"5undefined"`},
		{Name: "literal-narrow", JS: "a + ' | ' + a", Args: []interface{}{"a", "x"}, Want: `"x | x"`},
		{Name: "literal-wide", JS: "a + '   |   ' + a", Args: []interface{}{"a", "x"}, Want: `"x   |   x"`},
		{Name: "comment-then-newline", JS: "a // c\n + 1", Args: []interface{}{"a", int64(1)}, Want: "2"},
		{Name: "comment-to-end", JS: "a // c + 1", Args: []interface{}{"a", int64(1)}, Want: "1"},
		{Name: "newrec", Ctx: "newrec"},
		{Name: "ctx-rec", JS: "JSON.parse(_node).v", Ctx: "rec"},
		{Name: "ctx-rec-with-arg", JS: "JSON.parse(_node).v + a", Args: []interface{}{"a", "!"}, Ctx: "rec"},
		{Name: "ctx-root", JS: "_node", Ctx: "root"},
		{Name: "typeof-_node-without-context", JS: "typeof _node", Want: `"undefined"`},
	}
}

type jsWorld struct {
	root, cur *idr.Node
	serial    int
}

func (w *jsWorld) newrec() {
	if w.root == nil {
		w.root = idr.CreateNode(idr.ElementNode, "R")
	}
	if w.cur != nil {
		idr.RemoveAndReleaseTree(w.cur)
	}
	w.serial++
	rec := idr.CreateNode(idr.ElementNode, "rec")
	v := idr.CreateNode(idr.ElementNode, "v")
	idr.AddChild(v, idr.CreateNode(idr.TextNode, fmt.Sprint(w.serial)))
	idr.AddChild(rec, v)
	idr.AddChild(w.root, rec)
	w.cur = rec
}

func jsResult(v interface{}, err error) string {
	if err != nil {
		return "ERROR"
	}
	b, e := json.Marshal(v)
	if e != nil {
		return "UNMARSHALABLE " + e.Error()
	}
	return string(b)
}

// invoke performs one call in the world; ok=false means the call is not applicable (no node yet).
func (w *jsWorld) invoke(c jsCall) (res string, applicable bool) {
	switch c.Ctx {
	case "newrec":
		w.newrec()
		return "", false
	case "rec":
		if w.cur == nil {
			return "", false
		}
		return jsResult(v21cf.JavaScriptWithContext(nil, w.cur, c.JS, c.Args...)), true
	case "root":
		if w.root == nil {
			return "", false
		}
		return jsResult(v21cf.JavaScriptWithContext(nil, w.root, c.JS, c.Args...)), true
	}
	return jsResult(v21cf.JavaScript(nil, c.JS, c.Args...)), true
}

// reference: the same call on a fresh VM with every cache disabled (it touches neither the VM pool
// nor the caches, so it can be evaluated in place).
func (w *jsWorld) reference(c jsCall) string {
	old := v21cf.VerifSetDisableCaching(true)
	defer v21cf.VerifSetDisableCaching(old)
	r, _ := w.invoke(c)
	return r
}

type c20Case struct {
	History []string   `json:"call_history"`
	Pool    []int      `json:"vm_pool_answers"` // per VM-pool Get with a VM available: 0 reuse, 1 fresh
	Threads [][]string `json:"threads,omitempty"`
	Sched   []int      `json:"schedule,omitempty"`
}

func c20ByName() map[string]jsCall {
	m := map[string]jsCall{}
	for _, c := range c20Alphabet() {
		m[c.Name] = c
	}
	return m
}

func c20RunHistory(names []string, x *core.Exec) (sig, detail string, outcomes []string) {
	resetProcessState()
	vmPool, _ := v21cf.VerifRuntimePool().(*vsync.Pool)
	vsync.PoolChoice = func(p *vsync.Pool, avail int) int {
		if p == vmPool {
			return x.Choose(2, false)
		}
		return 0
	}
	defer func() { vsync.PoolChoice = nil }()
	by := c20ByName()
	w := &jsWorld{}
	w.newrec() // the world starts with a root and one record
	for i, n := range names {
		c := by[n]
		var got string
		var app bool
		pv, site := core.Safe(func() { got, app = w.invoke(c) })
		if pv != nil {
			return "panic:" + site, fmt.Sprintf("history %v call %d (%s): %v", names, i, n, pv), outcomes
		}
		if !app {
			continue
		}
		outcomes = append(outcomes, got)
		want := c.Want
		ref := w.reference(c)
		if want == "" {
			want = ref
		}
		if ref != want {
			return "harness:expectation-table", fmt.Sprintf("call %s: table says %s, isolated call gives %s", n, want, ref), outcomes
		}
		if got != want {
			kind := "call-sees-earlier-call"
			switch {
			case c.Ctx == "root":
				kind = "stale-_node-of-node-changed-since-first-use"
			case c.Ctx == "rec":
				kind = "stale-_node-of-record"
			case want == "ERROR":
				kind = "error-value-let-through"
			case i == 0 || len(outcomes) == 1:
				kind = "wrong-value-mapping"
			}
			// an argument named like a built-in shadowing it for later calls
			if strings.Contains(strings.Join(names[:i], ","), "arg-named-JSON") && n == "JSON.stringify" {
				kind = "builtin-deleted-after-being-used-as-argument-name"
			}
			return kind, fmt.Sprintf("history %v (VM pool answers %v): call %d %s %q args %v returned %s, expected %s", names, x.Choices(), i, n, c.JS, c.Args, got, want), outcomes
		}
	}
	return "", "", outcomes
}

func c20RunThreads(threads [][]string, x *core.Exec) (sig, detail string) {
	resetProcessState()
	by := c20ByName()
	var problems []string
	var bodies []func()
	for ti, prog := range threads {
		ti, prog := ti, prog
		bodies = append(bodies, func() {
			w := &jsWorld{}
			w.newrec()
			for _, n := range prog {
				c := by[n]
				got, app := w.invoke(c)
				if !app {
					continue
				}
				want := c.Want
				if want == "" {
					want = w.reference(c)
				}
				if got != want {
					problems = append(problems, fmt.Sprintf("thread %d call %s returned %s, expected %s", ti, n, got, want))
				}
			}
		})
	}
	ps, dl := vsync.RunThreads(x.Choose, bodies)
	for _, p := range ps {
		if p != nil {
			return "E2:panic:" + core.PanicSite(p.Stack), fmt.Sprintf("threads %v schedule %v: thread %d: %v", threads, x.Choices(), p.Thread, p.Value)
		}
	}
	if dl {
		return "E2:deadlock", fmt.Sprintf("threads %v schedule %v", threads, x.Choices())
	}
	if len(problems) > 0 {
		return "E2:cross-talk-between-concurrent-calls", fmt.Sprintf("threads %v schedule %v: %v", threads, x.Choices(), problems)
	}
	return "", ""
}

func init() {
	core.Register(&core.Prop{
		ID:    "C20",
		Level: "model_checking",
		Rule:  "E1: every history of up to 3 (thorough 4) calls over a 29-symbol alphabet (arguments of every kind, argument named like a built-in, all result kinds, NaN/Infinity/null/undefined/throw/syntax error/odd argument count, IIFE locals, javascript_with_context on the record node, on an ancestor whose children change, and after the record node was released and re-acquired) x every VM-pool answer (reuse/fresh) at every Get; every call's result must equal the same call made in isolation on a fresh VM with all caches disabled, and the expected value of a table (states = distinct (history prefix) outcome vectors, transitions = calls). E2: two threads x two calls from the alphabet under the cooperative scheduler (yield at every VM-pool / cache operation), all schedules with <= 2 preemptions; plus a free-running -race pass",
		Assumptions: []string{
			"scripts that assign globals themselves are excluded by the property; top-level scripts of the alphabet are pure expressions or IIFEs",
			"the isolated reference call uses the library's own 'caching disabled' path (fresh goja VM, no program / node-JSON cache)",
		},
		BudgetQuick: 100, BudgetThorough: 1500,
		Run: func(c *core.Ctx) {
			alpha := c20Alphabet()
			depth := 3
			if !c.Quick() {
				depth = 4
			}
			idx := 0
			gen.Sequences(len(alpha), depth, func(seq []int) bool {
				if len(seq) == 0 {
					return true
				}
				idx++
				if !c.Mine(idx) {
					return true
				}
				names := make([]string, len(seq))
				for i, s := range seq {
					names[i] = alpha[s].Name
				}
				var sig, detail string
				var outs []string
				core.Explore(len(seq), 0, 1, 0, func(x *core.Exec) {
					c.Begin(func() interface{} { return c20Case{History: names, Pool: x.Choices()} })
					sig, detail, outs = c20RunHistory(names, x)
				}, func(x *core.Exec) bool {
					c.Eval(strings.Join(outs, "|"))
					c.Count("transitions", int64(len(names)))
					c.Count("traces_validated_against_impl", 1)
					c.Member("states", strings.Join(names, ",")+fmt.Sprint(x.Choices()))
					if strings.HasPrefix(sig, "harness:") {
						c.HarnessError(sig + ": " + detail)
					} else if sig != "" {
						cs := c20Case{History: names, Pool: x.Choices()}
						c.Violation(sig, detail, cs, func() string {
							s, _, _ := c20RunHistory(cs.History, &core.Exec{Prefix: cs.Pool})
							return s
						})
					} else if c.WantSample() && len(names) == depth && idx%997 == 0 {
						c.Sample(map[string]interface{}{"history": names, "vm_pool_answers": x.Choices(), "results": outs})
					}
					return true
				})
				return idx%64 != 0 || !c.TimeUp()
			})
			// E2
			pairs := [][][]string{
				{{"a+1", "typeof-a-unset"}, {"typeof-a-string", "typeof-secret"}},
				{{"throw-with-arg", "typeof-a-unset"}, {"a+b", "JSON.stringify"}},
				{{"newrec", "ctx-rec", "newrec", "ctx-rec"}, {"newrec", "ctx-rec-with-arg", "typeof-_node-without-context"}},
				{{"object", "array"}, {"string", "float"}},
			}
			if !c.Quick() {
				pairs = append(pairs, [][]string{{"a+1", "typeof-a-unset"}, {"typeof-a-string", "typeof-secret"}, {"a+b", "typeof-a-unset"}})
			}
			for pi, threads := range pairs {
				var sig, detail string
				st := core.Explore(2, c.Shard, c.NShards, 0, func(x *core.Exec) {
					c.Begin(func() interface{} { return c20Case{Threads: threads, Sched: x.Choices()} })
					sig, detail = c20RunThreads(threads, x)
				}, func(x *core.Exec) bool {
					c.Eval(fmt.Sprintf("E2|%d|%d", pi, len(x.Points)))
					if sig != "" {
						cs := c20Case{Threads: threads, Sched: x.Choices()}
						c.Violation(sig, detail, cs, func() string { s, _ := c20RunThreads(threads, &core.Exec{Prefix: cs.Sched}); return s })
					}
					return !c.TimeUp()
				})
				c.Count("schedules", int64(st.Executions))
				c.Max("scheduling_points_per_execution", int64(st.MaxPoints))
			}
			if c.Shard == 0 {
				if msg := runRaceBinary("javascript"); msg != "" {
					if strings.HasPrefix(msg, "skip:") {
						c.Note("free-running -race pass not run: " + msg)
					} else {
						c.Violation("E2:data-race-or-failure-in-free-running-pass", msg, c20Case{}, nil)
					}
				} else {
					c.Count("race_pass_runs", 1)
				}
			}
		},
		Replay: func(raw json.RawMessage) (string, string) {
			var cs c20Case
			if err := json.Unmarshal(raw, &cs); err != nil {
				return "harness:bad-replay", err.Error()
			}
			if cs.Threads != nil {
				sig, detail := c20RunThreads(cs.Threads, &core.Exec{Prefix: cs.Sched})
				if sig == "" {
					detail = "schedule is fine"
				}
				return sig, detail
			}
			sig, detail, outs := c20RunHistory(cs.History, &core.Exec{Prefix: cs.Pool})
			if sig == "" {
				detail = "every call equals its isolated result: " + strings.Join(outs, " | ")
			}
			return sig, detail
		},
	})
}
