package props

import (
	"encoding/json"
	"fmt"
	"math"
	"strings"

	v21cf "github.com/jf-tech/omniparser/extensions/omniv21/customfuncs"
	"github.com/jf-tech/omniparser/idr"

	"verif/mc/core"
	"verif/mc/gen"
	"verif/mc/hx"
	"verif/mc/vsync"
)

// C20 — JavaScript calls are isolated from each other and map values faithfully: call-history
// enumeration on pooled VMs (pool answer reuse / fresh) and schedule exploration of two threads.

type jsCall struct {
	Name string        `json:"name"`
	JS   string        `json:"js,omitempty"`
	Args []interface{} `json:"args,omitempty"`
	Ctx  string        `json:"ctx,omitempty"`  // "", "rec", "parent", "root" (grandparent); "newrec" = world step, no call
	Want string        `json:"want,omitempty"` // expected JSON of the result, or "ERROR"
	// WantSerial: the expected result is the text of the current record's v (its serial number)
	WantSerial bool `json:"want_serial,omitempty"`
}

// argument values shared by several calls of a history, as the values of one declaration are when the
// transform's result cache hands them out again; (re)built by c20ResetShared before every history
var c20SharedArray []interface{}
var c20SharedObject map[string]interface{}
var c20SharedNested []interface{} // a plain value first, containers after it

func c20ResetShared() {
	c20SharedArray = []interface{}{int64(1), int64(3), int64(2)}
	c20SharedObject = map[string]interface{}{"k": "v"}
	c20SharedNested = []interface{}{int64(1), map[string]interface{}{"q": int64(2)}, []interface{}{int64(5)}}
}

func c20Alphabet() []jsCall {
	return []jsCall{
		{Name: "a+1", JS: "a+1", Args: []interface{}{"a", int64(1)}, Want: "2"},
		{Name: "typeof-a-unset", JS: "typeof a", Want: `"undefined"`},
		// ONE script text called with two different sets of argument names of the same size
		{Name: "same-script-given-a", JS: "typeof a + '/' + typeof b", Args: []interface{}{"a", int64(1)}, Want: `"number/undefined"`},
		{Name: "same-script-given-b", JS: "typeof a + '/' + typeof b", Args: []interface{}{"b", "s"}, Want: `"undefined/string"`},
		{Name: "typeof-a-string", JS: "typeof a", Args: []interface{}{"a", "s"}, Want: `"string"`},
		{Name: "a+b", JS: "a+b", Args: []interface{}{"a", 1.5, "b", true}, Want: "2.5"},
		{Name: "arg-named-JSON", JS: "typeof JSON", Args: []interface{}{"JSON", "x"}, Want: `"string"`},
		{Name: "JSON.stringify", JS: "JSON.stringify([1])", Want: `"[1]"`},
		{Name: "array", JS: "[1,'a',true,[2]]", Want: `[1,"a",true,[2]]`},
		{Name: "object", JS: "({k:1,n:{m:[2]}})", Want: `{"k":1,"n":{"m":[2]}}`},
		{Name: "string", JS: "'str' + b", Args: []interface{}{"b", "é"}, Want: `"stré"`},
		{Name: "boolean", JS: "!b", Args: []interface{}{"b", false}, Want: "true"},
		{Name: "float", JS: "b/2", Args: []interface{}{"b", int64(3)}, Want: "1.5"},
		{Name: "NaN", JS: "0/0", Want: "ERROR"},
		{Name: "Infinity", JS: "1/0", Want: "ERROR"},
		{Name: "null", JS: "null", Want: "ERROR"},
		{Name: "undefined", JS: "undefined", Want: "ERROR"},
		{Name: "throw-with-arg", JS: "throw 'x' + a", Args: []interface{}{"a", "leak", "secret", "s3"}, Want: "ERROR"},
		{Name: "typeof-secret", JS: "typeof secret", Want: `"undefined"`},
		{Name: "syntax-error", JS: "a +", Args: []interface{}{"a", int64(1)}, Want: "ERROR"},
		{Name: "odd-args", JS: "1", Args: []interface{}{"a"}, Want: "ERROR"},
		{Name: "iife-local", JS: "(function(){ var t = 5; return t + (typeof a) })()", Want: `"5undefined"`},
		{Name: "literal-narrow", JS: "a + ' | ' + a", Args: []interface{}{"a", "x"}, Want: `"x | x"`},
		{Name: "literal-wide", JS: "a + '   |   ' + a", Args: []interface{}{"a", "x"}, Want: `"x   |   x"`},
		{Name: "comment-then-newline", JS: "a // c\n + 1", Args: []interface{}{"a", int64(1)}, Want: "2"},
		{Name: "comment-to-end", JS: "a // c + 1", Args: []interface{}{"a", int64(1)}, Want: "1"},
		// a script that changes its array / object argument in place must not change what a later call is given
		{Name: "arg-array-sorted-in-place", JS: "p.sort(function(x,y){return y-x})[0]", Args: []interface{}{"p", c20SharedArray}, Want: "3"},
		{Name: "arg-array-first", JS: "p[0] + '/' + p.length", Args: []interface{}{"p", c20SharedArray}, Want: `"1/3"`},
		{Name: "arg-object-extended-in-place", JS: "o.added = 1; Object.keys(o).length", Args: []interface{}{"o", c20SharedObject}, Want: "2"},
		{Name: "arg-object-keys", JS: "Object.keys(o).join(',')", Args: []interface{}{"o", c20SharedObject}, Want: `"k"`},
		{Name: "arg-nested-parts-changed-in-place", JS: "p[1].q = 20; p[2][0] = 6; p[1].q + p[2][0]", Args: []interface{}{"p", c20SharedNested}, Want: "26"},
		{Name: "arg-nested-parts-read", JS: "p[0] + '/' + p[1].q + '/' + p[2][0]", Args: []interface{}{"p", c20SharedNested}, Want: `"1/2/5"`},
		// declarations at the top level of a script (not assignments to globals): gone with the call
		{Name: "top-level-const", JS: "const kk = 2; kk * a", Args: []interface{}{"a", int64(3)}, Want: "6"},
		{Name: "top-level-let-and-class", JS: "let ll = a; class CC { v() { return ll + 1 } }; new CC().v()", Args: []interface{}{"a", int64(1)}, Want: "2"},
		{Name: "top-level-var-and-function", JS: "var vv = (typeof vv === 'undefined') ? 1 : vv + 1; function ff() { return vv }; ff()", Want: "1"},
		{Name: "typeof-declared-elsewhere", JS: "[typeof kk, typeof ll, typeof CC, typeof vv, typeof ff].join()", Want: `"undefined,undefined,undefined,undefined,undefined"`},
		{Name: "arg-named-like-a-const-elsewhere", JS: "kk", Args: []interface{}{"kk", "argval"}, Want: `"argval"`},
		{Name: "newrec", Ctx: "newrec"},
		{Name: "ctx-rec", JS: "JSON.parse(_node).v", Ctx: "rec"},
		{Name: "ctx-rec-with-arg", JS: "JSON.parse(_node).v + a", Args: []interface{}{"a", "!"}, Ctx: "rec"},
		// the node is there however the script reaches it: through the global object under a computed name,
		// from code that is data, under a unicode escape (want: the record's serial number, an absolute oracle)
		{Name: "ctx-rec-through-this", JS: "JSON.parse(this['_no' + 'de']).v", Ctx: "rec", WantSerial: true},
		{Name: "ctx-rec-through-eval-of-arg", JS: "JSON.parse(eval(e)).v", Args: []interface{}{"e", "_node"}, Ctx: "rec", WantSerial: true},
		{Name: "ctx-rec-unicode-escape", JS: "JSON.parse(_n\\u006fde).v", Ctx: "rec", WantSerial: true},
		{Name: "ctx-root", JS: "_node", Ctx: "root"},
		{Name: "ctx-parent", JS: "_node", Ctx: "parent"},
		{Name: "typeof-_node-without-context", JS: "typeof _node", Want: `"undefined"`},
	}
}

type jsWorld struct {
	root, grp, cur *idr.Node // R > G > rec > v: the record's parent G and grandparent R outlive the records
	serial         int
}

func (w *jsWorld) newrec() {
	if w.root == nil {
		w.root = idr.CreateNode(idr.ElementNode, "R")
		w.grp = idr.CreateNode(idr.ElementNode, "G")
		idr.AddChild(w.root, w.grp)
	}
	if w.cur != nil {
		idr.RemoveAndReleaseTree(w.cur)
	}
	w.serial++
	rec := idr.CreateNode(idr.ElementNode, "rec")
	v := idr.CreateNode(idr.ElementNode, "v")
	idr.AddChild(v, idr.CreateNode(idr.TextNode, fmt.Sprint(w.serial)))
	idr.AddChild(rec, v)
	idr.AddChild(w.grp, rec)
	w.cur = rec
}

func jsResult(v interface{}, err error) string {
	if err != nil {
		return "ERROR"
	}
	b, e := json.Marshal(v)
	if e != nil {
		return "UNMARSHALABLE " + e.Error()
	}
	return string(b)
}

// invoke performs one call in the world; ok=false means the call is not applicable (no node yet).
func (w *jsWorld) invoke(c jsCall) (res string, applicable bool) {
	switch c.Ctx {
	case "newrec":
		w.newrec()
		return "", false
	case "rec":
		if w.cur == nil {
			return "", false
		}
		return jsResult(v21cf.JavaScriptWithContext(nil, w.cur, c.JS, c.Args...)), true
	case "root":
		if w.root == nil {
			return "", false
		}
		return jsResult(v21cf.JavaScriptWithContext(nil, w.root, c.JS, c.Args...)), true
	case "parent":
		if w.grp == nil {
			return "", false
		}
		return jsResult(v21cf.JavaScriptWithContext(nil, w.grp, c.JS, c.Args...)), true
	}
	return jsResult(v21cf.JavaScript(nil, c.JS, c.Args...)), true
}

// reference: the same call on a fresh VM with every cache disabled (it touches neither the VM pool
// nor the caches, so it can be evaluated in place).
func (w *jsWorld) reference(c jsCall) string {
	old := v21cf.VerifSetDisableCaching(true)
	defer v21cf.VerifSetDisableCaching(old)
	// the isolated call gets pristine argument values of its own
	if len(c.Args) > 0 {
		args := append([]interface{}{}, c.Args...)
		for i, a := range args {
			switch a.(type) {
			case []interface{}:
				args[i] = []interface{}{int64(1), int64(3), int64(2)}
				if strings.HasPrefix(c.Name, "arg-nested-") {
					args[i] = []interface{}{int64(1), map[string]interface{}{"q": int64(2)}, []interface{}{int64(5)}}
				}
			case map[string]interface{}:
				args[i] = map[string]interface{}{"k": "v"}
			}
		}
		c.Args = args
	}
	r, _ := w.invoke(c)
	return r
}

type c20Case struct {
	History []string   `json:"call_history"`
	Pool    []int      `json:"vm_pool_answers"` // per VM-pool Get with a VM available: 0 reuse, 1 fresh
	Threads [][]string `json:"threads,omitempty"`
	Sched   []int      `json:"schedule,omitempty"`
}

func c20ByName() map[string]jsCall {
	m := map[string]jsCall{}
	for _, c := range c20Alphabet() {
		m[c.Name] = c
	}
	for _, c := range c20ValueTable() {
		m[c.Name] = c
	}
	return m
}

// c20ValueTable is the value-mapping table of the property: JavaScript numbers, strings, booleans,
// arrays and objects map to the corresponding JSON values; NaN, +/-Infinity, null, undefined and
// thrown exceptions are errors - however the value came about. Want "" = the mapping is not fixed by
// the property (holes, functions, Date ...): only 'pooled call = isolated call' is checked.
func c20ValueTable() []jsCall {
	type e struct {
		js   string
		want interface{}
		args []interface{}
	}
	type errT struct{}
	type obs struct{}
	E, O := errT{}, obs{}
	A := func(v ...interface{}) []interface{} {
		if v == nil {
			return []interface{}{}
		}
		return v
	}
	M := func(kv ...interface{}) map[string]interface{} {
		m := map[string]interface{}{}
		for i := 0; i+1 < len(kv); i += 2 {
			m[kv[i].(string)] = kv[i+1]
		}
		return m
	}
	tab := []e{
		// numbers
		{"0", 0, nil}, {"-0", math.Copysign(0, -1), nil}, {"1", 1, nil}, {"-1", -1, nil}, {"1.5", 1.5, nil}, {"-2.25", -2.25, nil},
		{"1e21", 1e21, nil}, {"1e-7", 1e-7, nil}, {"Math.pow(2,53)", 9007199254740992.0, nil}, {"Math.pow(2,53)+2", 9007199254740994.0, nil},
		{"Number.MAX_VALUE", math.MaxFloat64, nil}, {"Number.MIN_VALUE", 5e-324, nil}, {"-Number.MAX_VALUE", -math.MaxFloat64, nil},
		{"0.1+0.2", 0.30000000000000004, nil}, {"1/3", 1.0 / 3, nil}, {"0x10", 16, nil}, {"2147483648", 2147483648, nil}, {"-2147483649", -2147483649, nil},
		{"4294967296*4", 17179869184, nil}, {"7%3", 1, nil}, {"5/2", 2.5, nil}, {"4/2", 2, nil}, {"Math.floor(2.7)", 2, nil}, {"Number('12')", 12, nil}, {"+true", 1, nil},
		{"a*2", 42, A("a", int64(21))}, {"a*2", 3.0, A("a", 1.5)}, {"a/b", 0.5, A("a", int64(1), "b", int64(2))},
		// non-finite numbers, however produced
		{"1/0", E, nil}, {"-1/0", E, nil}, {"Infinity", E, nil}, {"-Infinity", E, nil}, {"Number.POSITIVE_INFINITY", E, nil}, {"Number.NEGATIVE_INFINITY", E, nil},
		{"Math.log(0)", E, nil}, {"-Math.log(0)", E, nil}, {"Number.MAX_VALUE*2", E, nil}, {"-Number.MAX_VALUE*2", E, nil}, {"Math.pow(10,400)", E, nil}, {"-Math.pow(10,400)", E, nil},
		{"a/b", E, A("a", int64(-1), "b", int64(0))}, {"a/b", E, A("a", int64(1), "b", int64(0))}, {"a/b", E, A("a", int64(0), "b", int64(0))}, {"a/b", E, A("a", -1.5, "b", 0.0)},
		{"NaN", E, nil}, {"0/0", E, nil}, {"Math.sqrt(-1)", E, nil}, {"parseInt('x')", E, nil}, {"Number('abc')", E, nil}, {"Infinity-Infinity", E, nil}, {"-NaN", E, nil}, {"a*1", E, A("a", "x")},
		// null / undefined, however produced
		{"null", E, nil}, {"undefined", E, nil}, {"void 0", E, nil}, {"(function(){})()", E, nil}, {"[][0]", E, nil}, {"({}).x", E, nil}, {"a", E, A("b", int64(1), "a", nil)},
		{"JSON.parse('null')", E, nil}, {"'abc'.match(/x/)", E, nil}, {"[1].find(function(v){return v>1})", E, nil},
		// thrown
		{"throw 1", E, nil}, {"throw new Error('x')", E, nil}, {"throw null", E, nil}, {"(function(){throw 'x'})()", E, nil}, {"notDefinedAnywhere", E, nil}, {"null.x", E, nil},
		{"JSON.parse('{')", E, nil}, {"undefined()", E, nil},
		// strings
		{"''", "", nil}, {"'a'", "a", nil}, {"'\u00e9'", "\u00e9", nil}, {"'\u2028'", "\u2028", nil}, {"'\\ud83d\\ude00'", "\U0001F600", nil}, {"'1'", "1", nil}, {"'true'", "true", nil},
		{"'null'", "null", nil}, {"'NaN'", "NaN", nil}, {"'Infinity'", "Infinity", nil}, {"'undefined'", "undefined", nil}, {"String(1)", "1", nil}, {"'a'+1", "a1", nil}, {"1+'1'", "11", nil},
		{"'\\\\'", "\\", nil}, {"'\"'", "\"", nil}, {"'\\n'", "\n", nil}, {"'\\u0000'", "\x00", nil}, {"'<&>'", "<&>", nil}, {"' a '", " a ", nil}, {"typeof null", "object", nil},
		{"a+a", "xx", A("a", "x")}, {"a+1", "11", A("a", "1")}, {"a.length", 2, A("a", "\u00e9\u00e9")}, {"String(null)", "null", nil}, {"String(void 0)", "undefined", nil}, {"String(0/0)", "NaN", nil},
		// booleans
		{"true", true, nil}, {"false", false, nil}, {"!0", true, nil}, {"1<2", true, nil}, {"a", true, A("a", true)}, {"!a", true, A("a", false)}, {"a===1", true, A("a", int64(1))},
		{"a===1.5", true, A("a", 1.5)}, {"a==='1'", true, A("a", "1")}, {"isNaN(0/0)", true, nil}, {"isFinite(1/0)", false, nil}, {"null===null", true, nil},
		// arrays
		{"[]", A(), nil}, {"[1]", A(1), nil}, {"[[]]", A(A()), nil}, {"[1,[2,[3]]]", A(1, A(2, A(3))), nil}, {"['a',true,1.5]", A("a", true, 1.5), nil}, {"[{}]", A(M()), nil},
		{"[null]", A(nil), nil}, {"[1,null,'a']", A(1, nil, "a"), nil}, {"'a,b'.split(',')", A("a", "b"), nil}, {"[1,2,3].map(function(v){return v*2})", A(2, 4, 6), nil},
		{"[a,a]", A("x", "x"), A("a", "x")}, {"JSON.parse('[1,{\"k\":[]}]')", A(1, M("k", A())), nil}, {"[[1,2],[3,4]]", A(A(1, 2), A(3, 4)), nil},
		{"[undefined]", O, nil}, {"[0/0]", O, nil}, {"[1/0]", O, nil}, {"new Array(2)", O, nil}, {"[,1]", O, nil},
		// objects
		{"({})", M(), nil}, {"({a:1})", M("a", 1), nil}, {"({a:{b:[1,{c:'x'}]}})", M("a", M("b", A(1, M("c", "x")))), nil}, {"({'':1})", M("", 1), nil}, {"({'a b':1})", M("a b", 1), nil},
		{"({1:2})", M("1", 2), nil}, {"({a:null})", M("a", nil), nil}, {"({a:'1',b:true,c:1.5})", M("a", "1", "b", true, "c", 1.5), nil}, {"JSON.parse('{\"x\":{\"y\":null}}')", M("x", M("y", nil)), nil},
		{"({k:a})", M("k", "v"), A("a", "v")}, {"({b:1,a:2})", M("a", 2, "b", 1), nil}, {"Object.create(null)", O, nil},
		// the same container reachable twice (no cycle): a value like any other
		{"var addr={city:'c'}; ({billing:addr, shipping:addr})", M("billing", M("city", "c"), "shipping", M("city", "c")), nil},
		{"var row=[1,2]; [row,row]", A(A(1, 2), A(1, 2)), nil}, {"var o={k:[1]}; [o,{again:o},o.k]", A(M("k", A(1)), M("again", M("k", A(1))), A(1)), nil},
		{"var e=[]; [e,e,{}]", A(A(), A(), M()), nil},
		{"({a:undefined})", O, nil}, {"({a:0/0})", O, nil}, {"new Date(0)", O, nil}, {"(function(){})", O, nil}, {"new String('a')", O, nil}, {"new Number(1)", O, nil}, {"/x/", O, nil},
		// arguments keep their declared kind
		{"typeof a", "string", A("a", "1")}, {"typeof a", "number", A("a", int64(1))}, {"typeof a", "number", A("a", 1.5)}, {"typeof a", "boolean", A("a", true)},
		{"a", "1", A("a", "1")}, {"a", 1, A("a", int64(1))}, {"a", 1.5, A("a", 1.5)}, {"a", false, A("a", false)}, {"a", "", A("a", "")}, {"a", 0, A("a", int64(0))}, {"a", -7, A("a", int64(-7))},
		{"a", O, A("a", int64(1)<<62)}, {"a+1", O, A("a", int64(9007199254740992))},
	}
	var out []jsCall
	for i, t := range tab {
		c := jsCall{Name: fmt.Sprintf("v%03d:%s", i, t.js), JS: t.js, Args: t.args}
		switch t.want.(type) {
		case errT:
			c.Want = "ERROR"
		case obs:
			c.Want = ""
		default:
			b, err := json.Marshal(t.want)
			if err != nil {
				panic(err)
			}
			c.Want = string(b)
		}
		out = append(out, c)
	}
	return out
}

func c20RunHistory(names []string, x *core.Exec) (sig, detail string, outcomes []string) {
	resetProcessState()
	vmPool, _ := v21cf.VerifRuntimePool().(*vsync.Pool)
	vsync.PoolChoice = func(p *vsync.Pool, avail int) int {
		if p == vmPool {
			return x.Choose(2, false)
		}
		return 0
	}
	defer func() { vsync.PoolChoice = nil }()
	c20ResetShared()
	by := c20ByName()
	w := &jsWorld{}
	w.newrec() // the world starts with a root and one record
	for i, n := range names {
		c := by[n]
		var got string
		var app bool
		pv, site := core.Safe(func() { got, app = w.invoke(c) })
		if pv != nil {
			return "panic:" + site, fmt.Sprintf("history %v call %d (%s): %v", names, i, n, pv), outcomes
		}
		if !app {
			continue
		}
		outcomes = append(outcomes, got)
		want := c.Want
		ref := w.reference(c)
		if c.WantSerial {
			want = fmt.Sprintf("%q", fmt.Sprint(w.serial))
			if ref != want {
				return "_node-not-given-to-a-script-that-reads-it-indirectly", fmt.Sprintf("call %q args %v on the record with v=%d returned %s on a fresh VM, expected %s", c.JS, c.Args, w.serial, ref, want), outcomes
			}
		}
		if want == "" {
			want = ref
		}
		if ref != want {
			if strings.HasPrefix(n, "v") && strings.Contains(n, ":") {
				// value table = the property's mapping rule: the isolated call itself is wrong
				kind := "wrong-value-mapping"
				if want == "ERROR" {
					kind = "error-value-let-through"
				}
				return kind, fmt.Sprintf("call %q args %v on a fresh VM returned %s, the property's mapping says %s", c.JS, c.Args, ref, want), outcomes
			}
			return "harness:expectation-table", fmt.Sprintf("call %s: table says %s, isolated call gives %s", n, want, ref), outcomes
		}
		if got != want {
			kind := "call-sees-earlier-call"
			switch {
			case c.Ctx == "root" || c.Ctx == "parent":
				kind = "stale-_node-of-node-changed-since-first-use"
			case c.Ctx == "rec":
				kind = "stale-_node-of-record"
			case want == "ERROR":
				kind = "error-value-let-through"
			case i == 0 || len(outcomes) == 1:
				kind = "wrong-value-mapping"
			}
			// an argument named like a built-in shadowing it for later calls
			if strings.Contains(strings.Join(names[:i], ","), "arg-named-JSON") && n == "JSON.stringify" {
				kind = "builtin-deleted-after-being-used-as-argument-name"
			}
			return kind, fmt.Sprintf("history %v (VM pool answers %v): call %d %s %q args %v returned %s, expected %s", names, x.Choices(), i, n, c.JS, c.Args, got, want), outcomes
		}
	}
	return "", "", outcomes
}

func c20RunThreads(threads [][]string, x *core.Exec) (sig, detail string) {
	resetProcessState()
	by := c20ByName()
	var problems []string
	var bodies []func()
	for ti, prog := range threads {
		ti, prog := ti, prog
		bodies = append(bodies, func() {
			w := &jsWorld{}
			w.newrec()
			for _, n := range prog {
				c := by[n]
				got, app := w.invoke(c)
				if !app {
					continue
				}
				want := c.Want
				if want == "" {
					want = w.reference(c)
				}
				if got != want {
					problems = append(problems, fmt.Sprintf("thread %d call %s returned %s, expected %s", ti, n, got, want))
				}
			}
		})
	}
	ps, dl := vsync.RunThreads(x.Choose, bodies)
	for _, p := range ps {
		if p != nil {
			return "E2:panic:" + core.PanicSite(p.Stack), fmt.Sprintf("threads %v schedule %v: thread %d: %v", threads, x.Choices(), p.Thread, p.Value)
		}
	}
	if dl {
		return "E2:deadlock", fmt.Sprintf("threads %v schedule %v", threads, x.Choices())
	}
	if len(problems) > 0 {
		return "E2:cross-talk-between-concurrent-calls", fmt.Sprintf("threads %v schedule %v: %v", threads, x.Choices(), problems)
	}
	return "", ""
}

func init() {
	core.Register(&core.Prop{
		ID:    "C20",
		Level: "model_checking",
		Rule:  "E3: a Transform whose schema calls javascript / javascript_with_context anchored on the record, its parent and its grandparent (directly, inside an object moved to the parent, and with arguments read through the ancestor) over every record sequence of length 2..3 (thorough 4) over {A, B, C, failing F}: every result equals the record transformed alone; E0: a value-mapping table of 190 scripts (numbers incl. -0 / 2^53 / MAX_VALUE, every way to produce NaN, +Infinity and -Infinity, null, undefined, thrown values; strings; booleans; nested arrays / objects; typed arguments), each alone and inside 4 call histories on pooled VMs, against the JSON value the property prescribes (or, where it prescribes none, against the isolated call); E1: every history of up to 3 (thorough 4) calls over a 46-symbol alphabet (arguments of every kind, one script text with two argument-name sets of the same size, argument named like a built-in, all result kinds, NaN/Infinity/null/undefined/throw/syntax error/odd argument count, IIFE locals, javascript_with_context on the record node, on an ancestor whose children change, and after the record node was released and re-acquired) x every VM-pool answer (reuse/fresh) at every Get; every call's result must equal the same call made in isolation on a fresh VM with all caches disabled, and the expected value of a table (states = distinct (history prefix) outcome vectors, transitions = calls). E2: two threads x two calls from the alphabet under the cooperative scheduler (yield at every VM-pool / cache operation), all schedules with <= 2 preemptions; plus a free-running -race pass; symbols also: shared flat / nested arguments changed in place, top-level declarations; value table incl. results holding one container twice; E3b a failing call under xpath_dynamic and as a plain value; calls reaching _node through this[...], eval of an argument, a unicode escape (absolute oracle: the record's serial number)",
		Assumptions: []string{
			"scripts that assign globals themselves are excluded by the property; top-level scripts of the alphabet are pure expressions or IIFEs",
			"the isolated reference call uses the library's own 'caching disabled' path (fresh goja VM, no program / node-JSON cache)",
		},
		BudgetQuick: 300, BudgetThorough: 1500,
		Run: func(c *core.Ctx) {
			alpha := c20Alphabet()
			depth := 3
			if !c.Quick() {
				depth = 4
			}
			idx := 0
			// every history of up to 3 calls first, completely (no time check); in the thorough tier the histories
			// of exactly 4 calls follow, as far as the time budget goes - enumerated with the FIRST call varying
			// fastest, so that what a cut-off run leaves out is a range of LAST calls, not of first ones
			pass := 1
			visitSeq := func(seq []int) bool {
				if len(seq) == 0 || (pass == 2 && len(seq) < depth) {
					return true
				}
				idx++
				if !c.Mine(idx) {
					return true
				}
				names := make([]string, len(seq))
				for i, s := range seq {
					names[i] = alpha[s].Name
					if pass == 2 {
						names[len(seq)-1-i] = alpha[s].Name
					}
				}
				var sig, detail string
				var outs []string
				core.Explore(len(seq), 0, 1, 0, func(x *core.Exec) {
					c.Begin(func() interface{} { return c20Case{History: names, Pool: x.Choices()} })
					sig, detail, outs = c20RunHistory(names, x)
				}, func(x *core.Exec) bool {
					c.Eval(strings.Join(outs, "|"))
					c.Count("transitions", int64(len(names)))
					c.Count("traces_validated_against_impl", 1)
					c.Member("states", strings.Join(names, ",")+fmt.Sprint(x.Choices()))
					if strings.HasPrefix(sig, "harness:") {
						c.HarnessError(sig + ": " + detail)
					} else if sig != "" {
						cs := c20Case{History: names, Pool: x.Choices()}
						c.Violation(sig, detail, cs, func() string {
							s, _, _ := c20RunHistory(cs.History, &core.Exec{Prefix: cs.Pool})
							return s
						})
					} else if c.WantSample() && len(names) == depth && idx%997 == 0 {
						c.Sample(map[string]interface{}{"history": names, "vm_pool_answers": x.Choices(), "results": outs})
					}
					return true
				})
				return pass == 1 || !c.TimeUpEvery(4)
			}
			gen.Sequences(len(alpha), 3, visitSeq)
			// (the histories of 4 calls run last: a time cap there costs nothing else)
			defer func() {
				if depth > 3 {
					pass = 2
					gen.Sequences(len(alpha), depth, visitSeq)
					if !c.TimeUp() {
						c.Note("every history of 4 calls completed")
					}
				}
			}()
			// E0: the value-mapping table, each entry alone and after / before other calls on pooled VMs
			for _, e := range c20ValueTable() {
				for _, names := range [][]string{{e.Name}, {"a+1", e.Name}, {e.Name, e.Name}, {"throw-with-arg", e.Name, "typeof-a-unset"}, {"arg-named-JSON", e.Name, "JSON.stringify"}} {
					idx++
					if !c.Mine(idx) {
						continue
					}
					names := names
					var sig, detail string
					var outs []string
					core.Explore(len(names), 0, 1, 0, func(x *core.Exec) {
						c.Begin(func() interface{} { return c20Case{History: names, Pool: x.Choices()} })
						sig, detail, outs = c20RunHistory(names, x)
					}, func(x *core.Exec) bool {
						c.Eval("E0|" + strings.Join(outs, "|"))
						c.Count("transitions", int64(len(names)))
						c.Count("traces_validated_against_impl", 1)
						c.Count("value_table_histories", 1)
						if strings.HasPrefix(sig, "harness:") {
							c.HarnessError(sig + ": " + detail)
						} else if sig != "" {
							cs := c20Case{History: names, Pool: x.Choices()}
							c.Violation(sig, detail, cs, func() string {
								s, _, _ := c20RunHistory(cs.History, &core.Exec{Prefix: cs.Pool})
								return s
							})
						}
						return true
					})
				}
			}
			// E3: the calls as a Transform makes them, anchored on the record, its parent and its grandparent
			// (nodes that outlive the record), over record sequences: every result = the record alone
			{
				st := `{"parser_settings":{"version":"omni.2.1","file_format_type":"xml"},"transform_declarations":{"FINAL_OUTPUT":{"xpath":"/feed/batch/item","object":{
 "own":{"custom_func":{"name":"javascript_with_context","args":[{"const":"JSON.parse(_node).id"}]}},
 "par":{"xpath":"..","custom_func":{"name":"javascript_with_context","args":[{"const":"JSON.parse(_node).item.id"}]}},
 "gp":{"xpath":"../..","custom_func":{"name":"javascript_with_context","args":[{"const":"JSON.parse(_node).batch.item.id"}]}},
 "objpar":{"xpath":"..","object":{"x":{"custom_func":{"name":"javascript","args":[{"const":"if (v=='F') { throw 'bad' } v+'!'"},{"const":"v"},{"xpath":"item/id"}]}},"y":{"custom_func":{"name":"javascript_with_context","args":[{"const":"JSON.parse(_node).item.id + w"},{"const":"w"},{"xpath":"item/id"}]}}}},
 "argpar":{"xpath":"..","custom_func":{"name":"javascript","args":[{"const":"v+'?'"},{"const":"v"},{"xpath":"item/id"}]}},
 "arggp":{"xpath":"../..","custom_func":{"name":"javascript","args":[{"const":"v+'#'"},{"const":"v"},{"xpath":"batch/item/id"}]}}}}}}`
				schema, err, _ := hx.NewSchema("s", st)
				if err != nil {
					c.HarnessError("E3 schema rejected: " + err.Error())
				} else {
					rec := func(sym byte) string { return "<item><id>" + string(sym) + "</id></item>" }
					runSeq := func(seq string) []string {
						var b strings.Builder
						b.WriteString("<feed><batch>")
						for i := 0; i < len(seq); i++ {
							b.WriteString(rec(seq[i]))
						}
						b.WriteString("</batch></feed>")
						r := hx.Run(schema, strings.NewReader(b.String()), hx.Opts{MaxReads: 20, NoChecksum: true})
						var out []string
						for _, s := range r.Steps {
							out = append(out, s.Kind+" "+s.Out)
						}
						return out
					}
					solo := map[byte]string{}
					for _, sym := range []byte("ABCF") {
						resetProcessState()
						o := runSeq(string(sym))
						if len(o) != 2 {
							c.HarnessError(fmt.Sprintf("E3 solo run of %c: %v", sym, o))
						} else {
							solo[sym] = o[0]
						}
					}
					gen.Sequences(4, depth, func(seq []int) bool {
						if len(seq) < 2 {
							return true
						}
						idx++
						if !c.Mine(idx) {
							return true
						}
						b := make([]byte, len(seq))
						for i, x := range seq {
							b[i] = "ABCF"[x]
						}
						cs := c20Case{History: []string{"transform:" + string(b)}}
						c.Begin(func() interface{} { return cs })
						resetProcessState()
						out := runSeq(string(b))
						c.Eval("E3|" + string(b))
						c.Count("transform_level_sequences", 1)
						for i := range b {
							if i >= len(out) || out[i] != solo[b[i]] {
								got := "<missing>"
								if i < len(out) {
									got = out[i]
								}
								c.Violation("E3:call-result-depends-on-earlier-records", fmt.Sprintf("record sequence %s position %d:\n-- in the sequence: %s\n-- alone:           %s", b, i, got, solo[b[i]]), cs, nil)
								break
							}
						}
						return true
					})
				}
			}
			// E3b: a call that fails for some record is declared twice on the same node, once as the source of
			// an xpath_dynamic (whose failure only means "no such node") and once as a plain value: the plain
			// value's failure is reported whichever of the two is evaluated first, for every error form
			for _, errForm := range []string{"throw 'bad'", "return 0/0", "return 1/0", "return null", "return undefined"} {
				for _, order := range [][2]string{{"a_dyn", "z_val"}, {"z_dyn", "a_val"}} {
					call := `{"custom_func":{"name":"javascript","args":[{"const":"(function(){ if (v=='F') { ` + errForm + ` } return 'id' })()"},{"const":"v"},{"xpath":"id"}]}}`
					st := `{"parser_settings":{"version":"omni.2.1","file_format_type":"xml"},"transform_declarations":{"FINAL_OUTPUT":{"xpath":"/feed/item","object":{
 "` + order[0] + `":{"xpath_dynamic":` + call + `},"` + order[1] + `":` + call + `}}}}`
					idx++
					if !c.Mine(idx) {
						continue
					}
					schema, err, _ := hx.NewSchema("s", st)
					if err != nil {
						c.HarnessError("E3b schema rejected: " + err.Error())
						continue
					}
					for _, seq := range []string{"F", "AF", "FA", "FF", "AFA"} {
						cs := c20Case{History: []string{"transform-dyn+plain:" + errForm + ":" + order[0] + ":" + seq}}
						c.Begin(func() interface{} { return cs })
						resetProcessState()
						var b strings.Builder
						b.WriteString("<feed>")
						for i := 0; i < len(seq); i++ {
							b.WriteString("<item><id>" + string(seq[i]) + "</id></item>")
						}
						b.WriteString("</feed>")
						r := hx.Run(schema, strings.NewReader(b.String()), hx.Opts{MaxReads: 20, NoChecksum: true})
						c.Eval("E3b|" + errForm + "|" + order[0] + "|" + seq)
						c.Count("transform_level_sequences", 1)
						for i := 0; i < len(seq); i++ {
							got := "<missing>"
							if i < len(r.Steps) {
								got = r.Steps[i].Kind + " " + r.Steps[i].Out
							}
							want := `rec {"` + order[0] + `":"A","` + order[1] + `":"id"}`
							if order[1] < order[0] {
								want = `rec {"` + order[1] + `":"id","` + order[0] + `":"A"}`
							}
							ok := got == want
							if seq[i] == 'F' {
								want = "a failure of the record (the call's error)"
								ok = strings.HasPrefix(got, "fail")
							}
							if !ok {
								c.Violation("E3b:failed-call-not-reported-when-also-used-in-xpath_dynamic", fmt.Sprintf("schema %s\nrecords %s, position %d:\n-- got:      %s\n-- expected: %s", st, seq, i, got, want), cs, nil)
								break
							}
						}
					}
				}
			}
			// E2
			pairs := [][][]string{
				{{"a+1", "typeof-a-unset"}, {"typeof-a-string", "typeof-secret"}},
				{{"throw-with-arg", "typeof-a-unset"}, {"a+b", "JSON.stringify"}},
				{{"newrec", "ctx-rec", "newrec", "ctx-rec"}, {"newrec", "ctx-rec-with-arg", "typeof-_node-without-context"}},
				{{"object", "array"}, {"string", "float"}},
			}
			if !c.Quick() {
				pairs = append(pairs, [][]string{{"a+1", "typeof-a-unset"}, {"typeof-a-string", "typeof-secret"}, {"a+b", "typeof-a-unset"}})
			}
			for pi, threads := range pairs {
				var sig, detail string
				st := core.Explore(2, c.Shard, c.NShards, 0, func(x *core.Exec) {
					c.Begin(func() interface{} { return c20Case{Threads: threads, Sched: x.Choices()} })
					sig, detail = c20RunThreads(threads, x)
				}, func(x *core.Exec) bool {
					c.Eval(fmt.Sprintf("E2|%d|%d", pi, len(x.Points)))
					if sig != "" {
						cs := c20Case{Threads: threads, Sched: x.Choices()}
						c.Violation(sig, detail, cs, func() string { s, _ := c20RunThreads(threads, &core.Exec{Prefix: cs.Sched}); return s })
					}
					return !c.TimeUp()
				})
				c.Count("schedules", int64(st.Executions))
				c.Max("scheduling_points_per_execution", int64(st.MaxPoints))
			}
			if c.Shard == 0 {
				if msg := runRaceBinary("javascript", c.Alive); msg != "" {
					if strings.HasPrefix(msg, "skip:") {
						c.Note("free-running -race pass not run: " + msg)
					} else {
						c.Violation("E2:data-race-or-failure-in-free-running-pass", msg, c20Case{}, nil)
					}
				} else {
					c.Count("race_pass_runs", 1)
				}
			}
		},
		Replay: func(raw json.RawMessage) (string, string) {
			var cs c20Case
			if err := json.Unmarshal(raw, &cs); err != nil {
				return "harness:bad-replay", err.Error()
			}
			if cs.Threads != nil {
				sig, detail := c20RunThreads(cs.Threads, &core.Exec{Prefix: cs.Sched})
				if sig == "" {
					detail = "schedule is fine"
				}
				return sig, detail
			}
			sig, detail, outs := c20RunHistory(cs.History, &core.Exec{Prefix: cs.Pool})
			if sig == "" {
				detail = "every call equals its isolated result: " + strings.Join(outs, " | ")
			}
			return sig, detail
		},
	})
}
