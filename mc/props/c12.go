package props

import (
	"context"
	"encoding/json"
	"fmt"
	"io"
	"os"
	"os/exec"
	"path/filepath"
	"sort"
	"strings"
	"time"

	"github.com/jf-tech/omniparser"
	"github.com/jf-tech/omniparser/extensions/omniv21/fileformat"
	"github.com/jf-tech/omniparser/idr"
	"github.com/jf-tech/omniparser/transformctx"

	"verif/mc/core"
	"verif/mc/corpus"
	"verif/mc/gen"
	"verif/mc/hx"
	"verif/mc/ref"
	"verif/mc/vsync"
)

// C12 — node trees stay structurally sound and pooled nodes are never aliased.
// E1: BFS over CreateNode/AddChild/RemoveAndReleaseTree histories against a mirror model.
// E2: audit of every tree the seven readers hand out (through the Transform).
// E3: racing acquisitions under the cooperative scheduler (+ free-running -race pass).

// ---- E1 ----

type c12Op struct {
	Kind   string `json:"op"`            // create | add | remove
	A      int    `json:"a"`             // create: node type (1 element, 2 text); add: parent index; remove: node index
	B      int    `json:"b"`             // add: child index; create: pool answer (0 newest, 1 fresh, 2 oldest)
	Format int    `json:"fmt,omitempty"` // create: 0 plain, 1 XML node, 2 JSON node
}

type mnode struct {
	parent int
	kids   []int
	live   bool
	typ    idr.NodeType
	data   string
	format int
}

type c12World struct {
	real []*idr.Node
	m    []*mnode
	ids  map[int64]bool
	err  string
}

func (w *c12World) liveCount() int {
	n := 0
	for _, x := range w.m {
		if x.live {
			n++
		}
	}
	return n
}

func (w *c12World) apply(op c12Op) {
	switch op.Kind {
	case "create":
		vsync.PoolChoice = func(*vsync.Pool, int) int { return op.B }
		data := fmt.Sprintf("n%d", len(w.m))
		var n *idr.Node
		switch op.Format {
		case 1:
			n = idr.CreateXMLNode(idr.NodeType(op.A), data, idr.XMLSpecific{NamespacePrefix: "p", NamespaceURI: "u"})
		case 2:
			n = idr.CreateJSONNode(idr.NodeType(op.A), data, idr.JSONObj)
		default:
			n = idr.CreateNode(idr.NodeType(op.A), data)
		}
		vsync.PoolChoice = nil
		// a freshly obtained node is blank
		if n.Parent != nil || n.FirstChild != nil || n.LastChild != nil || n.PrevSibling != nil || n.NextSibling != nil {
			w.err = "freshly obtained node has links"
			return
		}
		if n.Type != idr.NodeType(op.A) || n.Data != data {
			w.err = "freshly obtained node has wrong type/data"
			return
		}
		if op.Format == 0 && n.FormatSpecific != nil {
			w.err = fmt.Sprintf("freshly obtained plain node carries format data %v of an earlier life", n.FormatSpecific)
			return
		}
		for i, r := range w.real {
			if r == n && w.m[i].live {
				w.err = fmt.Sprintf("node handed out twice: new node is live node %d", i)
				return
			}
		}
		if w.ids[n.ID] {
			w.err = fmt.Sprintf("ID %d handed out for two acquisitions", n.ID)
			return
		}
		w.ids[n.ID] = true
		w.real = append(w.real, n)
		w.m = append(w.m, &mnode{parent: -1, live: true, typ: idr.NodeType(op.A), data: data, format: op.Format})
	case "add":
		idr.AddChild(w.real[op.A], w.real[op.B])
		w.m[op.B].parent = op.A
		w.m[op.A].kids = append(w.m[op.A].kids, op.B)
	case "remove":
		idr.RemoveAndReleaseTree(w.real[op.A])
		if p := w.m[op.A].parent; p >= 0 {
			ks := w.m[p].kids
			for i, k := range ks {
				if k == op.A {
					w.m[p].kids = append(append([]int{}, ks[:i]...), ks[i+1:]...)
				}
			}
		}
		var kill func(i int)
		kill = func(i int) {
			w.m[i].live = false
			for _, k := range w.m[i].kids {
				kill(k)
			}
		}
		kill(op.A)
	}
}

// check compares every live real node with the mirror and audits pool membership.
func (w *c12World) check() string {
	if w.err != "" {
		return w.err
	}
	pool := nodePool()
	nLive := 0
	for i, m := range w.m {
		r := w.real[i]
		if !m.live {
			continue
		}
		nLive++
		if pool != nil && pool.Contains(r) {
			return fmt.Sprintf("live node %d is in the pool", i)
		}
		if r.Data != m.data || r.Type != m.typ {
			return fmt.Sprintf("live node %d lost its type/data (%q)", i, r.Data)
		}
		want := func(idx int) *idr.Node {
			if idx < 0 {
				return nil
			}
			return w.real[idx]
		}
		if r.Parent != want(m.parent) {
			return fmt.Sprintf("node %d: wrong Parent", i)
		}
		first, last := -1, -1
		if len(m.kids) > 0 {
			first, last = m.kids[0], m.kids[len(m.kids)-1]
		}
		if r.FirstChild != want(first) || r.LastChild != want(last) {
			return fmt.Sprintf("node %d: wrong FirstChild/LastChild", i)
		}
		prev, next := -1, -1
		if m.parent >= 0 {
			ks := w.m[m.parent].kids
			for k, id := range ks {
				if id == i {
					if k > 0 {
						prev = ks[k-1]
					}
					if k+1 < len(ks) {
						next = ks[k+1]
					}
				}
			}
		}
		if r.PrevSibling != want(prev) || r.NextSibling != want(next) {
			return fmt.Sprintf("node %d: wrong PrevSibling/NextSibling", i)
		}
	}
	// pooled nodes are blank and distinct; their number is what was released minus what was reused
	if pool != nil {
		for _, it := range pool.Items() {
			p := it.(*idr.Node)
			if p.Parent != nil || p.FirstChild != nil || p.LastChild != nil || p.PrevSibling != nil || p.NextSibling != nil || p.Data != "" || p.FormatSpecific != nil {
				return "a pooled node was not reset"
			}
		}
	}
	// live roots pass the generic audit too
	for i, m := range w.m {
		if m.live && m.parent < 0 {
			if e := auditTree(w.real[i]); e != "" {
				return "audit: " + e
			}
		}
	}
	return ""
}

// key canonicalises the state: ordered labelled forest (shape and per-node format kind) plus the
// number of pooled nodes. Isomorphic forests have the same futures: the
// API never exposes an order among roots, so roots are sorted by their shape string.
func (w *c12World) key() string {
	var shape func(i int) string
	shape = func(i int) string {
		var b strings.Builder
		// the node's former life (plain / XML / JSON) is part of the state: what a recycled node
		// carries over must not matter, but that is exactly what is being checked
		fmt.Fprintf(&b, "(%d", w.m[i].format*10+int(w.m[i].typ))
		for _, k := range w.m[i].kids {
			b.WriteString(shape(k))
		}
		b.WriteString(")")
		return b.String()
	}
	var roots []string
	for i, m := range w.m {
		if m.live && m.parent < 0 {
			roots = append(roots, shape(i))
		}
	}
	sort.Strings(roots)
	pl := 0
	if p := nodePool(); p != nil {
		pl = p.Len()
	}
	return strings.Join(roots, "") + fmt.Sprintf("|pool=%d", pl)
}

func c12Replay(ops []c12Op) (*c12World, string, int) {
	resetProcessState()
	w := &c12World{ids: map[int64]bool{}}
	for i, op := range ops {
		var e string
		pv, site := core.Safe(func() {
			w.apply(op)
			e = w.check()
		})
		if pv != nil {
			return w, fmt.Sprintf("panic: %v @ %s", pv, site), i
		}
		if e != "" {
			return w, e, i
		}
	}
	return w, "", -1
}

// c12EDISchema spells a declaration hierarchy as an EDI schema (segment = name + one element).
func c12EDISchema(ds []*ref.HDecl) string {
	var rec func(ds []*ref.HDecl) string
	rec = func(ds []*ref.HDecl) string {
		var parts []string
		for _, d := range ds {
			f := []string{fmt.Sprintf(`"name":%q,"min":%d,"max":%d`, d.Name, d.Min, d.Max)}
			if d.Target {
				f = append(f, `"is_target":true`)
			}
			if d.Group {
				f = append(f, `"type":"segment_group"`)
			} else {
				f = append(f, `"elements":[{"name":"s","index":1}]`)
			}
			if len(d.Children) > 0 {
				f = append(f, `"child_segments":[`+rec(d.Children)+`]`)
			}
			parts = append(parts, "{"+strings.Join(f, ",")+"}")
		}
		return strings.Join(parts, ",")
	}
	return `{"parser_settings":{"version":"omni.2.1","file_format_type":"edi"},"file_declaration":{"segment_delimiter":"~","element_delimiter":"*","segment_declarations":[` + rec(ds) +
		`]},"transform_declarations":{"FINAL_OUTPUT":{"object":{}}}}`
}

type readerFunc func(p []byte) (int, error)

func (f readerFunc) Read(p []byte) (int, error) { return f(p) }

// c12Labels are the kinds of node a pass of the search creates: (node type, format)
type c12Label struct{ typ, format int }

var c12LabelsFormats = []c12Label{{int(idr.ElementNode), 0}, {int(idr.ElementNode), 1}, {int(idr.ElementNode), 2}}
var c12LabelsTypes = []c12Label{{int(idr.ElementNode), 0}, {int(idr.DocumentNode), 0}, {int(idr.TextNode), 0}, {int(idr.AttributeNode), 0}}

func c12Successors(w *c12World, maxLive int, labels []c12Label) []c12Op {
	var ops []c12Op
	live := []int{}
	for i, m := range w.m {
		if m.live {
			live = append(live, i)
		}
	}
	if len(live) < maxLive {
		answers := []int{0}
		if p := nodePool(); p != nil && p.Len() > 0 {
			answers = []int{0, 1}
			if p.Len() > 1 {
				answers = []int{0, 1, 2}
			}
		}
		for _, a := range answers {
			for _, l := range labels {
				ops = append(ops, c12Op{Kind: "create", A: l.typ, B: a, Format: l.format})
			}
		}
	}
	rootOf := func(i int) int {
		for w.m[i].parent >= 0 {
			i = w.m[i].parent
		}
		return i
	}
	for _, p := range live {
		for _, r := range live {
			if w.m[r].parent < 0 && rootOf(p) != r {
				ops = append(ops, c12Op{Kind: "add", A: p, B: r})
			}
		}
	}
	for _, n := range live {
		ops = append(ops, c12Op{Kind: "remove", A: n})
	}
	return ops
}

func c12Sig(msg string) string {
	for _, k := range []string{"panic", "handed out twice", "ID ", "in the pool", "not reset", "format data", "Parent", "FirstChild", "Sibling", "links", "audit"} {
		if strings.Contains(msg, k) {
			return "E1:" + strings.TrimSpace(strings.ToLower(strings.ReplaceAll(k, " ", "-")))
		}
	}
	return "E1:invariant"
}

// ---- E3: racing acquisitions ----

type c12Race struct {
	Threads [][]string `json:"threads"` // per thread: ops "c" create, "a" add last to first, "r" remove first root, "x" remove last
	Choices []int      `json:"schedule"`
}

// c12ThreadBody runs a small private history and records what it saw.
func c12ThreadBody(prog []string, tid int, out *[]string, owned *map[*idr.Node]int, allIDs *map[int64]int) func() {
	return func() {
		var mine []*idr.Node
		for _, op := range prog {
			switch op {
			case "c":
				n := idr.CreateNode(idr.ElementNode, fmt.Sprintf("t%d", tid))
				if o, taken := (*owned)[n]; taken {
					*out = append(*out, fmt.Sprintf("thread %d received a node that thread %d still owns", tid, o))
				}
				if n.Parent != nil || n.FirstChild != nil || n.NextSibling != nil || n.PrevSibling != nil || n.LastChild != nil {
					*out = append(*out, fmt.Sprintf("thread %d received a node with links", tid))
				}
				if o, dup := (*allIDs)[n.ID]; dup {
					*out = append(*out, fmt.Sprintf("ID %d handed to thread %d and thread %d", n.ID, o, tid))
				}
				(*allIDs)[n.ID] = tid
				(*owned)[n] = tid
				mine = append(mine, n)
			case "a":
				if len(mine) >= 2 && mine[len(mine)-1].Parent == nil && mine[0] != mine[len(mine)-1] {
					idr.AddChild(mine[0], mine[len(mine)-1])
				}
			case "r":
				if len(mine) > 0 {
					root := mine[0]
					var drop func(x *idr.Node)
					drop = func(x *idr.Node) {
						delete(*owned, x)
						for c := x.FirstChild; c != nil; c = c.NextSibling {
							drop(c)
						}
					}
					drop(root)
					idr.RemoveAndReleaseTree(root)
					var rest []*idr.Node
					for _, x := range mine {
						if o, still := (*owned)[x]; still && o == tid {
							rest = append(rest, x)
						}
					}
					mine = rest
				}
			}
			for _, x := range mine {
				if x.Data != fmt.Sprintf("t%d", tid) {
					*out = append(*out, fmt.Sprintf("thread %d: its node now reads %q", tid, x.Data))
				}
				if x.Parent == nil {
					if e := auditTree(x); e != "" {
						*out = append(*out, fmt.Sprintf("thread %d: %s", tid, e))
					}
				}
			}
		}
	}
}

func c12RunRace(r c12Race, x *core.Exec) (problems []string, deadlock bool, panics string) {
	resetProcessState()
	owned := map[*idr.Node]int{}
	allIDs := map[int64]int{}
	var bodies []func()
	for i, prog := range r.Threads {
		bodies = append(bodies, c12ThreadBody(prog, i, &problems, &owned, &allIDs))
	}
	ps, dl := vsync.RunThreads(x.Choose, bodies)
	for _, p := range ps {
		if p != nil {
			panics += fmt.Sprintf("thread %d: %v @ %s; ", p.Thread, p.Value, core.PanicSite(p.Stack))
		}
	}
	return problems, dl, panics
}

// ---- registration ----

type c12Case struct {
	Ops  []c12Op    `json:"ops,omitempty"`
	E2   *c01E2Case `json:"reader_case,omitempty"`
	Race *c12Race   `json:"race,omitempty"`
}

var c12Schemas = map[string]omniparser.Schema{}

func c12E2(schemaText, item, input string) (sig, detail string) {
	schema := c12Schemas[schemaText]
	if schema == nil {
		var err error
		schema, err, _ = hx.NewSchema("s", schemaText)
		if err != nil {
			return "harness:schema", err.Error()
		}
		c12Schemas[schemaText] = schema
	}
	idr.VerifSetNodeCaching(true)
	idr.VerifResetNodePool()
	vsync.PoolChoice = nil
	var res string
	pv, site := core.Safe(func() {
		tr, err := schema.NewTransform("in", strings.NewReader(input), &transformctx.Ctx{})
		if err != nil {
			return
		}
		var lastRoot *idr.Node
		for i := 0; i < 4*len(input)+16; i++ {
			b, err := tr.Read()
			st := hx.Classify(b, err)
			if st.Terminal() {
				break
			}
			if st.Kind != "rec" {
				continue
			}
			rr, rerr := tr.RawRecord()
			if rerr != nil {
				continue
			}
			n := rr.Raw().(*idr.Node)
			if e := auditTree(n); e != "" {
				res = fmt.Sprintf("record %d: %s", i, e)
				return
			}
			lastRoot = n
			for lastRoot.Parent != nil {
				lastRoot = lastRoot.Parent
			}
		}
		if lastRoot != nil && nodePool() != nil && !nodePool().Contains(lastRoot) {
			if e := auditTree(lastRoot); e != "" {
				res = "after the terminal result: " + e
			}
		}
	})
	if pv != nil {
		if dp, ok := pv.(vsync.DoublePut); ok {
			return "E2:node-released-twice:" + item, fmt.Sprintf("%v @ %s\ninput %q", dp, site, input)
		}
		return "", "" // other panics are C03's subject
	}
	if res != "" {
		return "E2:unsound-tree:" + item, fmt.Sprintf("%s\nschema %s input %q", res, item, input)
	}
	// the same input through the bare FormatReader whose caller never calls Release: the next Read
	// has to clean up, and what it hands out must be sound all the same
	mk := c12Factories[schemaText]
	if mk == nil {
		var err error
		if mk, err = hx.FormatReaderFactory(schemaText); err != nil {
			return "", ""
		}
		c12Factories[schemaText] = mk
	}
	idr.VerifResetNodePool()
	pv, site = core.Safe(func() {
		r, err := mk(input)
		if err != nil {
			return
		}
		after := 0
		for i := 0; i < 4*len(input)+16; i++ {
			n, err := r.Read()
			if err != nil {
				if r.IsContinuableError(err) && after == 0 {
					continue
				}
				// the caller keeps calling Read after the terminal result (still without any Release)
				if after++; after > 2 {
					return
				}
				continue
			}
			if e := auditTree(n); e != "" {
				res = fmt.Sprintf("reader without Release, record %d: %s", i, e)
				return
			}
		}
	})
	if pv != nil {
		if dp, ok := pv.(vsync.DoublePut); ok {
			return "E2:node-released-twice:" + item, fmt.Sprintf("reader without Release: %v @ %s\ninput %q", dp, site, input)
		}
		return "", ""
	}
	if res != "" {
		return "E2:unsound-tree:" + item, fmt.Sprintf("%s\nschema %s input %q", res, item, input)
	}
	return "", ""
}

var c12Factories = map[string]func(string) (fileformat.FormatReader, error){}

func init() {
	core.Register(&core.Prop{
		ID:    "C12",
		Level: "model_checking",
		Rule:  "E1: breadth-first search (one pass per label set) over all histories of CreateNode (element node in plain / XML / JSON format; second pass: plain node of type document / element / text / attribute; pool answer newest / fresh / oldest) . AddChild(any live node, any detached root) . RemoveAndReleaseTree(any live node) with at most 5 live nodes, deduplicated by canonical state (sorted forest shapes + pool size); after every operation the real links are compared with a slice-based mirror model, fresh nodes must be blank, pooled nodes reset and never live or duplicated, IDs never repeat (states and transitions counted). E2: every tree delivered through the Transform by all seven readers on corpus inputs and token strings is audited (links, acyclicity, pool membership) at every record and after the terminal result, also through the bare FormatReader whose caller never calls Release and calls Read twice more after the terminal result; a node released twice is caught by the shim pool; E2c: the csv2 / fixedlength2 hierarchy reader on every declaration hierarchy of up to 2 declarations and the EDI reader on every hierarchy of up to 3 (groups, nesting, (min,max) incl. min 2, every target position) x every line sequence up to 3 (thorough 4); E2b: the XML and JSON stream readers on every document of up to 3 (thorough 4) nodes x 19 / 18 target xpaths (the document root itself with accepting / rejecting filters, children, descendants, nested candidates). E2d: both stream readers over an input reader that fails twice at byte k (every k) and then carries on: the reader's cursor and candidate stay nodes of its own live tree. E3: 2-3 threads each running a private create/add/remove history under the cooperative scheduler at every pool/atomic operation, preemption bound 2 (all schedules), plus a free-running -race pass of the same bodies; E1 deep trees: chains of every depth 1..140 with leaves at the bottom (and beside the chain), released at the root or halfway, then more nodes acquired than released",
		Assumptions: []string{
			"the shim pool (vsync.Pool: LIFO free list with a choice of newest/fresh/oldest on Get) models sync.Pool's freedom to keep, drop and reorder cached objects; the free-running pass uses the real sync.Pool",
			"the -race pass is not exhaustive over schedules; it relies on the detector's happens-before analysis (exhaustive:false for that part)",
		},
		BudgetQuick: 250, BudgetThorough: 1500,
		Run:    c12Run,
		Replay: c12ReplayCase,
	})
}

func c12ReplayCase(raw json.RawMessage) (string, string) {
	var cs c12Case
	if err := json.Unmarshal(raw, &cs); err != nil {
		return "harness:bad-replay", err.Error()
	}
	switch {
	case cs.Ops != nil:
		_, e, at := c12Replay(cs.Ops)
		if e == "" {
			return "", "all invariants hold"
		}
		return c12Sig(e), fmt.Sprintf("after operation %d: %s", at, e)
	case cs.E2 != nil:
		sig, detail := c12E2(cs.E2.Schema, cs.E2.Item, cs.E2.Input)
		if sig == "" {
			detail = "all delivered trees are sound"
		}
		return sig, detail
	case cs.Race != nil:
		x := &core.Exec{Prefix: cs.Race.Choices}
		probs, dl, pan := c12RunRace(*cs.Race, x)
		if len(probs) == 0 && !dl && pan == "" {
			return "", "schedule is fine"
		}
		return "E3:" + c12RaceKind(probs, dl, pan), fmt.Sprintf("%v deadlock=%v %s", probs, dl, pan)
	}
	return "harness:bad-replay", "empty case"
}

func c12RaceKind(probs []string, dl bool, pan string) string {
	switch {
	case pan != "":
		return "panic"
	case dl:
		return "deadlock"
	case len(probs) > 0 && strings.Contains(probs[0], "still owns"):
		return "node-handed-to-two-owners"
	case len(probs) > 0 && strings.Contains(probs[0], "ID "):
		return "id-reused"
	}
	return "cross-thread-corruption"
}

func c12Run(c *core.Ctx) {
	// ---- E1: BFS (single worker explores; the space is small) ----
	maxOps, maxLive := 7, 5
	if !c.Quick() {
		maxOps, maxLive = 10, 7
	}
	if c.Shard == 0 {
		type item struct{ ops []c12Op }
		states, transitions := 0, 0
		// two passes: nodes of the three formats (what a recycled node carries over from its former life),
		// and plain nodes of every node type (no operation may treat a node by its type)
		for pass, labels := range [][]c12Label{c12LabelsFormats, c12LabelsTypes} {
			seen := map[string]bool{}
			frontier := []item{{nil}}
			resetProcessState()
			seen[(&c12World{ids: map[int64]bool{}}).key()] = true
			states++
			for depth := 0; depth < maxOps && len(frontier) > 0; depth++ {
				var next []item
				for _, it := range frontier {
					w, e, _ := c12Replay(it.ops)
					if e != "" {
						continue
					}
					for _, op := range c12Successors(w, maxLive, labels) {
						ops := append(append([]c12Op{}, it.ops...), op)
						c.Begin(func() interface{} { return c12Case{Ops: ops} })
						w2, e2, at := c12Replay(ops)
						transitions++
						c.Eval("E1|" + op.Kind)
						if e2 != "" {
							c.Violation(c12Sig(e2), fmt.Sprintf("history %v: after operation %d: %s", ops, at, e2), c12Case{Ops: ops},
								func() string {
									_, e3, _ := c12Replay(ops)
									if e3 == "" {
										return ""
									}
									return c12Sig(e3)
								})
							continue
						}
						k := w2.key()
						if !seen[k] {
							seen[k] = true
							states++
							next = append(next, item{ops})
						}
					}
					if c.TimeUp() {
						break
					}
				}
				frontier = next
				if pass == 0 {
					c.Max("bfs_depth_completed", int64(depth+1))
				} else {
					c.Max("bfs_depth_completed_node_types_pass", int64(depth+1))
				}
			}
		}
		c.Count("states", int64(states))
		c.Count("transitions", int64(transitions))
		c.Count("traces_validated_against_impl", int64(transitions))
		c.Sample(map[string]interface{}{"E1_example_history": []c12Op{{Kind: "create", A: 1}, {Kind: "create", A: 1, Format: 1}, {Kind: "add", A: 0, B: 1}, {Kind: "remove", A: 1}, {Kind: "create", A: 1, B: 0}}})
	}
	// ---- E1 (deep trees): a chain of every depth up to 140 with leaves at its bottom, with/without a leaf next
	// to every node of the chain, released at its root or at a node halfway down; afterwards more nodes than
	// were released are obtained (pool answers newest / oldest / fresh mixed): each is blank, no node and no
	// ID is handed out twice, the rest of the tree is intact ----
	if c.Shard == 1%c.NShards {
		deep := 0
		for d := 1; d <= 140; d++ {
			for _, leaves := range []int{1, 2, 3} {
				for _, side := range []bool{false, true} {
					for _, cutAt := range []int{0, d / 2} {
						var ops []c12Op
						ops = append(ops, c12Op{Kind: "create", A: 1, B: 1})
						chain := []int{0}
						n := 1
						addUnder := func(parent int, typ int) int {
							ops = append(ops, c12Op{Kind: "create", A: typ, B: 1}, c12Op{Kind: "add", A: parent, B: n})
							n++
							return n - 1
						}
						for i := 0; i < d; i++ {
							chain = append(chain, addUnder(chain[len(chain)-1], 1))
							if side {
								addUnder(chain[len(chain)-2], 2)
							}
						}
						for l := 0; l < leaves; l++ {
							addUnder(chain[len(chain)-1], 2)
						}
						ops = append(ops, c12Op{Kind: "remove", A: chain[cutAt]})
						for k := 0; k < n+3; k++ {
							ops = append(ops, c12Op{Kind: "create", A: 1 + k%2, B: []int{0, 2, 0, 1}[k%4]})
						}
						c.Begin(func() interface{} { return c12Case{Ops: ops} })
						_, e, at := c12Replay(ops)
						c.Eval("E1-deep|" + fmt.Sprint(d/20))
						deep++
						if e != "" {
							c.Violation(c12Sig(e)+":deep-tree", fmt.Sprintf("chain of depth %d, %d leaves at the bottom, side leaves=%v, released at depth %d: after operation %d: %s", d, leaves, side, cutAt, at, e), c12Case{Ops: ops},
								func() string {
									_, e3, _ := c12Replay(ops)
									if e3 == "" {
										return ""
									}
									return c12Sig(e3) + ":deep-tree"
								})
						}
					}
				}
			}
			if c.TimeUp() {
				break
			}
		}
		c.Count("deep_tree_histories", int64(deep))
	}
	// ---- E2 ----
	idx := 0
	L := 4
	if !c.Quick() {
		L = 5
	}
	for _, it := range corpus.Minimal() {
		inputs := append([]string{}, it.Inputs...)
		toks := tokAlphabets[it.Format]
		l := L
		if it.Format == "csv" || it.Format == "csv2" {
			l = L + 1
		}
		for pow, n := 1, 0; n < l; n++ {
			pow *= len(toks)
			if pow > 60000 {
				l = n
				break
			}
		}
		tokStrings(toks, l, func(s string, _ int) bool { inputs = append(inputs, s); return true })
		for _, in := range inputs {
			idx++
			if !c.Mine(idx) {
				continue
			}
			cs := c12Case{E2: &c01E2Case{Item: it.Name, Schema: it.Schema, Input: in}}
			c.Begin(func() interface{} { return cs })
			sig, detail := c12E2(it.Schema, it.Name, in)
			c.Eval("E2|" + it.Name)
			c.Count("reader_inputs_audited", 1)
			if strings.HasPrefix(sig, "harness:") {
				c.HarnessError(sig + detail)
			} else if sig != "" {
				c.Violation(sig, detail, cs, func() string { s, _ := c12E2(it.Schema, it.Name, in); return s })
			}
			if c.TimeUpEvery(16) {
				return
			}
		}
	}
	for _, f := range c10Formats() {
		for _, seq := range []string{"ABAB", "ACBDE", "EEDCA", "BBBB"} {
			idx++
			if !c.Mine(idx) {
				continue
			}
			in := c10Input(f, seq)
			if sig, detail := c12E2(f.Schema, "c10/"+f.Name, in); sig != "" && !strings.HasPrefix(sig, "harness:") {
				c.Violation(sig, detail, c12Case{E2: &c01E2Case{Item: "c10/" + f.Name, Schema: f.Schema, Input: in}}, nil)
			}
			c.Eval("E2|c10/" + f.Name)
		}
	}
	// E2c: the hierarchy reader (csv2 / fixedlength2) on every declaration hierarchy of up to 2 declarations
	// (groups, nesting, every (min,max) incl. min 2, every target position) x every unit sequence up
	// to 3 (thorough 4) over the declared names, a footer and an undeclared line: the runs that end in a
	// min-occurs or unexpected-data failure with a record half put together are the point
	{
		occ := [][2]int{{0, 1}, {0, -1}, {1, 1}, {1, 2}, {2, 2}, {2, -1}}
		maxLen := 3
		if !c.Quick() {
			maxLen = 4
		}
		alphabet := []string{"A", "B", "C", "E", "X"}
		for _, driver := range []string{"csv2", "fixedlength2", "edi"} {
			maxNodes, names, occs := 2, []string{"A", "B", "C"}, occ
			if driver == "edi" {
				// (the EDI reader has a matcher of its own; three declarations, so that a target can sit two
				// groups below the top)
				maxNodes, names, occs = 3, []string{"A", "B"}, [][2]int{{0, 1}, {1, 1}, {1, 2}, {0, -1}}
				alphabet = []string{"A", "B", "X"}
			}
			for nodes := 1; nodes <= maxNodes; nodes++ {
				gen.Hierarchies(gen.HierSpec{Nodes: nodes, Depth: 3, Names: names, Occ: occs}, func(_ int, decls []*ref.HDecl) bool {
					idx++
					if !c.Mine(idx) {
						return true
					}
					work := fromJSONDecls(toJSONDecls(decls))
					var st string
					if driver == "edi" {
						st = c12EDISchema(work)
					} else {
						c05Adapt(work)
						st = flatSchema(driver, work, false)
					}
					delete(c12Schemas, st) // (one schema per hierarchy: nothing to gain from keeping them)
					delete(c12Factories, st)
					names := make([]string, 0, maxLen)
					gen.Sequences(len(alphabet), maxLen, func(seq []int) bool {
						names = names[:0]
						for _, x := range seq {
							names = append(names, alphabet[x])
						}
						in := flatInput(driver, mkUnits(names), 0)
						if driver == "edi" {
							in = ediInput(mkUnits(names), 0)
						}
						cs := c12Case{E2: &c01E2Case{Item: "hierarchy/" + driver, Schema: st, Input: in}}
						c.Begin(func() interface{} { return cs })
						sig, detail := c12E2(st, "hierarchy/"+driver, in)
						c.Eval("E2c|" + driver)
						c.Count("reader_inputs_audited", 1)
						c.Count("E2c_hierarchy_reader_runs", 1)
						if strings.HasPrefix(sig, "harness:") {
							c.HarnessError(sig + detail + "\n" + st)
							return false
						} else if sig != "" {
							c.Violation(sig, detail, cs, func() string { s, _ := c12E2(st, "hierarchy/"+driver, in); return s })
						}
						return true
					})
					delete(c12Schemas, st)
					delete(c12Factories, st)
					return !c.TimeUp()
				})
			}
		}
	}
	// E2b: the two stream readers with every kind of target xpath (the document root itself, with a
	// filter that accepts / rejects it; children; descendants; nested candidates) on every small document
	{
		hd := func(f string) string {
			return `"parser_settings":{"version":"omni.2.1","file_format_type":"` + f + `"}`
		}
		jxp := []string{".", "/", ".[a='1']", ".[b]", ".[not(b)]", ".[count(*)=2]", ".[.='1']", "/*", "/*[.='1']", "/*[b]", "/a", "/a[b]", "/a/b[.='1']", "//*", "//*[b]", "//b[.='1']", "//b[not(b)]", "/*/*", "/*/*[.!='1']"}
		xxp := []string{".", "/", "/*", "/a", "/a[b]", "/a[not(b)]", "/a[@k='1']", "/a[.='1']", "/a/b", "/a/b[.='1']", "/a/*[not(*)]", "//*", "//*[b]", "//b", "//b[.='2']", "//a[not(@k)]", "/*/*", "/*/*[@k]"}
		run := func(format, doc string, xps []string) bool {
			idx++
			if !c.Mine(idx) {
				return true
			}
			c.Count("E2b_documents_"+format, 1)
			for _, xp := range xps {
				xq, _ := json.Marshal(xp)
				st := `{` + hd(format) + `,"transform_declarations":{"FINAL_OUTPUT":{"xpath":` + string(xq) + `,"custom_func":{"name":"copy"}}}}`
				item := "stream/" + format + "/" + xp
				cs := c12Case{E2: &c01E2Case{Item: item, Schema: st, Input: doc}}
				c.Begin(func() interface{} { return cs })
				sig, detail := c12E2(st, item, doc)
				c.Eval("E2b|" + item)
				c.Count("reader_inputs_audited", 1)
				if strings.HasPrefix(sig, "harness:") {
					c.HarnessError(sig + detail)
				} else if sig != "" {
					c.Violation(sig, detail, cs, func() string { s, _ := c12E2(st, item, doc); return s })
				}
			}
			return !c.TimeUp()
		}
		nmax := 3
		if !c.Quick() {
			nmax = 4
		}
		for n := 1; n <= nmax; n++ {
			stop := false
			c04JSONDocs(n, []string{"1", `"1"`, "null"}, []string{"a", "b"}, func(doc string) bool {
				if !run("json", doc, jxp) {
					stop = true
				}
				return !stop
			})
			al := c04XMLAlpha{names: []string{"a", "b"}, attrs: []string{"", "1"}, lead: []string{"", "1", "2"}, trail: []string{"", " "}}
			if n >= 3 {
				al = c04XMLAlpha{names: []string{"a", "b"}, attrs: []string{"", "1"}, lead: []string{"", "1"}, trail: []string{""}}
			}
			c04XMLDocs(n, 4, al, false, func(doc string) bool {
				if !run("xml", doc, xxp) {
					stop = true
				}
				return !stop
			})
			if stop {
				return
			}
		}
	}
	// E2d: the two stream readers over an input reader that fails twice in a row at byte k (for every k) and
	// then carries on: whatever the reader does with the failure, after every Read its cursor ('cur') and
	// its candidate ('stream') are nodes of its own live tree - never a node it has released
	{
		type faulty struct {
			data  string
			at    int
			pos   int
			fails int
		}
		readFaulty := func(f *faulty, p []byte) (int, error) {
			if f.pos >= f.at && f.fails < 2 {
				f.fails++
				return 0, fmt.Errorf("transient failure %d", f.fails)
			}
			if f.pos >= len(f.data) {
				return 0, io.EOF
			}
			end := len(f.data)
			if f.fails == 0 && f.at < end {
				end = f.at
			}
			n := copy(p, f.data[f.pos:end])
			f.pos += n
			return n, nil
		}
		docs := map[string][]string{
			"json": {`{"recs":[{"a":1,"b":{"c":[1,2,3]},"d":"x"},{"a":2,"b":{"c":[]},"d":"y"}]}`, `[[1,[2,3]],{"a":{"b":[4]}},5]`},
			"xml":  {`<r><o k="1"><a>1</a><b><c>2</c></b></o><o><a>3</a></o></r>`},
		}
		xps := map[string][]string{"json": {"/recs/*", "/*", "/recs/*[a=2]", "//b"}, "xml": {"/r/o", "/r/o[a='3']", "//b"}}
		for _, format := range []string{"json", "xml"} {
			for _, doc := range docs[format] {
				for _, xp := range xps[format] {
					for at := 0; at <= len(doc); at++ {
						idx++
						if !c.Mine(idx) {
							continue
						}
						cs := c12Case{E2: &c01E2Case{Item: "stream-with-transient-failure/" + format + "/" + xp, Input: doc, Variant: at}}
						c.Begin(func() interface{} { return cs })
						idr.VerifSetNodeCaching(true)
						idr.VerifResetNodePool()
						vsync.PoolChoice = nil
						f := &faulty{data: doc, at: at}
						rd := readerFunc(func(p []byte) (int, error) { return readFaulty(f, p) })
						var sr interface {
							Read() (*idr.Node, error)
						}
						var err error
						if format == "json" {
							sr, err = idr.NewJSONStreamReader(rd, xp)
						} else {
							sr, err = idr.NewXMLStreamReader(rd, xp)
						}
						if err != nil {
							continue
						}
						c.Count("E2d_faulted_stream_runs", 1)
						c.Eval("E2d|" + format)
						problem := ""
						pv, site := core.Safe(func() {
							for i := 0; i < 12 && problem == ""; i++ {
								_, rerr := sr.Read()
								root := unexportedNode(sr, "root")
								for _, field := range []string{"cur", "stream"} {
									n := unexportedNode(sr, field)
									if n == nil {
										continue
									}
									if nodePool() != nil && nodePool().Contains(n) {
										problem = fmt.Sprintf("after Read #%d (%v) the reader's '%s' is a node it has released (it is in the node pool)", i+1, rerr, field)
										break
									}
									top := n
									for top.Parent != nil {
										top = top.Parent
									}
									if root != nil && top != root {
										problem = fmt.Sprintf("after Read #%d (%v) the reader's '%s' is not in its tree any more", i+1, rerr, field)
										break
									}
								}
								if rerr == io.EOF {
									break
								}
							}
						})
						if pv != nil {
							problem = fmt.Sprintf("panic %v @ %s", pv, site)
						}
						if problem != "" {
							c.Violation("E2d:reader-keeps-a-released-node:"+format, fmt.Sprintf("%s target %s, input reader failing twice at byte %d of %q then carrying on: %s", format, xp, at, doc, problem), cs, nil)
						}
					}
				}
			}
		}
	}
	// ---- E3 ----
	progs := [][][]string{
		{{"c", "c", "a", "r"}, {"c", "r", "c"}},
		{{"c", "r", "c", "r"}, {"c", "c", "a", "r"}},
		{{"c", "c", "a", "r", "c"}, {"c", "r", "c", "c", "a"}},
	}
	if !c.Quick() {
		progs = append(progs, [][]string{{"c", "r", "c"}, {"c", "c", "a", "r"}, {"c", "r"}}, [][]string{{"c", "c", "c", "a", "r", "c"}, {"c", "r", "c", "r", "c", "r"}})
	}
	bound := 2
	for pi, threads := range progs {
		r := c12Race{Threads: threads}
		var probs []string
		var dl bool
		var pan string
		st := core.Explore(bound, c.Shard, c.NShards, 0, func(x *core.Exec) {
			c.Begin(func() interface{} { rr := r; rr.Choices = x.Choices(); return c12Case{Race: &rr} })
			probs, dl, pan = c12RunRace(r, x)
		}, func(x *core.Exec) bool {
			c.Eval(fmt.Sprintf("E3|%d|%d", pi, len(x.Points)))
			if len(probs) > 0 || dl || pan != "" {
				rr := r
				rr.Choices = x.Choices()
				c.Violation("E3:"+c12RaceKind(probs, dl, pan), fmt.Sprintf("threads %v schedule %v: %v deadlock=%v %s", threads, rr.Choices, probs, dl, pan), c12Case{Race: &rr}, nil)
			}
			return !c.TimeUp()
		})
		c.Count("schedules", int64(st.Executions))
		c.Max("scheduling_points_per_execution", int64(st.MaxPoints))
		c.Max("preemption_bound_completed", int64(bound))
	}
	// free-running race pass (real sync.Pool, race detector)
	if c.Shard == 0 {
		if msg := runRaceBinary("nodes", c.Alive); msg != "" {
			if strings.HasPrefix(msg, "skip:") {
				c.Note("free-running -race pass not run: " + msg)
			} else {
				c.Violation("E3:data-race-or-failure-in-free-running-pass", msg, c12Case{}, nil)
			}
		} else {
			c.Count("race_pass_runs", 1)
		}
	}
}

// runRaceBinary runs .build/mcrace <scenario>; "" = clean, "skip:..." = binary missing.
func runRaceBinary(scenario string, alive func()) string {
	bin := filepath.Join(core.VerifDir, ".build", "mcrace")
	if b := os.Getenv("VERIF_BIN_DIR"); b != "" {
		bin = filepath.Join(b, "mcrace")
	}
	if _, err := os.Stat(bin); err != nil {
		return "skip: " + bin + " not built"
	}
	// the subprocess has a deadline of its own; while it runs the watchdog of this worker is kept quiet (the
	// pass takes a minute or two on a loaded machine, and that is not a hang of a case)
	ctx, cancel := context.WithTimeout(context.Background(), 30*time.Minute)
	defer cancel()
	cmd := exec.CommandContext(ctx, bin, scenario)
	cmd.Env = append(os.Environ(), "GORACE=halt_on_error=1 exitcode=66")
	done := make(chan struct{})
	go func() {
		t := time.NewTicker(5 * time.Second)
		defer t.Stop()
		for {
			select {
			case <-done:
				return
			case <-t.C:
				if alive != nil {
					alive()
				}
			}
		}
	}()
	out, err := cmd.CombinedOutput()
	close(done)
	if ctx.Err() != nil {
		return "the free-running pass did not finish within 30 minutes\n" + string(out)
	}
	if err != nil {
		s := string(out)
		if len(s) > 3000 {
			s = s[:3000]
		}
		return fmt.Sprintf("%v\n%s", err, s)
	}
	return ""
}
