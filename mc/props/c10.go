package props

import (
	"encoding/json"
	"fmt"
	"regexp"
	"strings"

	"verif/mc/core"
	"verif/mc/gen"
	"verif/mc/hx"
)

// C10 — records are transformed independently; a failing record affects only itself:
// sequence enumeration with the law out(seq)[i] == out([seq[i]])[0].

type c10Fmt struct {
	Name   string
	Schema string
	Prefix string
	Suffix string
	Sep    string
	Rec    map[byte]string // A B good, C cast failure, D multiple xpath matches, E javascript throws
}

func c10Formats() []c10Fmt {
	h := func(f string) string {
		return `"parser_settings":{"version":"omni.2.1","file_format_type":"` + f + `"}`
	}
	jsThrow := `{"custom_func":{"name":"javascript","args":[{"const":"if (v=='boom') { throw 'bad ' + v } v + '!'"},{"const":"v"},{"xpath":"J"}]}}`
	ctxSelf := `{"custom_func":{"name":"javascript_with_context","args":[{"const":"var n = JSON.parse(_node); Object.keys(n).sort().join('+')"}]}}`
	return []c10Fmt{
		{Name: "xml", Schema: `{` + h("xml") + `,"transform_declarations":{"FINAL_OUTPUT":{"xpath":"/r/o","object":{
  "id":{"xpath":"@id"},"n":{"xpath":"N","type":"int"},"m":{"xpath":"M"},"j":` + jsThrow + `,"keys":` + ctxSelf + `,
  "items":{"array":[{"xpath":"I","custom_func":{"name":"javascript_with_context","args":[{"const":"JSON.parse(_node)"}]}}]},
  "first":{"xpath":"I[1]","template":"T"},"cp":{"custom_func":{"name":"copy"}},"firstcp":{"xpath":"I[1]","custom_func":{"name":"copy"}}}},
  "T":{"custom_func":{"name":"upper","args":[{"xpath":"."}]}}}}`,
			Prefix: "<r>", Suffix: "</r>", Rec: map[byte]string{
				'A': `<o id="1"><I>a</I><I>b</I><N>1</N><J>x</J></o>`,
				'B': `<o id="2"><I>c</I><N>22</N><M>m</M><J>y</J></o>`,
				'C': `<o id="3"><I>d</I><N>zz</N><J>x</J></o>`,
				'D': `<o id="4"><I>e</I><N>4</N><M>1</M><M>2</M><J>x</J></o>`,
				'E': `<o id="5"><I>f</I><N>5</N><J>boom</J></o>`}},
		{Name: "json", Schema: `{` + h("json") + `,"transform_declarations":{"FINAL_OUTPUT":{"xpath":"/*","object":{
  "id":{"xpath":"id"},"n":{"xpath":"N","type":"int"},"m":{"xpath":"M/*"},"j":` + jsThrow + `,"keys":` + ctxSelf + `,
  "items":{"array":[{"xpath":"I/*","custom_func":{"name":"javascript_with_context","args":[{"const":"JSON.parse(_node)"}]}}]},
  "first":{"xpath":"I/*[1]","template":"T"},"cp":{"custom_func":{"name":"copy"}},"firstcp":{"xpath":"I/*[1]","custom_func":{"name":"copy"}}}},
  "T":{"custom_func":{"name":"upper","args":[{"xpath":"."}]}}}}`,
			Prefix: "[", Suffix: "]", Sep: ",", Rec: map[byte]string{
				'A': `{"id":1,"I":["a","b"],"N":1,"J":"x"}`,
				'B': `{"id":2,"I":["c"],"N":22,"M":["m"],"J":"y"}`,
				'C': `{"id":3,"I":["d"],"N":"zz","J":"x"}`,
				'D': `{"id":4,"I":["e"],"N":4,"M":[1,2],"J":"x"}`,
				'E': `{"id":5,"I":["f"],"N":5,"J":"boom"}`}},
		{Name: "csv", Schema: `{` + h("csv") + `,"file_declaration":{"delimiter":",","data_row_index":1,"columns":[{"name":"id"},{"name":"N"},{"name":"J"},{"name":"M"}]},
 "transform_declarations":{"FINAL_OUTPUT":{"object":{"id":{"xpath":"id"},"n":{"xpath":"N","type":"int"},"m":{"xpath":"*[.='dup']"},"j":` + jsThrow + `,"keys":` + ctxSelf + `,"cp":{"custom_func":{"name":"copy"}},"t":{"xpath":"id","template":"T"}}},
 "T":{"custom_func":{"name":"upper","args":[{"xpath":"."}]}}}}`,
			Rec: map[byte]string{'A': "a1,1,x,-\n", 'B': "\"b,2\",22,y,dup\n", 'C': "c3,zz,x,-\n", 'D': "d4,4,dup,dup\n", 'E': "e5,5,boom,-\n"}},
		{Name: "csv2", Schema: `{` + h("csv2") + `,"file_declaration":{"delimiter":",","records":[{"name":"H","header":"^H","is_target":true,"columns":[{"name":"id","index":2},{"name":"N","index":3},{"name":"J","index":4}],
   "child_records":[{"name":"D","header":"^D","columns":[{"name":"v","index":2}]},{"name":"M","header":"^M","columns":[{"name":"w","index":2}]}]}]},
 "transform_declarations":{"FINAL_OUTPUT":{"object":{"id":{"xpath":"id"},"n":{"xpath":"N","type":"int"},"m":{"xpath":"M/w"},"j":` + jsThrow + `,"keys":` + ctxSelf + `,
  "items":{"array":[{"xpath":"D","custom_func":{"name":"javascript_with_context","args":[{"const":"JSON.parse(_node).v"}]}}]},"cp":{"custom_func":{"name":"copy"}},"first":{"xpath":"D[1]/v","template":"T"}}},
 "T":{"custom_func":{"name":"upper","args":[{"xpath":"."}]}}}}`,
			Rec: map[byte]string{'A': "H,a1,1,x\nD,a\nD,b\n", 'B': "H,b2,22,y\nD,c\nM,m\n", 'C': "H,c3,zz,x\nD,d\n", 'D': "H,d4,4,x\nD,e\nM,1\nM,2\n", 'E': "H,e5,5,boom\nD,f\n"}},
		{Name: "fixed-length", Schema: `{` + h("fixed-length") + `,"file_declaration":{"envelopes":[{"by_rows":2,"columns":[{"name":"id","start_pos":2,"length":2,"line_pattern":"^1"},{"name":"N","start_pos":4,"length":2,"line_pattern":"^1"},{"name":"J","start_pos":2,"length":4,"line_pattern":"^2"},{"name":"M","start_pos":6,"length":3,"line_pattern":"^2"}]}]},
 "transform_declarations":{"FINAL_OUTPUT":{"object":{"id":{"xpath":"id"},"n":{"xpath":"N","type":"int"},"m":{"xpath":"*[starts-with(.,'dup')]"},"j":` + jsThrow + `,"keys":` + ctxSelf + `,"cp":{"custom_func":{"name":"copy"}},"t":{"xpath":"id","template":"T"}}},
 "T":{"custom_func":{"name":"upper","args":[{"xpath":"."}]}}}}`,
			Rec: map[byte]string{'A': "1a1 1\n2x   -\n", 'B': "1b222\n2y   dup\n", 'C': "1c3zz\n2x   -\n", 'D': "1d4 4\n2dup dup\n", 'E': "1e5 5\n2boom-\n"}},
		{Name: "fixedlength2", Schema: `{` + h("fixedlength2") + `,"file_declaration":{"envelopes":[{"name":"H","header":"^H","is_target":true,"columns":[{"name":"id","start_pos":2,"length":2},{"name":"N","start_pos":4,"length":2},{"name":"J","start_pos":6,"length":4}],
   "child_envelopes":[{"name":"D","header":"^D","columns":[{"name":"v","start_pos":2,"length":1}]},{"name":"M","header":"^M","columns":[{"name":"w","start_pos":2,"length":1}]}]}]},
 "transform_declarations":{"FINAL_OUTPUT":{"object":{"id":{"xpath":"id"},"n":{"xpath":"N","type":"int"},"m":{"xpath":"M/w"},"j":` + jsThrow + `,"keys":` + ctxSelf + `,
  "items":{"array":[{"xpath":"D","custom_func":{"name":"javascript_with_context","args":[{"const":"JSON.parse(_node).v"}]}}]},"cp":{"custom_func":{"name":"copy"}},"first":{"xpath":"D[1]/v","template":"T"}}},
 "T":{"custom_func":{"name":"upper","args":[{"xpath":"."}]}}}}`,
			Rec: map[byte]string{'A': "Ha1 1x\nDa\nDb\n", 'B': "Hb222y\nDc\nMm\n", 'C': "Hc3zzx\nDd\n", 'D': "Hd4 4x\nDe\nM1\nM2\n", 'E': "He5 5boom\nDf\n"}},
		{Name: "edi", Schema: `{` + h("edi") + `,"file_declaration":{"segment_delimiter":"~","element_delimiter":"*","segment_declarations":[{"name":"ISA","child_segments":[
   {"name":"grp","type":"segment_group","is_target":true,"min":0,"max":-1,"child_segments":[{"name":"H","elements":[{"name":"id","index":1},{"name":"N","index":2},{"name":"J","index":3}]},
     {"name":"D","min":0,"max":-1,"elements":[{"name":"v","index":1}]},{"name":"M","min":0,"max":-1,"elements":[{"name":"w","index":1}]}]}]},{"name":"IEA"}]},
 "transform_declarations":{"FINAL_OUTPUT":{"object":{"id":{"xpath":"H/id"},"n":{"xpath":"H/N","type":"int"},"m":{"xpath":"M/w"},"j":{"xpath":"H","template":"JS"},"keys":` + ctxSelf + `,
  "items":{"array":[{"xpath":"D","custom_func":{"name":"javascript_with_context","args":[{"const":"JSON.parse(_node).v"}]}}]},"cp":{"custom_func":{"name":"copy"}},"first":{"xpath":"D[1]/v","template":"T"}}},
 "JS":` + jsThrow + `,"T":{"custom_func":{"name":"upper","args":[{"xpath":"."}]}}}}`,
			Prefix: "ISA~", Suffix: "IEA~", Rec: map[byte]string{'A': "H*a1*1*x~D*a~D*b~", 'B': "H*b2*22*y~D*c~M*m~", 'C': "H*c3*zz*x~D*d~", 'D': "H*d4*4*x~D*e~M*1~M*2~", 'E': "H*e5*5*boom~D*f~"}},
	}
}

type c10Case struct {
	Fmt string `json:"format_item"`
	Seq string `json:"record_sequence"`
}

var digitsRe = regexp.MustCompile(`[0-9]+`)

// c10Norm drops positional information (line/segment numbers) from failure texts.
func c10Norm(s hx.Step) string {
	if s.Kind == "rec" {
		return "rec " + s.Out + " #" + s.Sum
	}
	if s.Kind == "fail" {
		e := s.Err
		if i := strings.Index(e, "fail to transform"); i >= 0 {
			e = e[i:]
		}
		return "fail " + digitsRe.ReplaceAllString(e, "N")
	}
	return s.Kind
}

func c10Input(f c10Fmt, seq string) string {
	var parts []string
	for i := 0; i < len(seq); i++ {
		parts = append(parts, f.Rec[seq[i]])
	}
	return f.Prefix + strings.Join(parts, f.Sep) + f.Suffix
}

func c10Run(f c10Fmt, seq string) ([]string, string) {
	schema, err, _ := hx.NewSchema("s", f.Schema)
	if err != nil {
		return nil, "schema rejected: " + err.Error()
	}
	r := hx.Run(schema, strings.NewReader(c10Input(f, seq)), hx.Opts{MaxReads: 200})
	if r.PanicSite != "" {
		return nil, "panic " + r.PanicVal + " @ " + r.PanicSite
	}
	var out []string
	for _, s := range r.Steps {
		out = append(out, c10Norm(s))
	}
	return out, ""
}

func c10Check(cs c10Case, solo map[byte]string) (sig, detail string) {
	var f *c10Fmt
	for _, x := range c10Formats() {
		if x.Name == cs.Fmt {
			x := x
			f = &x
		}
	}
	if f == nil {
		return "harness:unknown-format", cs.Fmt
	}
	if solo == nil {
		solo = map[byte]string{}
		for sym := range f.Rec {
			o, e := c10Run(*f, string(sym))
			if e != "" || len(o) != 2 || o[1] != "eof" {
				return "harness:solo-run", fmt.Sprintf("%s record %c: %v %s", f.Name, sym, o, e)
			}
			solo[sym] = o[0]
		}
	}
	out, e := c10Run(*f, cs.Seq)
	if e != "" {
		return "panic-or-setup:" + f.Name, e
	}
	if len(out) != len(cs.Seq)+1 || out[len(out)-1] != "eof" {
		return "result-count:" + f.Name, fmt.Sprintf("%s sequence %s: %d results %v", f.Name, cs.Seq, len(out), out)
	}
	for i := 0; i < len(cs.Seq); i++ {
		if out[i] != solo[cs.Seq[i]] {
			kind := "record-depends-on-neighbours"
			if strings.HasPrefix(solo[cs.Seq[i]], "fail") != strings.HasPrefix(out[i], "fail") {
				kind = "failure-not-confined-to-its-record"
			}
			return kind + ":" + f.Name, fmt.Sprintf("%s sequence %s position %d (record %c):\n-- in the sequence: %s\n-- alone:           %s\n-- whole transcript: %v", f.Name, cs.Seq, i, cs.Seq[i], out[i], solo[cs.Seq[i]], out)
		}
	}
	return "", ""
}

func init() {
	core.Register(&core.Prop{
		ID:    "C10",
		Level: "exploration",
		Rule:  "for each of the seven formats a schema that addresses only the record's own data (fields, type casts, arrays over children, templates, copy, javascript, javascript_with_context on the record and on its children) and a record alphabet {two good records with different data and shapes, one failing by type cast, one by multiple xpath matches, one by a throwing script}: every record sequence up to length 4 (thorough 6); oracle out(seq)[i] == out([seq[i]])[0] for every position (bytes, checksum, failure class and text without positions), which implies the concatenation, permutation and replacement laws; distinct by (format, sequence)",
		Assumptions: []string{
			"failure texts are compared after masking digits (line / segment numbers legitimately depend on the position)",
		},
		Run: func(c *core.Ctx) {
			maxLen := 4
			if !c.Quick() {
				maxLen = 6
			}
			idx := 0
			for _, f := range c10Formats() {
				f := f
				solo := map[byte]string{}
				bad := false
				for sym := range f.Rec {
					o, e := c10Run(f, string(sym))
					if e != "" || len(o) != 2 || o[1] != "eof" {
						c.HarnessError(fmt.Sprintf("solo run %s %c: %v %s", f.Name, sym, o, e))
						bad = true
					} else {
						solo[sym] = o[0]
					}
				}
				if bad {
					continue
				}
				// sanity: the alphabet has 2 good and 3 failing records
				nf := 0
				for _, v := range solo {
					if strings.HasPrefix(v, "fail") {
						nf++
					}
				}
				if nf != 3 {
					c.HarnessError(fmt.Sprintf("%s: expected 3 failing records in the alphabet, got %d: %v", f.Name, nf, solo))
				}
				syms := "ABCDE"
				gen.Sequences(5, maxLen, func(s []int) bool {
					if len(s) < 2 {
						return true
					}
					idx++
					if !c.Mine(idx) {
						return true
					}
					b := make([]byte, len(s))
					for i, x := range s {
						b[i] = syms[x]
					}
					cs := c10Case{Fmt: f.Name, Seq: string(b)}
					c.Begin(func() interface{} { return cs })
					sig, detail := c10Check(cs, solo)
					c.Eval(f.Name + "|" + cs.Seq)
					switch {
					case strings.HasPrefix(sig, "harness:"):
						c.HarnessError(sig + ": " + detail)
					case sig != "":
						c.Violation(sig, detail, cs, func() string { s, _ := c10Check(cs, nil); return s })
					case c.WantSample() && len(b) == maxLen && idx%37 == 0:
						c.Sample(map[string]interface{}{"format": f.Name, "sequence": cs.Seq, "input": c10Input(f, cs.Seq), "solo_results": solo})
					}
					return !c.TimeUp()
				})
			}
		},
		Replay: func(raw json.RawMessage) (string, string) {
			var cs c10Case
			if err := json.Unmarshal(raw, &cs); err != nil {
				return "harness:bad-replay", err.Error()
			}
			sig, detail := c10Check(cs, nil)
			if sig == "" {
				detail = "every position equals its solo result"
			}
			return sig, detail
		},
	})
}
