package props

import (
	"encoding/json"
	"fmt"
	"github.com/jf-tech/omniparser"
	"io"
	"regexp"
	"strings"
	"testing/iotest"

	"verif/mc/core"
	"verif/mc/gen"
	"verif/mc/hx"
)

// C10 — records are transformed independently; a failing record affects only itself:
// sequence enumeration with the law out(seq)[i] == out([seq[i]])[0].

type c10Fmt struct {
	Name   string
	Schema string
	Prefix string
	Suffix string
	Sep    string
	Rec    map[byte]string // A B good, C cast failure, D multiple xpath matches, E javascript throws
	// Syms overrides the record alphabet "ABCDE"; a symbol may also be a NON-target unit (its solo run
	// delivers nothing), which must leave the results of the target records around it unchanged
	Syms string
	// Render, when set, lays out the input for a sequence instead of Prefix + Rec... + Suffix
	Render func(f c10Fmt, seq string) string
}

func (f c10Fmt) syms() string {
	if f.Syms != "" {
		return f.Syms
	}
	return "ABCDE"
}

func c10Formats() []c10Fmt {
	h := func(f string) string {
		return `"parser_settings":{"version":"omni.2.1","file_format_type":"` + f + `"}`
	}
	jsThrow := `{"custom_func":{"name":"javascript","args":[{"const":"if (v=='boom') { throw 'bad ' + v } v + '!'"},{"const":"v"},{"xpath":"J"}]}}`
	ctxSelf := `{"custom_func":{"name":"javascript_with_context","args":[{"const":"var n = JSON.parse(_node); Object.keys(n).sort().join('+')"}]}}`
	// a script that looks for names it was not given (evaluated after "j": arguments of a call that threw must be gone)
	jsProbe := `{"custom_func":{"name":"javascript","args":[{"const":"typeof v + '/' + typeof _node"}]}}`
	// the same probe as the FIRST script of a record (children are evaluated in name order): what the last
	// script of the record before - possibly a failing one - left behind is seen by the next call only
	jsProbe0 := `{"custom_func":{"name":"javascript","args":[{"const":"typeof v + ':' + typeof _node"}]}}`
	return []c10Fmt{
		{Name: "xml", Schema: `{` + h("xml") + `,"transform_declarations":{"FINAL_OUTPUT":{"xpath":"/r/o","object":{
  "anc":{"xpath":"..","object":{"cur":{"xpath":"o/N"},"cnt":{"custom_func":{"name":"concat","args":[{"xpath":"o/@id"},{"const":"/"},{"xpath":"o/J"}]}}}},
  "id":{"xpath":"@id"},"n":{"xpath":"N","type":"int"},"m":{"xpath":"M"},"j":` + jsThrow + `,"a0":` + jsProbe0 + `,"zp":` + jsProbe + `,"keys":` + ctxSelf + `,
  "items":{"array":[{"xpath":"I","custom_func":{"name":"javascript_with_context","args":[{"const":"JSON.parse(_node)"}]}}]},
  "first":{"xpath":"I[1]","template":"T"},"cp":{"custom_func":{"name":"copy"}},"firstcp":{"xpath":"I[1]","custom_func":{"name":"copy"}}}},
  "T":{"custom_func":{"name":"upper","args":[{"xpath":"."}]}}}}`,
			Prefix: "<r>", Suffix: "</r>", Rec: map[byte]string{
				'A': `<o id="1"><I>a</I><I>b</I><N>1</N><J>x</J></o>`,
				'B': `<o id="2"><I>c</I><N>22</N><M>m</M><J>y</J></o>`,
				'C': `<o id="3"><I>d</I><N>zz</N><J>x</J></o>`,
				'D': `<o id="4"><I>e</I><N>4</N><M>1</M><M>2</M><J>x</J></o>`,
				'E': `<o id="5"><I>f</I><N>5</N><J>boom</J></o>`}},
		{Name: "json", Schema: `{` + h("json") + `,"transform_declarations":{"FINAL_OUTPUT":{"xpath":"/*","object":{
  "anc":{"xpath":"..","object":{"cur":{"xpath":"*/N"},"cnt":{"custom_func":{"name":"concat","args":[{"xpath":"*/id"},{"const":"/"},{"xpath":"*/J"}]}}}},
  "id":{"xpath":"id"},"n":{"xpath":"N","type":"int"},"m":{"xpath":"M/*"},"j":` + jsThrow + `,"a0":` + jsProbe0 + `,"zp":` + jsProbe + `,"keys":` + ctxSelf + `,
  "items":{"array":[{"xpath":"I/*","custom_func":{"name":"javascript_with_context","args":[{"const":"JSON.parse(_node)"}]}}]},
  "first":{"xpath":"I/*[1]","template":"T"},"cp":{"custom_func":{"name":"copy"}},"firstcp":{"xpath":"I/*[1]","custom_func":{"name":"copy"}}}},
  "T":{"custom_func":{"name":"upper","args":[{"xpath":"."}]}}}}`,
			Prefix: "[", Suffix: "]", Sep: ",", Rec: map[byte]string{
				'A': `{"id":1,"I":["a","b"],"N":1,"J":"x"}`,
				'B': `{"id":2,"I":["c"],"N":22,"M":["m"],"J":"y"}`,
				'C': `{"id":3,"I":["d"],"N":"zz","J":"x"}`,
				'D': `{"id":4,"I":["e"],"N":4,"M":[1,2],"J":"x"}`,
				'E': `{"id":5,"I":["f"],"N":5,"J":"boom"}`}},
		{Name: "csv", Schema: `{` + h("csv") + `,"file_declaration":{"delimiter":",","data_row_index":1,"columns":[{"name":"id"},{"name":"N"},{"name":"J"},{"name":"M"}]},
 "transform_declarations":{"FINAL_OUTPUT":{"object":{"id":{"xpath":"id"},"n":{"xpath":"N","type":"int"},"m":{"xpath":"*[.='dup']"},"j":` + jsThrow + `,"a0":` + jsProbe0 + `,"zp":` + jsProbe + `,"keys":` + ctxSelf + `,"cp":{"custom_func":{"name":"copy"}},"t":{"xpath":"id","template":"T"}}},
 "T":{"custom_func":{"name":"upper","args":[{"xpath":"."}]}}}}`,
			Rec: map[byte]string{'A': "a1,1,x,-\n", 'B': "\"b,2\",22,y,dup\n", 'C': "c3,zz,x,-\n", 'D': "d4,4,dup,dup\n", 'E': "e5,5,boom,-\n"}},
		{Name: "csv2", Schema: `{` + h("csv2") + `,"file_declaration":{"delimiter":",","records":[{"name":"H","header":"^H","is_target":true,"columns":[{"name":"id","index":2},{"name":"N","index":3},{"name":"J","index":4}],
   "child_records":[{"name":"D","header":"^D","columns":[{"name":"v","index":2}]},{"name":"M","header":"^M","columns":[{"name":"w","index":2}]}]}]},
 "transform_declarations":{"FINAL_OUTPUT":{"object":{"anc":{"xpath":"..","object":{"cur":{"xpath":"H/N"},"cnt":{"custom_func":{"name":"concat","args":[{"xpath":"H/id"},{"const":"/"},{"xpath":"H/J"}]}}}},
  "id":{"xpath":"id"},"n":{"xpath":"N","type":"int"},"m":{"xpath":"M/w"},"j":` + jsThrow + `,"a0":` + jsProbe0 + `,"zp":` + jsProbe + `,"keys":` + ctxSelf + `,
  "items":{"array":[{"xpath":"D","custom_func":{"name":"javascript_with_context","args":[{"const":"JSON.parse(_node).v"}]}}]},"cp":{"custom_func":{"name":"copy"}},"first":{"xpath":"D[1]/v","template":"T"}}},
 "T":{"custom_func":{"name":"upper","args":[{"xpath":"."}]}}}}`,
			Rec: map[byte]string{'A': "H,a1,1,x\nD,a\nD,b\n", 'B': "H,b2,22,y\nD,c\nM,m\n", 'C': "H,c3,zz,x\nD,d\n", 'D': "H,d4,4,x\nD,e\nM,1\nM,2\n", 'E': "H,e5,5,boom\nD,f\n"}},
		{Name: "fixed-length", Schema: `{` + h("fixed-length") + `,"file_declaration":{"envelopes":[{"by_rows":2,"columns":[{"name":"id","start_pos":2,"length":2,"line_pattern":"^1"},{"name":"N","start_pos":4,"length":2,"line_pattern":"^1"},{"name":"J","start_pos":2,"length":4,"line_pattern":"^2"},{"name":"M","start_pos":6,"length":3,"line_pattern":"^2"}]}]},
 "transform_declarations":{"FINAL_OUTPUT":{"object":{"id":{"xpath":"id"},"n":{"xpath":"N","type":"int"},"m":{"xpath":"*[starts-with(.,'dup')]"},"j":` + jsThrow + `,"a0":` + jsProbe0 + `,"zp":` + jsProbe + `,"keys":` + ctxSelf + `,"cp":{"custom_func":{"name":"copy"}},"t":{"xpath":"id","template":"T"}}},
 "T":{"custom_func":{"name":"upper","args":[{"xpath":"."}]}}}}`,
			Rec: map[byte]string{'A': "1a1 1\n2x   -\n", 'B': "1b222\n2y   dup\n", 'C': "1c3zz\n2x   -\n", 'D': "1d4 4\n2dup dup\n", 'E': "1e5 5\n2boom-\n"}},
		{Name: "fixedlength2", Schema: `{` + h("fixedlength2") + `,"file_declaration":{"envelopes":[{"name":"H","header":"^H","is_target":true,"columns":[{"name":"id","start_pos":2,"length":2},{"name":"N","start_pos":4,"length":2},{"name":"J","start_pos":6,"length":4}],
   "child_envelopes":[{"name":"D","header":"^D","columns":[{"name":"v","start_pos":2,"length":1}]},{"name":"M","header":"^M","columns":[{"name":"w","start_pos":2,"length":1}]}]}]},
 "transform_declarations":{"FINAL_OUTPUT":{"object":{"anc":{"xpath":"..","object":{"cur":{"xpath":"H/N"},"cnt":{"custom_func":{"name":"concat","args":[{"xpath":"H/id"},{"const":"/"},{"xpath":"H/J"}]}}}},
  "id":{"xpath":"id"},"n":{"xpath":"N","type":"int"},"m":{"xpath":"M/w"},"j":` + jsThrow + `,"a0":` + jsProbe0 + `,"zp":` + jsProbe + `,"keys":` + ctxSelf + `,
  "items":{"array":[{"xpath":"D","custom_func":{"name":"javascript_with_context","args":[{"const":"JSON.parse(_node).v"}]}}]},"cp":{"custom_func":{"name":"copy"}},"first":{"xpath":"D[1]/v","template":"T"}}},
 "T":{"custom_func":{"name":"upper","args":[{"xpath":"."}]}}}}`,
			Rec: map[byte]string{'A': "Ha1 1x\nDa\nDb\n", 'B': "Hb222y\nDc\nMm\n", 'C': "Hc3zzx\nDd\n", 'D': "Hd4 4x\nDe\nM1\nM2\n", 'E': "He5 5boom\nDf\n"}},
		{Name: "edi", Schema: `{` + h("edi") + `,"file_declaration":{"segment_delimiter":"~","element_delimiter":"*","segment_declarations":[{"name":"ISA","child_segments":[
   {"name":"grp","type":"segment_group","is_target":true,"min":0,"max":-1,"child_segments":[{"name":"H","elements":[{"name":"id","index":1},{"name":"N","index":2},{"name":"J","index":3}]},
     {"name":"D","min":0,"max":-1,"elements":[{"name":"v","index":1}]},{"name":"M","min":0,"max":-1,"elements":[{"name":"w","index":1}]}]}]},{"name":"IEA"}]},
 "transform_declarations":{"FINAL_OUTPUT":{"object":{"anc":{"xpath":"..","object":{"cur":{"xpath":"grp/H/N"},"cnt":{"custom_func":{"name":"concat","args":[{"xpath":"grp/H/id"},{"const":"/"},{"xpath":"grp/H/J"}]}}}},
  "id":{"xpath":"H/id"},"n":{"xpath":"H/N","type":"int"},"m":{"xpath":"M/w"},"j":{"xpath":"H","template":"JS"},"a0":` + jsProbe0 + `,"zp":` + jsProbe + `,"keys":` + ctxSelf + `,
  "items":{"array":[{"xpath":"D","custom_func":{"name":"javascript_with_context","args":[{"const":"JSON.parse(_node).v"}]}}]},"cp":{"custom_func":{"name":"copy"}},"first":{"xpath":"D[1]/v","template":"T"}}},
 "JS":` + jsThrow + `,"T":{"custom_func":{"name":"upper","args":[{"xpath":"."}]}}}}`,
			Prefix: "ISA~", Suffix: "IEA~", Rec: map[byte]string{'A': "H*a1*1*x~D*a~D*b~", 'B': "H*b2*22*y~D*c~M*m~", 'C': "H*c3*zz*x~D*d~", 'D': "H*d4*4*x~D*e~M*1~M*2~", 'E': "H*e5*5*boom~D*f~"}},
		// target records among siblings that have the same local name under another namespace prefix, or
		// another name altogether: those (N, M) are not records and must not become ones next to a record
		{Name: "xml-ns", Schema: `{` + h("xml") + `,"transform_declarations":{"FINAL_OUTPUT":{"xpath":"/r/v1:o","object":{"id":{"xpath":"@id"},"n":{"xpath":"v1:N","type":"int"},"x":{"xpath":"v2:N"}}}}}`,
			Prefix: `<r xmlns:v1="u1" xmlns:v2="u2">`, Suffix: "</r>", Syms: "ABCNMRST", Rec: map[byte]string{
				// S and T declare namespaces on the record element itself: another prefix for a URI of the
				// enclosing scope, and two prefixes for that URI at once; whatever they bind ends with them
				'S': `<v1:o id="5" xmlns:w="u2"><v1:N>5</v1:N><w:N>s</w:N></v1:o>`,
				'T': `<v1:o id="6" xmlns:p="u2" xmlns:q="u2"><v1:N>6</v1:N><q:N>t</q:N></v1:o>`,
				// R binds the records' namespace URI to another prefix somewhere inside itself
				'R': `<v1:o id="4"><v1:N>4</v1:N><z:e xmlns:z="u1">r</z:e></v1:o>`,
				'A': `<v1:o id="1"><v1:N>1</v1:N><v2:N>x</v2:N></v1:o>`,
				'B': `<v1:o id="2"><v1:N>22</v1:N></v1:o>`,
				'C': `<v1:o id="3"><v1:N>zz</v1:N></v1:o>`,
				'N': `<v2:o id="8"><v1:N>8</v1:N></v2:o>`,
				'M': `<o id="9"><v1:N>9</v1:N></o>`}},
		// a record whose transform succeeds but whose result has no JSON form (float NaN / Inf): that failure
		// comes after the transform, when the result is encoded - and affects that record only
		{Name: "json-nan", Schema: `{` + h("json") + `,"transform_declarations":{"FINAL_OUTPUT":{"xpath":"/*","object":{"id":{"xpath":"id"},"v":{"xpath":"v","type":"float"}}}}}`,
			Prefix: "[", Suffix: "]", Sep: ",", Syms: "ABGH", Rec: map[byte]string{'A': `{"id":1,"v":"1.5"}`, 'B': `{"id":2,"v":2}`, 'G': `{"id":3,"v":"NaN"}`, 'H': `{"id":4,"v":"-Inf"}`}},
		{Name: "xml-nan", Schema: `{` + h("xml") + `,"transform_declarations":{"FINAL_OUTPUT":{"xpath":"/r/o","object":{"id":{"xpath":"@id"},"v":{"xpath":"v","type":"float"}}}}}`,
			Prefix: "<r>", Suffix: "</r>", Syms: "ABGH", Rec: map[byte]string{'A': `<o id="1"><v>1.5</v></o>`, 'B': `<o id="2"><v>2</v><w/></o>`, 'G': `<o id="3"><v>NaN</v></o>`, 'H': `<o id="4"><v>Inf</v></o>`}},
		{Name: "csv2-nan", Schema: `{` + h("csv2") + `,"file_declaration":{"delimiter":",","records":[{"name":"H","header":"^H","is_target":true,"columns":[{"name":"id","index":2},{"name":"v","index":3}],"child_records":[{"name":"D","header":"^D","columns":[{"name":"w","index":2}]}]}]},
 "transform_declarations":{"FINAL_OUTPUT":{"object":{"id":{"xpath":"id"},"v":{"xpath":"v","type":"float"},"w":{"array":[{"xpath":"D/w"}]}}}}}`,
			Syms: "ABGH", Rec: map[byte]string{'A': "H,1,1.5\nD,a\n", 'B': "H,2,2\n", 'G': "H,3,NaN\nD,b\nD,c\n", 'H': "H,4,+Inf\n"}},
		{Name: "edi-nan", Schema: `{` + h("edi") + `,"file_declaration":{"segment_delimiter":"~","element_delimiter":"*","segment_declarations":[{"name":"ISA","child_segments":[
   {"name":"grp","type":"segment_group","is_target":true,"min":0,"max":-1,"child_segments":[{"name":"H","elements":[{"name":"id","index":1},{"name":"v","index":2}]},{"name":"D","min":0,"max":-1,"elements":[{"name":"w","index":1}]}]}]},{"name":"IEA"}]},
 "transform_declarations":{"FINAL_OUTPUT":{"object":{"id":{"xpath":"H/id"},"v":{"xpath":"H/v","type":"float"},"w":{"array":[{"xpath":"D/w"}]}}}}}`,
			Prefix: "ISA~", Suffix: "IEA~", Syms: "ABGH", Rec: map[byte]string{'A': "H*1*1.5~D*a~", 'B': "H*2*2~", 'G': "H*3*NaN~D*b~D*c~", 'H': "H*4*Inf~"}},
		// records that differ only in what a lossy rendering of the record does not show: an attribute of a
		// text-only element, the order of differently named children, text between the children; and a
		// record equal to its neighbour except for where its two values are split ("AB"+"12" / "A"+"B12")
		{Name: "xml-near-twins", Schema: `{` + h("xml") + `,"transform_declarations":{"FINAL_OUTPUT":{"xpath":"/r/o","object":{
  "sku":{"xpath":"sku"},"cur":{"xpath":"price/@cur"},"price":{"xpath":"price"},"first":{"xpath":"*[1]"},"txt":{"xpath":"text()[1]"},
  "js":{"custom_func":{"name":"javascript","args":[{"const":"s + '-' + n"},{"const":"s"},{"xpath":"s"},{"const":"n"},{"xpath":"n"}]}}}}}}`,
			Prefix: "<r>", Suffix: "</r>", Syms: "ABGHKL", Rec: map[byte]string{
				'A': `<o><sku>X1</sku><price cur="USD">9.5</price><s>AB</s><n>12</n></o>`,
				'B': `<o><sku>X1</sku><price cur="EUR">9.5</price><s>AB</s><n>12</n></o>`,
				'G': `<o><price cur="USD">9.5</price><sku>X1</sku><s>AB</s><n>12</n></o>`,
				'H': `<o><sku>X1</sku>t<price cur="USD">9.5</price><s>AB</s><n>12</n></o>`,
				'K': `<o><sku>X1</sku><price cur="USD">9.5</price><s>A</s><n>B12</n></o>`,
				'L': `<o><sku>X1</sku><price cur="USD">9.5</price><s>AB1</s><n>2</n></o>`}},
		{Name: "csv-near-twins", Schema: `{` + h("csv") + `,"file_declaration":{"delimiter":",","data_row_index":1,"columns":[{"name":"s"},{"name":"n"},{"name":"k"}]},
 "transform_declarations":{"FINAL_OUTPUT":{"object":{"k":{"xpath":"k"},
  "js":{"custom_func":{"name":"javascript","args":[{"const":"s + '-' + n"},{"const":"s"},{"xpath":"s"},{"const":"n"},{"xpath":"n"}]}},
  "js3":{"custom_func":{"name":"javascript","args":[{"const":"[a, b, c].join('|')"},{"const":"a"},{"xpath":"s"},{"const":"b"},{"xpath":"n"},{"const":"c"},{"xpath":"k"}]}}}}}}`,
			Syms: "ABKLM", Rec: map[byte]string{'A': "AB,12,1\n", 'B': "AB,12,2\n", 'K': "A,B12,1\n", 'L': "AB1,2,1\n", 'M': "AB,1,21\n"}},
		// records that are members of JSON objects (keyed by position) inside containers that repeat, and
		// a target xpath with a filter: F is a record the filter turns down, '|' starts the next container;
		// neither is a record, and neither may change what the records around it give
		{Name: "json-keyed-batches", Schema: `{` + h("json") + `,"transform_declarations":{"FINAL_OUTPUT":{"xpath":"/batches/*/*[status='open']","object":{
  "n":{"xpath":"N","type":"int"},"s":{"xpath":"status"},"m":{"xpath":"M/*"},"cp":{"custom_func":{"name":"copy"}}}}}}`,
			Syms: "ABCDF|", Rec: map[byte]string{
				'A': `{"status":"open","N":1}`,
				'B': `{"N":22,"M":["m"],"status":"open"}`,
				'C': `{"status":"open","N":"zz"}`,
				'D': `{"status":"open","N":4,"M":[1,2]}`,
				'F': `{"status":"closed","N":7}`,
				'|': ``},
			Render: func(f c10Fmt, seq string) string {
				var b strings.Builder
				b.WriteString(`{"batches":{"b0":{`)
				first := true
				for i := 0; i < len(seq); i++ {
					if seq[i] == '|' {
						fmt.Fprintf(&b, `},"b%d":{`, i+1)
						first = true
						continue
					}
					if !first {
						b.WriteString(",")
					}
					first = false
					fmt.Fprintf(&b, `"o%d":%s`, i, f.Rec[seq[i]])
				}
				b.WriteString(`}}}`)
				return b.String()
			}},
	}
}

type c10Case struct {
	Fmt string `json:"format_item"`
	Seq string `json:"record_sequence"`
}

var digitsRe = regexp.MustCompile(`[0-9]+`)

// c10Norm drops positional information (line/segment numbers) from failure texts.
func c10Norm(s hx.Step) string {
	if s.Kind == "rec" {
		return "rec " + s.Out + " #" + s.Sum
	}
	if s.Kind == "fail" {
		e := s.Err
		if i := strings.Index(e, "fail to transform"); i >= 0 {
			e = e[i:]
		}
		return "fail " + digitsRe.ReplaceAllString(e, "N")
	}
	return s.Kind
}

func c10Input(f c10Fmt, seq string) string {
	if f.Render != nil {
		return f.Render(f, seq)
	}
	var parts []string
	for i := 0; i < len(seq); i++ {
		parts = append(parts, f.Rec[seq[i]])
	}
	return f.Prefix + strings.Join(parts, f.Sep) + f.Suffix
}

func c10Run(f c10Fmt, seq string) ([]string, string) {
	resetProcessState() // every run starts from the initial process-wide state (pools, caches): runs must not see each other
	schema, err, _ := hx.NewSchema("s", f.Schema)
	if err != nil {
		return nil, "schema rejected: " + err.Error()
	}
	r := hx.Run(schema, strings.NewReader(c10Input(f, seq)), hx.Opts{MaxReads: 200})
	if r.PanicSite != "" {
		return nil, "panic " + r.PanicVal + " @ " + r.PanicSite
	}
	var out []string
	for _, s := range r.Steps {
		out = append(out, c10Norm(s))
	}
	return out, ""
}

const c10NoResult = "<no result: not a target record>"

// c10Check classifies: a disagreement of the xml-ns format that disappears when the prefix-rebinding
// record R is taken out of the sequence is the known namespace-table finding (signature of its own).
func c10Check(cs c10Case, solo map[byte]string) (sig, detail string) {
	sig, detail = c10Check1(cs, solo)
	if sig != "" && !strings.HasPrefix(sig, "harness:") && cs.Fmt == "xml-ns" && strings.Contains(cs.Seq, "R") {
		without := c10Case{Fmt: cs.Fmt, Seq: strings.ReplaceAll(cs.Seq, "R", "")}
		if s2, _ := c10Check1(without, solo); s2 == "" {
			return "xml:namespace-prefix-rebound-inside-an-earlier-record", detail
		}
	}
	return sig, detail
}

func c10Check1(cs c10Case, solo map[byte]string) (sig, detail string) {
	var f *c10Fmt
	for _, x := range c10Formats() {
		if x.Name == cs.Fmt {
			x := x
			f = &x
		}
	}
	if f == nil {
		return "harness:unknown-format", cs.Fmt
	}
	if solo == nil {
		solo = map[byte]string{}
		for sym := range f.Rec {
			o, e := c10Run(*f, string(sym))
			if e != "" || len(o) < 1 || len(o) > 2 || o[len(o)-1] != "eof" {
				return "harness:solo-run", fmt.Sprintf("%s record %c: %v %s", f.Name, sym, o, e)
			}
			if len(o) == 2 {
				solo[sym] = o[0]
			} else {
				solo[sym] = c10NoResult // a non-target unit
			}
		}
	}
	out, e := c10Run(*f, cs.Seq)
	if e != "" {
		return "panic-or-setup:" + f.Name, e
	}
	// positions of the sequence that are records (non-target units deliver nothing)
	var recPos []int
	for i := 0; i < len(cs.Seq); i++ {
		if solo[cs.Seq[i]] != c10NoResult {
			recPos = append(recPos, i)
		}
	}
	if len(out) != len(recPos)+1 || out[len(out)-1] != "eof" {
		return "result-count:" + f.Name, fmt.Sprintf("%s sequence %s: %d results %v", f.Name, cs.Seq, len(out), out)
	}
	for k, i := range recPos {
		if out[k] != solo[cs.Seq[i]] {
			kind := "record-depends-on-neighbours"
			if strings.HasPrefix(solo[cs.Seq[i]], "fail") != strings.HasPrefix(out[k], "fail") {
				kind = "failure-not-confined-to-its-record"
			}
			return kind + ":" + f.Name, fmt.Sprintf("%s sequence %s position %d (record %c):\n-- in the sequence: %s\n-- alone:           %s\n-- whole transcript: %v", f.Name, cs.Seq, i, cs.Seq[i], out[k], solo[cs.Seq[i]], out)
		}
	}
	return "", ""
}

// ---- long sequences: reader buffers must not carry bytes from one record into another ----

type c10Long struct {
	Name           string
	Schema         string
	Prefix, Suffix string
	Sep            string
	Gen            func(id, fill int) string // record number id (distinct data), with a filler value of the given length
	RecLen         int                       // approximate record length (sweep width for the first record's filler)
}

func c10LongFormats() []c10Long {
	h := func(f string) string {
		return `"parser_settings":{"version":"omni.2.1","file_format_type":"` + f + `"}`
	}
	fo := `"transform_declarations":{"FINAL_OUTPUT":{"object":{"a":{"xpath":"a"},"b":{"xpath":"b"},"c":{"xpath":"c"},"f":{"xpath":"f"}}}}`
	x := func(n int) string { return strings.Repeat("x", n) }
	return []c10Long{
		{Name: "fixedlength2-rows3", Schema: `{` + h("fixedlength2") + `,"file_declaration":{"envelopes":[{"name":"E","rows":3,"columns":[{"name":"a","start_pos":1,"length":8,"line_index":1},{"name":"f","start_pos":9,"length":60,"line_index":1},{"name":"b","start_pos":1,"length":8,"line_index":2},{"name":"c","start_pos":1,"length":8,"line_index":3}]}]},` + fo + `}`,
			Gen: func(id, fill int) string { return fmt.Sprintf("A%07d%s\nB%07d\nC%07d\n", id, x(fill), id, id) }, RecLen: 27},
		{Name: "fixedlength2-rows2-blank-line-inside", Schema: `{` + h("fixedlength2") + `,"file_declaration":{"envelopes":[{"name":"E","rows":2,"columns":[{"name":"a","start_pos":1,"length":8,"line_index":1},{"name":"f","start_pos":9,"length":60,"line_index":1},{"name":"b","start_pos":1,"length":8,"line_index":2},{"name":"c","start_pos":2,"length":7,"line_index":2}]}]},` + fo + `}`,
			Gen: func(id, fill int) string { return fmt.Sprintf("A%07d%s\n\nB%07d\n", id, x(fill), id) }, RecLen: 19},
		{Name: "fixedlength2-header-footer", Schema: `{` + h("fixedlength2") + `,"file_declaration":{"envelopes":[{"name":"E","header":"^A","footer":"^C","columns":[{"name":"a","start_pos":1,"length":8,"line_pattern":"^A"},{"name":"f","start_pos":9,"length":60,"line_pattern":"^A"},{"name":"b","start_pos":1,"length":8,"line_pattern":"^B"},{"name":"c","start_pos":1,"length":8,"line_pattern":"^C"}]}]},` + fo + `}`,
			Gen: func(id, fill int) string { return fmt.Sprintf("A%07d%s\nB%07d\nC%07d\n", id, x(fill), id, id) }, RecLen: 27},
		{Name: "fixed-length-rows3", Schema: `{` + h("fixed-length") + `,"file_declaration":{"envelopes":[{"by_rows":3,"columns":[{"name":"a","start_pos":1,"length":8,"line_pattern":"^A"},{"name":"f","start_pos":9,"length":60,"line_pattern":"^A"},{"name":"b","start_pos":1,"length":8,"line_pattern":"^B"},{"name":"c","start_pos":1,"length":8,"line_pattern":"^C"}]}]},` + fo + `}`,
			Gen: func(id, fill int) string { return fmt.Sprintf("A%07d%s\nB%07d\nC%07d\n", id, x(fill), id, id) }, RecLen: 27},
		{Name: "csv2-rows3", Schema: `{` + h("csv2") + `,"file_declaration":{"delimiter":",","records":[{"name":"E","rows":3,"columns":[{"name":"a","index":1,"line_index":1},{"name":"f","index":2,"line_index":1},{"name":"b","index":1,"line_index":2},{"name":"c","index":2,"line_index":3}]}]},` + fo + `}`,
			Gen: func(id, fill int) string {
				return fmt.Sprintf("A%07d,%s\nB%07d,\"q,%d\"\nx,C%07d\n", id, x(fill), id, id, id)
			}, RecLen: 40},
		{Name: "csv", Schema: `{` + h("csv") + `,"file_declaration":{"delimiter":",","data_row_index":1,"columns":[{"name":"a"},{"name":"f"},{"name":"b"},{"name":"c"}]},` + fo + `}`,
			Gen: func(id, fill int) string { return fmt.Sprintf("A%07d,%s,\"B%07d\nx\",C%07d\n", id, x(fill), id, id) }, RecLen: 32},
		{Name: "edi-group", Schema: `{` + h("edi") + `,"file_declaration":{"segment_delimiter":"~","element_delimiter":"*","segment_declarations":[{"name":"g","type":"segment_group","is_target":true,"min":0,"max":-1,"child_segments":[{"name":"H","elements":[{"name":"a","index":1},{"name":"f","index":2,"default":""}]},{"name":"D","elements":[{"name":"b","index":1}]},{"name":"T","elements":[{"name":"c","index":1}]}]}]},"transform_declarations":{"FINAL_OUTPUT":{"object":{"a":{"xpath":"H/a"},"b":{"xpath":"D/b"},"c":{"xpath":"T/c"},"f":{"xpath":"H/f"}}}}}`,
			Gen: func(id, fill int) string { return fmt.Sprintf("H*A%07d*%s~D*B%07d~T*C%07d~", id, x(fill), id, id) }, RecLen: 34},
		{Name: "xml", Schema: `{` + h("xml") + `,"transform_declarations":{"FINAL_OUTPUT":{"xpath":"/r/o","object":{"a":{"xpath":"a"},"b":{"xpath":"@b"},"c":{"xpath":"c"},"f":{"xpath":"f"}}}}}`,
			Prefix: "<r>", Suffix: "</r>",
			Gen: func(id, fill int) string {
				return fmt.Sprintf(`<o b="B%07d"><a>A%07d</a><f>%s</f><c>C%07d</c></o>`, id, id, x(fill), id)
			}, RecLen: 60},
		{Name: "json", Schema: `{` + h("json") + `,"transform_declarations":{"FINAL_OUTPUT":{"xpath":"/*","object":{"a":{"xpath":"a"},"b":{"xpath":"b"},"c":{"xpath":"c/*"},"f":{"xpath":"f"}}}}}`,
			Prefix: "[", Suffix: "]", Sep: ",",
			Gen: func(id, fill int) string {
				return fmt.Sprintf(`{"a":"A%07d","f":"%s","b":"B%07d","c":["C%07d"]}`, id, x(fill), id, id)
			}, RecLen: 58},
	}
}

type c10LongCase struct {
	Fmt   string `json:"format_item"`
	N     int    `json:"records"`
	Fill  int    `json:"first_record_filler_length"`
	Slice int    `json:"delivery_chunk,omitempty"` // 0 = whole input at once
}

var c10LongSchemas = map[string]omniparser.Schema{}

func c10LongRun(f c10Long, recs []string, chunk int) ([]string, string) {
	schema, ok := c10LongSchemas[f.Schema]
	if !ok {
		sc, err, _ := hx.NewSchema("s", f.Schema)
		if err != nil {
			return nil, "schema rejected: " + err.Error()
		}
		schema = sc
		c10LongSchemas[f.Schema] = sc
	}
	in := f.Prefix + strings.Join(recs, f.Sep) + f.Suffix
	var rd io.Reader = strings.NewReader(in)
	if chunk > 0 {
		rd = iotest.DataErrReader(&chunkReader{s: in, n: chunk})
	}
	r := hx.Run(schema, rd, hx.Opts{MaxReads: len(recs) + 10})
	if r.PanicSite != "" {
		return nil, "panic " + r.PanicVal + " @ " + r.PanicSite
	}
	var out []string
	for _, s := range r.Steps {
		out = append(out, c10Norm(s))
	}
	return out, ""
}

type chunkReader struct {
	s string
	n int
}

func (c *chunkReader) Read(p []byte) (int, error) {
	if len(c.s) == 0 {
		return 0, io.EOF
	}
	n := c.n
	if n > len(p) {
		n = len(p)
	}
	if n > len(c.s) {
		n = len(c.s)
	}
	copy(p, c.s[:n])
	c.s = c.s[n:]
	return n, nil
}

// c10LongCheck: a sequence of N records with distinct data, the first carrying a filler of the given
// length (which moves every later record, and so every buffer boundary, by one byte per step);
// every position must equal the record transformed alone.
func c10LongCheck(cs c10LongCase, solo map[string]string) (sig, detail string) {
	var f *c10Long
	for _, x := range c10LongFormats() {
		if x.Name == cs.Fmt {
			x := x
			f = &x
		}
	}
	if f == nil {
		return "harness:unknown-format", cs.Fmt
	}
	recs := make([]string, cs.N)
	for i := range recs {
		fill := 0
		if i == 0 {
			fill = cs.Fill
		}
		recs[i] = f.Gen(i+1, fill)
	}
	out, e := c10LongRun(*f, recs, cs.Slice)
	if e != "" {
		return "panic-or-setup:" + f.Name, e
	}
	if len(out) != cs.N+1 || out[len(out)-1] != "eof" {
		return "result-count:" + f.Name, fmt.Sprintf("%+v: %d results, last %v", cs, len(out), out[len(out)-1])
	}
	for i := range recs {
		want, ok := solo[recs[i]]
		if !ok {
			o, e := c10LongRun(*f, []string{recs[i]}, 0)
			if e != "" || len(o) != 2 || o[1] != "eof" || !strings.HasPrefix(o[0], "rec ") {
				return "harness:solo-run", fmt.Sprintf("%s record %q: %v %s", f.Name, recs[i], o, e)
			}
			want = o[0]
			solo[recs[i]] = want
		}
		if out[i] != want {
			return "record-depends-on-neighbours:long:" + f.Name, fmt.Sprintf("%+v position %d (record %q, input offset %d):\n-- in the sequence: %s\n-- alone:           %s", cs, i, recs[i], len(f.Prefix)+len(strings.Join(recs[:i], f.Sep)), out[i], want)
		}
	}
	return "", ""
}

func init() {
	core.Register(&core.Prop{
		ID:    "C10",
		Level: "exploration",
		Rule:  "for each of the seven formats a schema that addresses only the record's own data (fields, type casts, arrays over children, templates, copy, javascript, javascript_with_context on the record and on its children, and declarations evaluated on the record's surviving PARENT that read the current record through it) and a record alphabet {two good records with different data and shapes, one failing by type cast, one by multiple xpath matches, one by a throwing script}: every record sequence up to length 4 (thorough 6); oracle out(seq)[i] == out([seq[i]])[0] for every position (bytes, checksum, failure class and text without positions), which implies the concatenation, permutation and replacement laws; plus, for 9 multi-line / multi-segment record layouts, sequences of ~450 (thorough ~900) records with distinct data whose first record carries a filler of every length 0..record length (so that the 4096-byte reader buffer boundaries fall on every byte offset of a record), delivered at once and in 1000-byte chunks, every position compared with the record transformed alone; distinct by (format, sequence); plus namespaced XML with declarations on the record, JSON records keyed inside repeating containers under a filter, and four formats whose failing records fail only when the result is encoded (float NaN / Inf)",
		Assumptions: []string{
			"failure texts are compared after masking digits (line / segment numbers legitimately depend on the position)",
		},
		Run: func(c *core.Ctx) {
			maxLen := 4
			if !c.Quick() {
				maxLen = 6
			}
			idx := 0
			for _, f := range c10Formats() {
				f := f
				solo := map[byte]string{}
				bad := false
				for sym := range f.Rec {
					o, e := c10Run(f, string(sym))
					switch {
					case e == "" && len(o) == 2 && o[1] == "eof":
						solo[sym] = o[0]
					case e == "" && len(o) == 1 && o[0] == "eof" && f.Syms != "":
						solo[sym] = c10NoResult
					case strings.HasPrefix(e, "panic "):
						// the record alone already brings the Transform down: not a harness problem
						if c.Shard == 0 {
							cs := c10Case{Fmt: f.Name, Seq: string(sym)}
							c.Violation("panic-on-a-single-record:"+f.Name, fmt.Sprintf("%s record %c alone: %s", f.Name, sym, e), cs, nil)
						}
						bad = true
					default:
						c.HarnessError(fmt.Sprintf("solo run %s %c: %v %s", f.Name, sym, o, e))
						bad = true
					}
				}
				if bad {
					continue
				}
				// sanity: the alphabet has 2 good and 3 failing records
				nf := 0
				for _, v := range solo {
					if strings.HasPrefix(v, "fail") {
						nf++
					}
				}
				if nf != 3 && f.Syms == "" {
					c.HarnessError(fmt.Sprintf("%s: expected 3 failing records in the alphabet, got %d: %v", f.Name, nf, solo))
				}
				syms := f.syms()
				gen.Sequences(len(syms), maxLen, func(s []int) bool {
					if len(s) < 2 {
						return true
					}
					idx++
					if !c.Mine(idx) {
						return true
					}
					b := make([]byte, len(s))
					for i, x := range s {
						b[i] = syms[x]
					}
					cs := c10Case{Fmt: f.Name, Seq: string(b)}
					c.Begin(func() interface{} { return cs })
					sig, detail := c10Check(cs, solo)
					c.Eval(f.Name + "|" + cs.Seq)
					switch {
					case strings.HasPrefix(sig, "harness:"):
						c.HarnessError(sig + ": " + detail)
					case sig != "":
						c.Violation(sig, detail, cs, func() string { s, _ := c10Check(cs, nil); return s })
					case c.WantSample() && len(b) == maxLen && idx%37 == 0:
						c.Sample(map[string]interface{}{"format": f.Name, "sequence": cs.Seq, "input": c10Input(f, cs.Seq), "solo_results": solo})
					}
					return !c.TimeUp()
				})
			}
			// long sequences: buffer boundaries at every offset of a record
			for _, f := range c10LongFormats() {
				solo := map[string]string{}
				n := 3*4096/f.RecLen + 20
				if !c.Quick() {
					n = 6*4096/f.RecLen + 20
				}
				for fill := 0; fill <= f.RecLen+2; fill++ {
					for _, chunk := range []int{0, 1000} {
						idx++
						if !c.Mine(idx) {
							continue
						}
						cs := c10LongCase{Fmt: f.Name, N: n, Fill: fill, Slice: chunk}
						c.Begin(func() interface{} { return map[string]interface{}{"long": cs} })
						sig, detail := c10LongCheck(cs, solo)
						c.Eval(fmt.Sprintf("long|%s|%d|%d", f.Name, fill, chunk))
						c.Count("long_sequence_records", int64(n))
						switch {
						case strings.HasPrefix(sig, "harness:"):
							c.HarnessError(sig + ": " + detail)
						case sig != "":
							c.Violation(sig, detail, map[string]interface{}{"long": cs}, func() string { s, _ := c10LongCheck(cs, map[string]string{}); return s })
						}
					}
				}
				if c.TimeUp() {
					return
				}
			}
		},
		Replay: func(raw json.RawMessage) (string, string) {
			var w struct {
				Long *c10LongCase `json:"long"`
			}
			if json.Unmarshal(raw, &w) == nil && w.Long != nil {
				sig, detail := c10LongCheck(*w.Long, map[string]string{})
				if sig == "" {
					detail = "every position equals its solo result"
				}
				return sig, detail
			}
			var cs c10Case
			if err := json.Unmarshal(raw, &cs); err != nil {
				return "harness:bad-replay", err.Error()
			}
			sig, detail := c10Check(cs, nil)
			if sig == "" {
				detail = "every position equals its solo result"
			}
			return sig, detail
		},
	})
}
