package props

import (
	"fmt"
	"time"

	"verif/mc/core"
)

// C14Bench times single executions (debug aid: `mc c14bench`).
func C14Bench() {
	for _, sc := range c14Scenarios(true) {
		t0 := time.Now()
		n := 20
		var pts int
		for i := 0; i < n; i++ {
			x := &core.Exec{}
			c14Run(sc, x)
			pts = len(x.Points)
		}
		fmt.Printf("%-40s %4d points  %v per execution\n", sc.Name, pts, time.Since(t0)/time.Duration(n))
	}
}
