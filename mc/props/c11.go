package props

import (
	"encoding/json"
	"fmt"
	"strings"

	"github.com/antchfx/xpath"

	"github.com/jf-tech/omniparser/idr"

	"verif/mc/core"
	"verif/mc/gen"
	"verif/mc/ref"
)

// C11 — XPath queries over the node tree agree with a reference XML DOM: document x expression x
// context enumeration, same engine, two navigators.

type c11Case struct {
	Doc     string `json:"document"`
	Expr    string `json:"xpath"`
	Context string `json:"context_path"` // child-index path of the context node from the document node
}

// idrPath identifies an idr node the way ref.DNode.Path does (attributes: @<index>).
func idrPath(n *idr.Node) string {
	if n.Parent == nil {
		return "/"
	}
	if n.Type == idr.AttributeNode {
		i := 0
		for c := n.Parent.FirstChild; c != nil && c != n; c = c.NextSibling {
			i++
		}
		return idrPath(n.Parent) + fmt.Sprintf("@%d", i)
	}
	i := 0
	for c := n.Parent.FirstChild; c != nil && c != n; c = c.NextSibling {
		if c.Type != idr.AttributeNode {
			i++
		}
	}
	return idrPath(n.Parent) + fmt.Sprintf("%d/", i)
}

type c11Doc struct {
	text      string
	idrRoot   *idr.Node            // document node
	domRoot   *ref.DNode           // document node
	idrByPath map[string]*idr.Node // context nodes (document, elements, text)
	domByPath map[string]*ref.DNode
	paths     []string
}

func c11Load(doc string) (*c11Doc, error) {
	sr, err := idr.NewXMLStreamReader(strings.NewReader(doc), ".")
	if err != nil {
		return nil, err
	}
	top, err := sr.Read()
	if err != nil {
		return nil, err
	}
	dom, err := ref.ParseDOM(doc)
	if err != nil {
		return nil, err
	}
	d := &c11Doc{text: doc, idrRoot: top.Parent, domRoot: dom, idrByPath: map[string]*idr.Node{}, domByPath: map[string]*ref.DNode{}}
	var wi func(n *idr.Node)
	wi = func(n *idr.Node) {
		if n.Type != idr.AttributeNode {
			d.idrByPath[idrPath(n)] = n
			for c := n.FirstChild; c != nil; c = c.NextSibling {
				wi(c)
			}
		}
	}
	wi(d.idrRoot)
	var wd func(n *ref.DNode)
	wd = func(n *ref.DNode) {
		p := n.Path()
		d.domByPath[p] = n
		d.paths = append(d.paths, p)
		for _, c := range n.Children {
			wd(c)
		}
	}
	wd(dom)
	return d, nil
}

func c11Eval(d *c11Doc, expr *xpath.Expr, exprStr, ctxPath string) (got, want []string, err string) {
	in, dn := d.idrByPath[ctxPath], d.domByPath[ctxPath]
	if in == nil || dn == nil {
		return nil, nil, "context node " + ctxPath + " missing on one side"
	}
	pv, site := core.Safe(func() {
		nodes, e := idr.MatchAll(in, exprStr)
		if e != nil {
			err = "MatchAll error: " + e.Error()
			return
		}
		for _, n := range nodes {
			got = append(got, fmt.Sprintf("%s=%q", idrPath(n), n.InnerText()))
		}
	})
	if pv != nil {
		err = fmt.Sprintf("panic %v @ %s", pv, site)
		return
	}
	it := expr.Select(ref.NewDNav(dn))
	for it.MoveNext() {
		n, a := it.Current().(*ref.DNav).Current()
		if a >= 0 {
			want = append(want, fmt.Sprintf("%s@%d=%q", n.Path(), a, n.Attrs[a].Value))
		} else {
			want = append(want, fmt.Sprintf("%s=%q", n.Path(), n.Text()))
		}
	}
	return
}

func c11Check(cs c11Case, d *c11Doc, expr *xpath.Expr) (sig, detail string) {
	if d == nil {
		var err error
		if d, err = c11Load(cs.Doc); err != nil {
			return "harness:load", err.Error()
		}
	}
	if expr == nil {
		var err error
		if expr, err = xpath.Compile(cs.Expr); err != nil {
			return "harness:compile", err.Error()
		}
	}
	got, want, e := c11Eval(d, expr, cs.Expr, cs.Context)
	if e != "" {
		if strings.HasPrefix(e, "panic") {
			return "panic:" + axisOf(cs.Expr), fmt.Sprintf("doc %s expr %s ctx %s: %s", cs.Doc, cs.Expr, cs.Context, e)
		}
		return "harness:eval", e
	}
	if strings.Join(got, "\x00") == strings.Join(want, "\x00") {
		return "", ""
	}
	kind := "different-nodes"
	if len(got) == len(want) {
		sameSet := true
		gm := map[string]bool{}
		for _, g := range got {
			gm[g] = true
		}
		for _, w := range want {
			if !gm[w] {
				sameSet = false
			}
		}
		if sameSet {
			kind = "different-order"
		} else {
			// same identities, other string values?
			same := true
			for i := range got {
				if strings.SplitN(got[i], "=", 2)[0] != strings.SplitN(want[i], "=", 2)[0] {
					same = false
				}
			}
			if same {
				kind = "different-string-value"
			}
		}
	}
	return kind + ":" + axisOf(cs.Expr), fmt.Sprintf("doc %s\nxpath %s evaluated from %s\n-- node tree:     %v\n-- reference DOM: %v", cs.Doc, cs.Expr, cs.Context, got, want)
}

func axisOf(e string) string {
	for _, a := range []string{"preceding-sibling", "following-sibling", "descendant-or-self", "ancestor-or-self", "descendant", "ancestor", "following", "preceding", "attribute", "parent", "self", "child"} {
		if strings.Contains(e, a+"::") {
			if strings.Contains(e, "last()") {
				return a + "+last()"
			}
			return a
		}
	}
	if strings.Contains(e, "last()") {
		return "abbreviated+last()"
	}
	return "abbreviated"
}

func c11Exprs(quick bool) []string {
	axes := []string{"child", "descendant", "descendant-or-self", "parent", "ancestor", "ancestor-or-self", "following-sibling", "preceding-sibling", "following", "preceding", "self"}
	tests := []string{"a", "b", "p:a", "*", "text()", "node()"}
	preds := []string{"", "[1]", "[last()]", "[position()=2]", "[@k]", "[@k='1']", "[.='1']", "[b]", "[count(*)=1]", "[contains(.,'1')]", "[not(@k)]", "[name()='a']", "[string-length(.)=1]", "[last()=2]", "[@p:k]", "[text()='1']", "[.='1x']"}
	var out []string
	for _, ax := range axes {
		for _, t := range tests {
			for _, p := range preds {
				out = append(out, ax+"::"+t+p)
			}
		}
	}
	for _, t := range []string{"k", "p:k", "*", "node()"} {
		for _, p := range []string{"", "[1]", "[last()]", "[.='1']", "[.='2']"} {
			out = append(out, "attribute::"+t+p, "descendant-or-self::*/attribute::"+t+p)
		}
	}
	abbrev := []string{"a", "//a", "../a", "@k", "@*", ".//b", "/a", "/*/b", "a|b", "//a|//@k", "/", ".", "..", "../..", "//@p:k", "//text()", "*/*", "a/b", "//a/..", "//b/../a", "//*[@k]/text()", "//a[b]/@k",
		"//a[last()]", "//*[last()]", "(//a)[last()]", "(//*)[2]", "//a[1]/following-sibling::*[1]", "//b/preceding-sibling::node()[1]", "//text()[1]/..", "//a[position()<3]", "//*[.='1']", "//*[text()]",
		"//@k/..", "//@k/../@p:k", "//a/@*[last()]", "//a/@*[1]", "//*[count(@*)=2]", "//a[not(*)]", "//*[name()='p:a']", "//*[local-name()='a']", "//p:a", "//p:a/@p:k",
		"//a/following::*", "//b/preceding::*", "//a/ancestor::*[1]", "//a/ancestor-or-self::*[last()]", "//*[string-length(name())=1]", "//*[starts-with(.,'1')]", "//a/node()", "//a/node()[last()]",
		"//a/text()[last()]", "//*[normalize-space(.)='']", "//a[sum(b)>0]", "//*[boolean(@k)]", "//a/b|//b/a|//@k", "/*/*[last()]/preceding-sibling::*", "//*[last()]/@*", "//@*[.='1']/../*"}
	out = append(out, abbrev...)
	if !quick {
		firsts := []string{"child::*", "descendant::a", "parent::*", "following-sibling::*", "preceding-sibling::node()", "descendant-or-self::node()", "ancestor::*"}
		for _, f := range firsts {
			for _, ax := range axes {
				for _, t := range []string{"a", "*", "text()", "node()"} {
					for _, p := range []string{"", "[1]", "[last()]", "[@k]"} {
						out = append(out, f+"/"+ax+"::"+t+p)
					}
				}
			}
		}
	}
	return out
}

func c11Docs(n int, reduced int, visit func(doc string) bool) {
	names := []string{"a", "b", "p:a"}
	attrs := []string{"", ` k="1"`, ` p:k="2"`, ` k="1" p:k="2"`}
	leads := []string{"", "1", "x"}
	trails := []string{"", "1"}
	if reduced < 0 {
		// character data the decoder hands out in several pieces: next to CDATA sections, around comments
		// and processing instructions - one text node per piece, as in the reference DOM
		names = []string{"a", "b"}
		attrs = []string{"", ` k="1"`}
		leads = []string{"x<![CDATA[1]]>x", "1<!--c-->x"}
		trails = []string{"", "<![CDATA[1]]><![CDATA[x]]><?pi x?>1"}
	}
	if reduced >= 1 {
		attrs = []string{"", ` k="1" p:k="2"`}
		leads = []string{"", "1"}
	}
	if reduced >= 2 {
		trails = []string{""}
	}
	if reduced >= 3 {
		names = []string{"a", "p:a"}
	}
	per := len(names) * len(attrs) * len(leads) * len(trails)
	gen.Shapes(n, 4, func(parent []int) bool {
		kids := make([][]int, n)
		for i := 1; i < n; i++ {
			kids[parent[i]] = append(kids[parent[i]], i)
		}
		radix := make([]int, n)
		for i := range radix {
			radix[i] = per
		}
		ok := true
		gen.Counter(radix, func(d []int) bool {
			var b strings.Builder
			var render func(i int)
			render = func(i int) {
				v := d[i]
				name := names[v%len(names)]
				v /= len(names)
				at := attrs[v%len(attrs)]
				v /= len(attrs)
				lead := leads[v%len(leads)]
				v /= len(leads)
				trail := trails[v%len(trails)]
				b.WriteString("<" + name)
				if i == 0 {
					b.WriteString(` xmlns:p="u"`)
				}
				b.WriteString(at + ">" + lead)
				for _, k := range kids[i] {
					render(k)
				}
				b.WriteString(trail + "</" + name + ">")
			}
			render(0)
			ok = visit(b.String())
			return ok
		})
		return ok
	})
}

func init() {
	core.Register(&core.Prop{
		ID:    "C11",
		Level: "exploration",
		Rule:  "every XML document with 1-3 elements (thorough: 4, reduced alphabets) over names {a,b,p:a}, attributes {none,k,p:k,k+p:k}, text before/after the children, two documents with one URI under two prefixes in nested scopes, one document nested 300 deep (also text in several pieces: next to CDATA sections, around comments and processing instructions) x every expression of the grammar (11 axes + attribute x node tests {a,b,p:a,*,text(),node()} x 17 predicates incl. positional, last(), attribute, string-value, count, name; 60 abbreviated/union/function expressions; 20 expressions whose string literals contain runs of spaces, tabs or line breaks over documents whose values differ only in white space; thorough: 2-step paths) x every context node (document node, every element and text node); idr.MatchAll results must equal, in number, order, identity (child-index path) and string-value, the results of the same compiled expression over a plain reference DOM with a straightforward navigator; distinct by (document, expression, context)",
		Assumptions: []string{
			"the xpath engine (antchfx/xpath v1.1.11) is shared; the reference is its straightforward DOM binding (ref/dom.go, modelled on antchfx/xmlquery's navigator, whose context node is the navigator root), built from encoding/xml raw tokens",
			"documents bind every namespace URI to one prefix (the two-prefix deviation is C08's known finding)",
		},
		BudgetQuick: 250, BudgetThorough: 1500,
		Run: func(c *core.Ctx) {
			exprStrs := c11Exprs(c.Quick())
			var exprs []*xpath.Expr
			var kept []string
			for _, e := range exprStrs {
				if x, err := xpath.Compile(e); err == nil {
					exprs = append(exprs, x)
					kept = append(kept, e)
				}
			}
			c.Max("expressions", int64(len(kept)))
			idx := 0
			run := func(doc string) bool {
				idx++
				if !c.Mine(idx) {
					return true
				}
				d, err := c11Load(doc)
				if err != nil {
					c.HarnessError("cannot load " + doc + ": " + err.Error())
					return true
				}
				c.Count("documents", 1)
				for _, ctxPath := range d.paths {
					for i, x := range exprs {
						cs := c11Case{Doc: doc, Expr: kept[i], Context: ctxPath}
						c.Begin(func() interface{} { return cs })
						sig, detail := c11Check(cs, d, x)
						c.Eval(kept[i])
						switch {
						case strings.HasPrefix(sig, "harness:"):
							c.HarnessError(sig + ": " + detail)
						case sig != "":
							c.Violation(sig, detail, cs, func() string { s, _ := c11Check(cs, nil, nil); return s })
						case c.WantSample() && idx%997 == 0 && i%53 == 0 && ctxPath != "/":
							c.Sample(cs)
						}
					}
				}
				return !c.TimeUp()
			}
			// string literals with white space that matters (runs of spaces, tab, line break), against values
			// that differ only in it; each expression several times in a row (cached and re-used compiled forms)
			{
				wsDocs := []string{
					"<a><b>x  y</b><b>x y</b><b>x\ty</b><b k=\"x  y\">x\ny</b><b k=\"x y\"> </b><b>  </b></a>",
					"<a k=\" \"><b>x   y</b><b>x  y</b></a>",
				}
				wsExprs := []string{"//b[.='x  y']", "//b[.='x y']", "//b[.='x\ty']", "//b[.='x\ny']", "//b[.=\"x  y\"]", "//b[.='x   y']", "//b[@k='x  y']", "//b[@k='x y']", "//b[.=' ']", "//b[.='  ']", "//*[@k=' ']",
					"//b[contains(.,'  ')]", "//b[contains(.,'\t')]", "//b[starts-with(.,'x  ')]", "//b[translate(.,'  y','_z')='x__z']", "//b[concat(.,'  ')='x y  ']", "//b[substring-after(.,'  ')='y']", "//b[  .  =  'x  y'  ]", "//b[. = 'x  y' or . = 'x\ty']", "//b [ . = 'x y' ]"}
				for _, doc := range wsDocs {
					idx++
					if !c.Mine(idx) {
						continue
					}
					d, err := c11Load(doc)
					if err != nil {
						c.HarnessError("cannot load " + doc + ": " + err.Error())
						continue
					}
					for _, e := range wsExprs {
						x, err := xpath.Compile(e)
						if err != nil {
							continue
						}
						for rep := 0; rep < 2; rep++ {
							for _, ctxPath := range d.paths {
								cs := c11Case{Doc: doc, Expr: e, Context: ctxPath}
								c.Begin(func() interface{} { return cs })
								sig, detail := c11Check(cs, d, x)
								c.Eval("ws|" + e)
								if strings.HasPrefix(sig, "harness:") {
									c.HarnessError(sig + ": " + detail)
								} else if sig != "" {
									c.Violation(sig, detail, cs, func() string { s, _ := c11Check(cs, nil, nil); return s })
								}
							}
						}
					}
				}
			}
			// special documents: (a) one URI under two prefixes, the second declared on an inner element - names
			// inside and outside that element's scope; (b) nesting 300 deep with the only text at the bottom (the
			// string-value of every ancestor is that text), contexts: the document node and a few depths
			{
				nsDocs := []string{
					`<a xmlns:p="u"><b xmlns:q="u"><q:a k="1">1</q:a><b><q:a>2</q:a></b></b><p:a>3</p:a></a>`,
					`<a xmlns:p="u"><p:a>0</p:a><b xmlns="u" xmlns:q="v"><a>1</a><q:a>2</q:a></b><p:a p:k="2">3</p:a></a>`,
				}
				nsExprs := append(append([]string{}, kept...), "//q:a", "//q:a[1]", "/a/b/q:a", "//*[name()='q:a']", "//*[name()='p:a']", "//b//q:a | //p:a", "//q:a/@k", "//*[local-name()='a']", "//q:*", "//p:*")
				for _, doc := range nsDocs {
					idx++
					if !c.Mine(idx) {
						continue
					}
					d, err := c11Load(doc)
					if err != nil {
						c.HarnessError("cannot load " + doc + ": " + err.Error())
						continue
					}
					c.Count("documents", 1)
					for _, e := range nsExprs {
						x, err := xpath.Compile(e)
						if err != nil {
							continue
						}
						for _, ctxPath := range d.paths {
							cs := c11Case{Doc: doc, Expr: e, Context: ctxPath}
							c.Begin(func() interface{} { return cs })
							sig, detail := c11Check(cs, d, x)
							c.Eval("ns2|" + e)
							if strings.HasPrefix(sig, "harness:") {
								c.HarnessError(sig + ": " + detail)
							} else if sig != "" {
								c.Violation(sig, detail, cs, func() string { s, _ := c11Check(cs, nil, nil); return s })
							}
						}
					}
				}
				idx++
				if c.Mine(idx) {
					deep := strings.Repeat("<a>", 300) + "x" + strings.Repeat("</a>", 300)
					d, err := c11Load(deep)
					if err != nil {
						c.HarnessError("cannot load the deep document: " + err.Error())
					} else {
						c.Count("documents", 1)
						for _, e := range []string{"/a[.='x']", "//a[.='x']", "//a[string-length(.)=1]", "//a[contains(.,'x')]", "//a[not(a)]", "//a[.='']", "/a/a/a[.='x']", "//text()", "//a[count(ancestor::a)=299]", "//a[count(descendant::a)=299]", "(//a)[last()]", "//a[not(a)]/ancestor::a[.='x']", "self::node()[.='x']", "a[.='x']", "..", "ancestor-or-self::a[.='x']"} {
							x, err := xpath.Compile(e)
							if err != nil {
								continue
							}
							for i, ctxPath := range d.paths {
								if i > 3 && i != 150 && i != 255 && i != 256 && i != 257 && i < len(d.paths)-3 {
									continue
								}
								cs := c11Case{Doc: deep, Expr: e, Context: ctxPath}
								c.Begin(func() interface{} { return cs })
								sig, detail := c11Check(cs, d, x)
								c.Eval("deep|" + e)
								if strings.HasPrefix(sig, "harness:") {
									c.HarnessError(sig + ": " + detail)
								} else if sig != "" {
									c.Violation(sig, trunc2(detail, 600), cs, func() string { s, _ := c11Check(cs, nil, nil); return s })
								}
							}
						}
					}
				}
			}
			type plan struct{ n, reduced int }
			plans := []plan{{1, 0}, {1, -1}, {2, 0}, {2, -1}, {3, 2}}
			if !c.Quick() {
				plans = []plan{{1, 0}, {1, -1}, {2, 0}, {2, -1}, {3, 1}, {3, -1}, {4, 3}}
			}
			for _, pl := range plans {
				stop := false
				c11Docs(pl.n, pl.reduced, func(doc string) bool {
					if !run(doc) {
						stop = true
						return false
					}
					return true
				})
				if stop {
					return
				}
			}
		},
		Replay: func(raw json.RawMessage) (string, string) {
			var cs c11Case
			if err := json.Unmarshal(raw, &cs); err != nil {
				return "harness:bad-replay", err.Error()
			}
			sig, detail := c11Check(cs, nil, nil)
			if sig == "" {
				detail = "results agree"
			}
			return sig, detail
		},
	})
}
