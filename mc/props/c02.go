package props

import (
	"bytes"
	"encoding/json"
	"fmt"
	"sort"
	"strconv"
	"strings"

	"github.com/jf-tech/omniparser"
	"github.com/jf-tech/omniparser/customfuncs"
	"github.com/jf-tech/omniparser/extensions/omniv21"
	v21 "github.com/jf-tech/omniparser/extensions/omniv21/customfuncs"
	"github.com/jf-tech/omniparser/extensions/omniv21/transform"
	"github.com/jf-tech/omniparser/idr"
	"github.com/jf-tech/omniparser/transformctx"

	"verif/mc/core"
	"verif/mc/gen"
	"verif/mc/hx"
	"verif/mc/ref"
)

// C02 — emitted JSON equals the documented evaluation of FINAL_OUTPUT: generated declaration
// trees x records, implementation (result cache on and off) vs. the reference interpreter.

type gd = map[string]interface{}

type c02Case struct {
	Decls  gd     `json:"transform_declarations"`
	Record string `json:"record_xml"`
}

// records: XML documents (target /r), JSON documents (prefix "json:", target /r) and one plain
// (flat-file style, no format data) tree (prefix "plain:").
var c02Records = []string{
	`<r><a><a>x</a>y</a><c>1</c></r>`,
	`<r><a>1</a><a>2</a><c> p </c></r>`,
	`<r k="v"><a k="1"/><c></c></r>`,
	`<r><a> 1.5 </a><c>true</c><d><a>7</a></d></r>`,
	`<r/>`,
	`<r><a><a>1</a><a>2</a></a><c>a</c></r>`,
	`<r k=" "><a>  </a><c> </c><d><a>	</a></d></r>`, // values of nothing but white space
	`json:{"r":{"a":{"a":"x","k":1},"c":1,"d":{"a":[7,8]}}}`,
	`json:{"r":{"a":[1,2.5,{"a":" z "}],"c":" p ","k":null,"b":[]}}`,
	`json:{"r":{"a":"1.5","c":true}}`,
	`json:{"r":{"a":"  ","c":" ","d":{"a":["\t",""]}}}`,
	`plain:a=1.5;c=7;d/a=x`,
}

var c02Externals = map[string]string{"e1": " v ", "e2": "3"}

// testfn exercises positional typed parameters and a variadic tail.
func c02TestFn(_ *transformctx.Ctx, s string, i int64, f float64, b bool, rest ...string) (string, error) {
	if s == "boom" {
		return "", fmt.Errorf("boom")
	}
	return fmt.Sprintf("%q|%d|%g|%t|%q", s, i, f, b, rest), nil
}

// c02FirstOf returns the first element of its array argument (or the argument itself), as a string.
func c02FirstOf(_ *transformctx.Ctx, vs ...interface{}) (string, error) {
	return c02FirstOfImpl(vs)
}

// c02Num is a test function whose result is a NUMBER: "i:<int64>", "f:<float64>", "b:<bool>" or a string as it is.
func c02Num(_ *transformctx.Ctx, spec string) (interface{}, error) { return c02NumImpl(spec) }

func c02NumImpl(spec string) (interface{}, error) {
	switch {
	case strings.HasPrefix(spec, "i:"):
		return strconv.ParseInt(spec[2:], 10, 64)
	case strings.HasPrefix(spec, "f:"):
		return strconv.ParseFloat(spec[2:], 64)
	case strings.HasPrefix(spec, "b:"):
		return strconv.ParseBool(spec[2:])
	}
	return spec, nil
}

func c02FirstOfImpl(vs []interface{}) (string, error) {
	for _, v := range vs {
		switch x := v.(type) {
		case nil:
		case string:
			return x, nil
		case []interface{}:
			for _, e := range x {
				if s, ok := e.(string); ok {
					return s, nil
				}
				return "", fmt.Errorf("firstof: element is %T", e)
			}
		default:
			return "", fmt.Errorf("firstof: argument is %T", v)
		}
	}
	return "", nil
}

var c02ImplFuncs = customfuncs.Merge(customfuncs.CommonCustomFuncs, v21.OmniV21CustomFuncs,
	customfuncs.CustomFuncs{"testfn": c02TestFn, "firstof": c02FirstOf, "num": c02Num})

func strArgs(args []interface{}) ([]string, error) {
	out := make([]string, len(args))
	for i, a := range args {
		s, ok := a.(string)
		if !ok {
			return nil, ref.ArgTypeError{Msg: fmt.Sprintf("argument %d is %T, not a string", i, a)}
		}
		out[i] = s
	}
	return out, nil
}

var c02RefFuncs = map[string]ref.RefFunc{
	"concat": {Params: []interface{}{""}, Call: func(_ *idr.Node, a []interface{}) (interface{}, error) {
		s, err := strArgs(a)
		return strings.Join(s, ""), err
	}},
	"upper": {Params: []interface{}{""}, Call: func(_ *idr.Node, a []interface{}) (interface{}, error) {
		s, err := strArgs(a)
		if err != nil {
			return nil, err
		}
		if len(s) != 1 {
			return nil, ref.ArgTypeError{Msg: "upper wants one string"}
		}
		return strings.ToUpper(s[0]), nil
	}},
	"coalesce": {Params: []interface{}{""}, Call: func(_ *idr.Node, a []interface{}) (interface{}, error) {
		s, err := strArgs(a)
		for _, x := range s {
			if x != "" {
				return x, err
			}
		}
		return "", err
	}},
	"copy": {Params: nil, Call: func(n *idr.Node, a []interface{}) (interface{}, error) {
		return idr.J2NodeToInterface(n, true), nil
	}},
	"firstof": {Params: []interface{}{nil}, Call: func(_ *idr.Node, a []interface{}) (interface{}, error) {
		return c02FirstOfImpl(a)
	}},
	"num": {Params: []interface{}{""}, Call: func(_ *idr.Node, a []interface{}) (interface{}, error) {
		if len(a) != 1 {
			return nil, fmt.Errorf("num wants one argument")
		}
		s, ok := a[0].(string)
		if !ok {
			return nil, ref.ArgTypeError{Msg: fmt.Sprintf("num: argument is %T", a[0])}
		}
		return c02NumImpl(s)
	}},
	"testfn": {Params: []interface{}{"", int64(0), float64(0), false, ""}, Call: func(_ *idr.Node, a []interface{}) (interface{}, error) {
		if len(a) < 4 {
			return nil, fmt.Errorf("testfn wants at least 4 arguments")
		}
		s, ok0 := a[0].(string)
		i, ok1 := a[1].(int64)
		f, ok2 := a[2].(float64)
		b, ok3 := a[3].(bool)
		if !ok0 || !ok1 || !ok2 || !ok3 {
			return nil, ref.ArgTypeError{Msg: fmt.Sprintf("testfn(string, int64, float64, bool, ...string) called with %T, %T, %T, %T", a[0], a[1], a[2], a[3])}
		}
		rest, err := strArgs(a[4:])
		if err != nil {
			return nil, err
		}
		if s == "boom" {
			return nil, fmt.Errorf("boom")
		}
		return fmt.Sprintf("%q|%d|%g|%t|%q", s, i, f, b, rest), nil
	}},
}

func c02Schema(decls gd, finalXPath bool) []byte { return c02SchemaAt(decls, finalXPath, "/r") }

func c02SchemaAt(decls gd, finalXPath bool, target string) []byte {
	d := decls
	if finalXPath {
		d = gd{}
		for k, v := range decls {
			d[k] = v
		}
		fo := gd{}
		for k, v := range decls["FINAL_OUTPUT"].(gd) {
			fo[k] = v
		}
		fo["xpath"] = target
		d["FINAL_OUTPUT"] = fo
	}
	b, _ := json.Marshal(gd{"parser_settings": gd{"version": "omni.2.1", "file_format_type": "xml"}, "transform_declarations": d})
	return b
}

func c02LoadRecord(doc string) *idr.Node {
	if strings.HasPrefix(doc, "json:") {
		sr, err := idr.NewJSONStreamReader(strings.NewReader(doc[5:]), "/r")
		if err != nil {
			panic(err)
		}
		n, err := sr.Read()
		if err != nil {
			panic(err)
		}
		return n
	}
	if strings.HasPrefix(doc, "plain:") {
		root := idr.CreateNode(idr.DocumentNode, "")
		r := idr.CreateNode(idr.ElementNode, "r")
		idr.AddChild(root, r)
		for _, kv := range strings.Split(doc[6:], ";") {
			parts := strings.SplitN(kv, "=", 2)
			cur := r
			for _, name := range strings.Split(parts[0], "/") {
				var next *idr.Node
				for c := cur.FirstChild; c != nil; c = c.NextSibling {
					if c.Type == idr.ElementNode && c.Data == name {
						next = c
					}
				}
				if next == nil {
					next = idr.CreateNode(idr.ElementNode, name)
					idr.AddChild(cur, next)
				}
				cur = next
			}
			idr.AddChild(cur, idr.CreateNode(idr.TextNode, parts[1]))
		}
		return r
	}
	sr, err := idr.NewXMLStreamReader(strings.NewReader(doc), "/r")
	if err != nil {
		panic(err)
	}
	n, err := sr.Read()
	if err != nil {
		panic(err)
	}
	return n
}

// outcome renders a result as canonical text: JSON bytes or "FAIL".
func c02Outcome(v interface{}, err error) string {
	if err != nil {
		return "FAIL"
	}
	b, merr := json.Marshal(v)
	if merr != nil {
		return "MARSHAL-ERROR " + merr.Error()
	}
	return string(b)
}

// normJSON round-trips reference output through the decoder so that raw-schema numeric types
// (the reference works on decoded JSON) do not matter.
func c02RefOutcome(decls gd, rec *idr.Node) string {
	di := &ref.DeclInterp{Decls: decls, Externals: c02Externals, Funcs: c02RefFuncs}
	return c02Outcome(di.Eval(rec))
}

type c02Impl struct {
	final *transform.Decl
}

func c02Validate(decls gd) (*c02Impl, error, string) {
	var fd *transform.Decl
	var err error
	pv, site := core.Safe(func() {
		fd, err = transform.ValidateTransformDeclarations(c02Schema(decls, false), c02ImplFuncs, nil)
	})
	if pv != nil {
		return nil, nil, fmt.Sprintf("%v @ %s", pv, site)
	}
	if err != nil {
		return nil, err, ""
	}
	return &c02Impl{final: fd}, nil, ""
}

func (im *c02Impl) eval(rec *idr.Node, cacheOff bool) string {
	old := transform.VerifDisableTransformCache
	transform.VerifDisableTransformCache = cacheOff
	defer func() { transform.VerifDisableTransformCache = old }()
	var out string
	pv, site := core.Safe(func() {
		out = c02Outcome(transform.NewParseCtx(&transformctx.Ctx{ExternalProperties: c02Externals}, c02ImplFuncs, nil).ParseNode(rec, im.final))
	})
	if pv != nil {
		return fmt.Sprintf("PANIC %v @ %s", pv, site)
	}
	return out
}

// shapeOf abstracts a declaration tree to its kinds (signature of a disagreement).
func shapeOf(d gd, decls gd, depth int) string {
	if depth > 3 {
		return "…"
	}
	x := ""
	if _, ok := d["xpath"]; ok {
		x = "@"
	}
	if _, ok := d["xpath_dynamic"]; ok {
		x = "@dyn"
	}
	switch {
	case d["template"] != nil:
		body, _ := decls[d["template"].(string)].(gd)
		return "T" + x + "<" + shapeOf(body, decls, depth+1) + ">"
	case d["const"] != nil:
		return "const"
	case d["external"] != nil:
		return "external"
	case d["object"] != nil:
		var parts []string
		for _, v := range d["object"].(gd) {
			parts = append(parts, shapeOf(v.(gd), decls, depth+1))
		}
		sort.Strings(parts)
		return "obj" + x + "(" + strings.Join(parts, ",") + ")"
	case d["array"] != nil:
		var parts []string
		for _, v := range d["array"].([]interface{}) {
			parts = append(parts, shapeOf(v.(gd), decls, depth+1))
		}
		return "arr(" + strings.Join(parts, ",") + ")"
	case d["custom_func"] != nil:
		cf := d["custom_func"].(gd)
		var parts []string
		if args, ok := cf["args"].([]interface{}); ok {
			for _, v := range args {
				parts = append(parts, shapeOf(v.(gd), decls, depth+1))
			}
		}
		return fmt.Sprintf("%v%s(%s)", cf["name"], x, strings.Join(parts, ","))
	}
	return "field" + x
}

// c02Check compares implementation and reference for one (declarations, record).
func c02Check(decls gd, recDoc string, rec *idr.Node, im *c02Impl) (sig, detail, outcome string) {
	if im == nil {
		var err error
		var pan string
		im, err, pan = c02Validate(decls)
		if pan != "" {
			return "harness:validate-panic", pan, ""
		}
		if err != nil {
			return "harness:schema-rejected", err.Error(), ""
		}
	}
	if rec == nil {
		rec = c02LoadRecord(recDoc)
	}
	want := c02RefOutcome(decls, rec)
	on := im.eval(rec, false)
	off := on
	if transform.VerifTransformCacheSwitchable {
		off = im.eval(rec, true)
	}
	if on == want && off == want {
		return "", "", want
	}
	sb, _ := json.Marshal(decls)
	detail = fmt.Sprintf("declarations %s\nrecord %s\n-- implementation (result cache on):  %s\n-- implementation (result cache off): %s\n-- reference: %s", sb, recDoc, on, off, want)
	shape := shapeOf(decls["FINAL_OUTPUT"].(gd), decls, 0)
	switch {
	case strings.HasPrefix(on, "PANIC") || strings.HasPrefix(off, "PANIC"):
		return "panic:" + shape, detail, ""
	case off == want && on != want:
		return "result-cache-changes-value:" + shape, detail, ""
	}
	return "value-differs:" + shape, detail, ""
}

// ---- generators ----

func cp(d gd, kv ...interface{}) gd {
	n := gd{}
	for k, v := range d {
		n[k] = v
	}
	for i := 0; i+1 < len(kv); i += 2 {
		n[kv[i].(string)] = kv[i+1]
	}
	return n
}

type gleaf struct {
	d       gd
	typ     string // "", int, float, boolean, string
	stringy bool   // value is a string or absent
}

func c02Opts(base gd, visit func(gleaf)) {
	for _, t := range []string{"", "int", "float", "boolean", "string"} {
		for _, nt := range []bool{false, true} {
			for _, keep := range []bool{false, true} {
				d := cp(base)
				if t != "" {
					d["type"] = t
				}
				if nt {
					d["no_trim"] = true
				}
				if keep {
					d["keep_empty_or_null"] = true
				}
				visit(gleaf{d: d, typ: t, stringy: t == "" || t == "string"})
			}
		}
	}
}

func c02LeafBases() []gd {
	var out []gd
	for _, c := range []string{"x", " y ", "", "7", "1.5", "true"} {
		out = append(out, gd{"const": c})
	}
	for _, e := range []string{"e1", "e2", "missing"} {
		out = append(out, gd{"external": e})
	}
	out = append(out, gd{})
	for _, x := range []string{".", "a", "a/a", "*", "..", "b", "a|c", "@k", "c", "d/a"} {
		out = append(out, gd{"xpath": x})
	}
	for _, dyn := range []gd{{"const": "a"}, {"const": "c"}, {"xpath": "c"}, {"const": " "}, {"const": "["}, {"xpath": "b"}} {
		out = append(out, gd{"xpath_dynamic": dyn})
	}
	return out
}

func c02FullLeaves() []gleaf {
	var out []gleaf
	for _, b := range c02LeafBases() {
		c02Opts(b, func(l gleaf) { out = append(out, l) })
	}
	return out
}

// reduced leaves for composition
func c02ReducedLeaves() []gleaf {
	return []gleaf{
		{gd{"const": "x"}, "", true},
		{gd{"xpath": "a"}, "", true},
		{gd{"xpath": "a/a"}, "", true},
		{gd{"xpath": "*"}, "", true},
		{gd{"xpath": "b"}, "", true},
		{gd{"xpath": "c", "type": "int"}, "int", false},
		{gd{"xpath": "."}, "", true},
		{gd{"xpath": "@k", "keep_empty_or_null": true}, "", true},
		{gd{"xpath_dynamic": gd{"xpath": "c"}}, "", true},
	}
}

var c02XS = []string{"", "a", "*", "..", "b"}

func withXP(d gd, xp string) gd {
	if xp == "" {
		return d
	}
	return cp(d, "xpath", xp)
}

type gnode struct {
	d       gd
	stringy bool
	isArray bool
	hasXP   bool
}

// constructs builds every inner construct over one "big" child c1 (any) and an optional small child.
func c02Constructs(c1 gnode, smalls []gnode, visit func(gnode)) {
	keys1 := []string{"a", "b", "a.b", "%"}
	for _, xp := range c02XS {
		for _, keep := range []bool{false, true} {
			mk := func(obj gd) gd {
				d := withXP(gd{"object": obj}, xp)
				if keep {
					d["keep_empty_or_null"] = true
				}
				return d
			}
			for _, k := range keys1 {
				visit(gnode{d: mk(gd{k: c1.d}), hasXP: xp != ""})
			}
			for _, s := range smalls {
				visit(gnode{d: mk(gd{"a": c1.d, "b": s.d}), hasXP: xp != ""})
				visit(gnode{d: mk(gd{"a": s.d, "b": c1.d}), hasXP: xp != ""})
			}
		}
	}
	if !c1.isArray {
		for _, keep := range []bool{false, true} {
			mk := func(elems ...interface{}) gd {
				d := gd{"array": elems}
				if keep {
					d["keep_empty_or_null"] = true
				}
				return d
			}
			visit(gnode{d: mk(c1.d), isArray: true})
			for _, s := range smalls {
				if !s.isArray {
					visit(gnode{d: mk(c1.d, s.d), isArray: true})
					visit(gnode{d: mk(s.d, c1.d), isArray: true})
				}
			}
		}
	}
	if c1.stringy && c1.d["object"] == nil {
		for _, xp := range c02XS {
			visit(gnode{d: withXP(gd{"custom_func": gd{"name": "concat", "args": []interface{}{c1.d}}}, xp), stringy: true, hasXP: xp != ""})
			visit(gnode{d: withXP(gd{"custom_func": gd{"name": "upper", "args": []interface{}{c1.d}}}, xp), stringy: true, hasXP: xp != ""})
			for _, s := range smalls {
				if s.stringy && s.d["object"] == nil && !s.isArray {
					visit(gnode{d: withXP(gd{"custom_func": gd{"name": "concat", "args": []interface{}{c1.d, s.d}}}, xp), stringy: true, hasXP: xp != ""})
					visit(gnode{d: withXP(gd{"custom_func": gd{"name": "coalesce", "args": []interface{}{s.d, c1.d}}}, xp), stringy: true, hasXP: xp != ""})
				}
			}
		}
	}
}

func c02Smalls() []gnode {
	var out []gnode
	for _, l := range c02ReducedLeaves() {
		out = append(out, gnode{d: l.d, stringy: l.stringy, hasXP: l.d["xpath"] != nil})
	}
	return out
}

// c02Enumerate visits every generated declaration set; label names the family.
func c02Enumerate(quick bool, visit func(label string, decls gd) bool) {
	fo := func(d gd) gd { return gd{"FINAL_OUTPUT": d} }
	// Level A: every leaf with every option combination in every context
	for _, l := range c02FullLeaves() {
		if !visit("A:object-child", fo(gd{"object": gd{"k": l.d}})) ||
			!visit("A:array-element", fo(gd{"array": []interface{}{l.d}})) ||
			!visit("A:final-output", fo(l.d)) ||
			!visit("A:under-cursor", fo(gd{"object": gd{"o": gd{"xpath": "a", "object": gd{"k": l.d}}}})) {
			return
		}
		if l.stringy {
			if !visit("A:concat-arg", fo(gd{"object": gd{"k": gd{"custom_func": gd{"name": "concat", "args": []interface{}{l.d, gd{"const": "|"}, l.d}}}}})) {
				return
			}
			if !visit("A:xpath-dynamic", fo(gd{"object": gd{"k": gd{"xpath_dynamic": l.d}}})) {
				return
			}
		}
		// typed positional parameters with absent values -> zero value
		args := []interface{}{gd{"xpath": "b"}, gd{"xpath": "b", "type": "int"}, gd{"xpath": "b", "type": "float"}, gd{"xpath": "b", "type": "boolean"}}
		pos := map[string]int{"": 0, "string": 0, "int": 1, "float": 2, "boolean": 3}[l.typ]
		a2 := append([]interface{}{}, args...)
		a2[pos] = l.d
		if !visit("A:typed-arg", fo(gd{"object": gd{"k": gd{"custom_func": gd{"name": "testfn", "args": a2}}}})) {
			return
		}
		// an argument of a type the parameter does not take: the call cannot be made, the record fails
		// (never a converted value), with and without ignore_error
		if l.d["no_trim"] == nil {
			for _, ig := range []bool{false, true} {
				for _, fname := range []string{"concat", "upper", "coalesce"} {
					if l.stringy {
						break
					}
					cf := gd{"name": fname, "args": []interface{}{l.d}}
					if ig {
						cf["ignore_error"] = true
					}
					if !visit("A:mistyped-arg", fo(gd{"object": gd{"k": gd{"custom_func": cf}, "other": gd{"xpath": "c"}}})) {
						return
					}
				}
				for p := 0; p < 5; p++ {
					if p == pos || (p == 4 && l.stringy) {
						continue
					}
					a4 := append([]interface{}{}, args...)
					if p < 4 {
						a4[p] = l.d
					} else {
						a4 = append(a4, l.d)
					}
					cf := gd{"name": "testfn", "args": a4}
					if ig {
						cf["ignore_error"] = true
					}
					if !visit("A:mistyped-arg", fo(gd{"object": gd{"k": gd{"custom_func": cf}}})) {
						return
					}
				}
			}
		}
		if l.stringy {
			a3 := append(append([]interface{}{}, args...), l.d, gd{"xpath": "b"})
			if !visit("A:variadic-arg", fo(gd{"object": gd{"k": gd{"custom_func": gd{"name": "testfn", "args": a3}}}})) {
				return
			}
		}
	}
	// failing function with and without ignore_error
	for _, ig := range []bool{false, true} {
		cf := gd{"name": "testfn", "args": []interface{}{gd{"const": "boom"}, gd{"const": "1", "type": "int"}, gd{"const": "1", "type": "float"}, gd{"const": "true", "type": "boolean"}}}
		if ig {
			cf["ignore_error"] = true
		}
		for _, keep := range []bool{false, true} {
			d := gd{"custom_func": cf}
			if keep {
				d["keep_empty_or_null"] = true
			}
			if !visit("A:function-error", fo(gd{"object": gd{"k": d, "other": gd{"xpath": "c"}}})) {
				return
			}
		}
	}
	// wide arrays and objects (ordering)
	for _, n := range []int{3, 11, 12} {
		var elems []interface{}
		obj := gd{}
		for i := 1; i <= n; i++ {
			elems = append(elems, gd{"const": fmt.Sprint(i)})
			obj[fmt.Sprint("k", i)] = gd{"const": fmt.Sprint(i)}
		}
		if !visit("A:wide-array", fo(gd{"array": elems})) || !visit("A:wide-object", fo(gd{"object": obj})) {
			return
		}
		mixed := append(append([]interface{}{}, elems...), gd{"xpath": "a"}, gd{"xpath": "*"})
		if !visit("A:wide-array", fo(gd{"object": gd{"arr": gd{"array": mixed}}})) {
			return
		}
	}
	// Level B: composition to depth 3
	smalls := c02Smalls()
	var d2 []gnode
	for _, s := range smalls {
		c02Constructs(s, smalls, func(g gnode) { d2 = append(d2, g) })
	}
	for _, g := range d2 {
		if !visit("B:depth2", fo(g.d)) {
			return
		}
	}
	stride := 1
	if quick {
		stride = 7
	}
	for i, g := range d2 {
		if i%stride != 0 {
			continue
		}
		ok := true
		sm := smalls
		if quick {
			sm = smalls[:4]
		}
		c02Constructs(g, sm, func(h gnode) {
			if ok {
				ok = visit("B:depth3", fo(h.d))
			}
		})
		if !ok {
			return
		}
	}
	// Level C: the same declaration text at two positions; templates at several sites
	var cands []gnode
	cands = append(cands, smalls...)
	for i, g := range d2 {
		if g.hasXP || i%5 == 0 {
			cands = append(cands, g)
		}
	}
	for _, D := range cands {
		for _, X := range c02XS[1:] {
			if !D.isArray {
				if !visit("C:array-vs-object", fo(gd{"object": gd{"p": gd{"array": []interface{}{D.d}}, "q": gd{"xpath": X, "object": gd{"r": D.d}}}})) {
					return
				}
				if !visit("C:array-vs-object", fo(gd{"object": gd{"q": gd{"array": []interface{}{gd{"xpath": X, "object": gd{"r": D.d}}}}, "p": gd{"array": []interface{}{D.d}}}})) {
					return
				}
			}
			if !visit("C:parent-vs-child-cursor", fo(gd{"object": gd{"p": D.d, "q": gd{"xpath": X, "object": gd{"r": D.d}}}})) {
				return
			}
			// template with the same body at two cursors
			if !visit("C:template-two-cursors", gd{"FINAL_OUTPUT": gd{"object": gd{"p": gd{"template": "T"}, "q": gd{"xpath": X, "object": gd{"r": gd{"template": "T"}}}}}, "T": D.d}) {
				return
			}
			if !D.isArray {
				if !visit("C:template-array-vs-object", gd{"FINAL_OUTPUT": gd{"object": gd{"p": gd{"array": []interface{}{gd{"template": "T"}}}, "q": gd{"xpath": X, "object": gd{"r": gd{"template": "T"}}}}}, "T": D.d}) {
					return
				}
			}
		}
		if !D.hasXP && D.d["xpath_dynamic"] == nil {
			// one template, several reference sites with different anchors, evaluated from one node
			for _, pair := range [][2]string{{"a", "c"}, {"c", "a"}, {"a", "*"}, {"d", "a"}} {
				sites := gd{"p": gd{"xpath": pair[0], "template": "T"}, "q": gd{"xpath": pair[1], "template": "T"}, "n": gd{"template": "T"}}
				if !visit("C:template-sites-differ-in-xpath", gd{"FINAL_OUTPUT": gd{"object": sites}, "T": D.d}) {
					return
				}
				if D.stringy && D.d["object"] == nil && !D.isArray {
					if !visit("C:template-sites-differ-in-xpath", gd{"FINAL_OUTPUT": gd{"object": gd{"k": gd{"custom_func": gd{"name": "concat", "args": []interface{}{
						gd{"xpath": pair[0], "template": "T"}, gd{"const": "|"}, gd{"xpath": pair[1], "template": "T"}}}}}}, "T": D.d}) {
						return
					}
				}
				// nested templates
				if !visit("C:nested-template", gd{"FINAL_OUTPUT": gd{"object": gd{"p": gd{"xpath": pair[0], "template": "T2"}, "q": gd{"template": "T2"}}}, "T2": gd{"template": "T"}, "T": D.d}) {
					return
				}
			}
		}
		if !D.isArray {
			if !visit("C:same-decl-twice-in-array", fo(gd{"array": []interface{}{D.d, D.d}})) {
				return
			}
		}
		if D.d["object"] == nil && !D.isArray {
			// the same declaration once inside an xpath_dynamic (where evaluation errors are swallowed) and once as a plain member
			if !visit("C:dynamic-and-member", fo(gd{"object": gd{"a": gd{"xpath_dynamic": D.d}, "z": D.d}})) ||
				!visit("C:dynamic-and-member", gd{"FINAL_OUTPUT": gd{"object": gd{"a": gd{"xpath_dynamic": gd{"template": "T"}}, "z": gd{"template": "T"}}}, "T": D.d}) {
				return
			}
		}
	}
	// Level F: a failing function with and without ignore_error - inline, inside a referenced template,
	// and as lenient / strict twins with the same arguments on one node (in both name orders)
	{
		mk := func(first string, ignore bool) gd {
			cf := gd{"name": "testfn", "args": []interface{}{gd{"const": first}, gd{"const": "1", "type": "int"}, gd{"const": "1", "type": "float"}, gd{"const": "true", "type": "boolean"}}}
			if ignore {
				cf["ignore_error"] = true
			}
			return gd{"custom_func": cf}
		}
		for _, first := range []string{"boom", "fine"} {
			lenient, strict := mk(first, true), mk(first, false)
			for _, sets := range []gd{
				{"FINAL_OUTPUT": gd{"object": gd{"k": gd{"template": "T"}, "o": gd{"xpath": "c"}}}, "T": lenient},
				{"FINAL_OUTPUT": gd{"object": gd{"k": gd{"template": "T"}, "o": gd{"xpath": "c"}}}, "T": strict},
				{"FINAL_OUTPUT": gd{"object": gd{"k": gd{"template": "T2"}}}, "T2": gd{"object": gd{"in": gd{"template": "T"}}}, "T": lenient},
				{"FINAL_OUTPUT": gd{"object": gd{"a": lenient, "b": strict}}},
				{"FINAL_OUTPUT": gd{"object": gd{"a": strict, "b": lenient}}},
				{"FINAL_OUTPUT": gd{"object": gd{"a": lenient, "b": gd{"template": "T"}}}, "T": strict},
				{"FINAL_OUTPUT": gd{"object": gd{"a": gd{"template": "T"}, "b": strict}}, "T": lenient},
				{"FINAL_OUTPUT": gd{"array": []interface{}{lenient, strict}}},
				{"FINAL_OUTPUT": gd{"object": gd{"k": gd{"custom_func": gd{"name": "concat", "args": []interface{}{lenient, gd{"const": "|"}}}}}}},
				{"FINAL_OUTPUT": gd{"object": gd{"k": gd{"xpath_dynamic": lenient}, "z": strict}}},
			} {
				if !visit("F:ignore-error-inline-template-twins", sets) {
					return
				}
			}
		}
	}
	// Level E: arrays (and objects) inside the subtree of an xpath_dynamic, directly, as a function's
	// argument and through a template; alone and next to an identical function call outside (one cache)
	for _, elemXP := range []string{"c", "a", "*", "a/a"} {
		arr := gd{"array": []interface{}{gd{"xpath": elemXP}}}
		call := gd{"custom_func": gd{"name": "firstof", "args": []interface{}{arr}}}
		call2 := gd{"custom_func": gd{"name": "firstof", "args": []interface{}{gd{"const": ""}, arr}}}
		for _, dyn := range []gd{call, call2} {
			if !visit("E:array-under-xpath-dynamic", fo(gd{"object": gd{"v": gd{"xpath_dynamic": dyn}}})) ||
				!visit("E:array-under-xpath-dynamic", fo(gd{"object": gd{"v": gd{"xpath_dynamic": dyn}, "w": dyn}})) ||
				!visit("E:array-under-xpath-dynamic", fo(gd{"object": gd{"a0": dyn, "v": gd{"xpath_dynamic": dyn}}})) ||
				!visit("E:array-under-xpath-dynamic", gd{"FINAL_OUTPUT": gd{"object": gd{"v": gd{"xpath_dynamic": gd{"template": "P"}}, "w": gd{"template": "P"}}}, "P": dyn}) ||
				!visit("E:array-under-xpath-dynamic", fo(gd{"array": []interface{}{gd{"xpath_dynamic": dyn}, dyn}})) ||
				!visit("E:array-under-xpath-dynamic", fo(gd{"object": gd{"v": gd{"xpath_dynamic": gd{"xpath_dynamic": dyn}}}})) ||
				!visit("E:array-under-xpath-dynamic", fo(gd{"object": gd{"v": gd{"xpath_dynamic": dyn, "object": gd{"t": gd{"xpath": "."}, "u": arr}}}})) {
				return
			}
		}
	}
	// Level G: (1) a template referenced WITH an xpath from under an array element, so that the reference is
	// evaluated at several cursors within one record - for every kind of body, also const / external / array,
	// whose value then depends on the cursor (no match, no value); (2) a function whose argument's
	// xpath_dynamic is computed by an inner function that fails - in the call, before the call (arity), or
	// while its own arguments are prepared (several matches): the outer function gets "no value" for that
	// argument and its other arguments as they are
	for _, body := range []gd{{"const": "k"}, {"external": "e1"}, {"array": []interface{}{gd{"xpath": "a"}, gd{"const": "|"}}}, {"xpath": "."}, {"object": gd{"t": gd{"xpath": "."}}},
		{"custom_func": gd{"name": "concat", "args": []interface{}{gd{"xpath": "."}, gd{"const": "!"}}}}} {
		hasXP := body["xpath"] != nil
		for _, refXP := range []string{"a", "c", "*", "nomatch"} {
			site := gd{"xpath": refXP, "template": "T"}
			if hasXP {
				site = gd{"template": "T"} // (one xpath between site and body)
			}
			for _, elemXP := range []string{"*", "a", "d | a"} {
				if !visit("G:reference-with-xpath-at-several-cursors", gd{"FINAL_OUTPUT": gd{"object": gd{
					"arr": gd{"array": []interface{}{gd{"xpath": elemXP, "object": gd{"k": site, "n": gd{"xpath": "."}}}}},
					"top": site}}, "T": body}) {
					return
				}
			}
		}
	}
	// Level G (1b): the same reference text evaluated at a cursor and, inside an object anchored where that
	// reference anchors, at that node itself (r -> r/a, and r/a -> r/a/a): before and after the nested object
	// in evaluation order, for every kind of body whose value depends on the cursor
	for _, body := range []gd{{"const": "k"}, {"external": "e1"}, {"array": []interface{}{gd{"xpath": "a"}, gd{"const": "|"}}}, {"array": []interface{}{gd{"xpath": "."}}},
		{"array": []interface{}{gd{"xpath": "*"}}}, {"object": gd{"t": gd{"xpath": "a"}}}} {
		for _, refXP := range []string{"a", "*", "a[1]", "d"} {
			site := gd{"xpath": refXP, "template": "T"}
			for _, anchor := range []string{refXP, "a[1]", "d"} {
				if !visit("G:reference-at-a-cursor-and-at-the-node-it-anchors-on", gd{"FINAL_OUTPUT": gd{"object": gd{
					"a1": site, "o": gd{"xpath": anchor, "object": gd{"deeper": site, "oo": gd{"xpath": anchor, "object": gd{"deepest": site}}}}, "z1": site}}, "T": body}) ||
					!visit("G:reference-at-a-cursor-and-at-the-node-it-anchors-on", gd{"FINAL_OUTPUT": gd{"object": gd{
						"l": gd{"array": []interface{}{site, gd{"xpath": anchor, "object": gd{"deeper": site}}, site}}}}, "T": body}) {
					return
				}
			}
		}
	}
	for _, inner := range []gd{
		{"custom_func": gd{"name": "testfn", "args": []interface{}{gd{"const": "boom"}}}},
		{"custom_func": gd{"name": "upper", "args": []interface{}{gd{"const": "a"}, gd{"const": "b"}}}},
		{"custom_func": gd{"name": "upper", "args": []interface{}{}}},
		{"custom_func": gd{"name": "concat", "args": []interface{}{gd{"const": "x"}, gd{"xpath": "a"}}}},
		{"custom_func": gd{"name": "concat", "args": []interface{}{gd{"const": "c"}}}},
	} {
		for _, pos := range []int{0, 1, 2} {
			args := []interface{}{gd{"const": "p"}, gd{"xpath": "c"}, gd{"const": "q"}}
			args[pos] = gd{"xpath_dynamic": inner}
			outer := gd{"custom_func": gd{"name": "concat", "args": args}}
			outer2 := gd{"custom_func": gd{"name": "testfn", "args": args}}
			if !visit("G:failing-function-under-an-argument's-xpath-dynamic", fo(gd{"object": gd{"u": outer, "v": outer2}})) ||
				!visit("G:failing-function-under-an-argument's-xpath-dynamic", fo(gd{"object": gd{"u": gd{"custom_func": gd{"name": "concat", "args": []interface{}{outer, gd{"const": "/"}, outer}}}}})) ||
				!visit("G:failing-function-under-an-argument's-xpath-dynamic", fo(gd{"array": []interface{}{outer, gd{"const": "-"}, outer2}})) {
				return
			}
		}
	}
	// Level G (3): xpaths that leave the cursor by a spelled-out axis, evaluated from cursors that have no
	// children (an empty element, an empty JSON container) as well as from ones that have
	for _, anchor := range []string{"c", "a", "d", "*[not(*)]"} {
		inner := gd{}
		for i, xp := range []string{"following-sibling::*[1]", "preceding-sibling::*[1]", "ancestor::r/c", "self::c/../a[1]", "*[1] | ../c", "parent::r/@k", "following::a[1]", "ancestor-or-self::*[last()]/c", "descendant-or-self::c"} {
			inner[fmt.Sprintf("x%d", i)] = gd{"xpath": xp}
		}
		if !visit("G:axes-from-a-childless-cursor", fo(gd{"object": gd{"o": gd{"xpath": anchor, "object": inner}}})) ||
			!visit("G:axes-from-a-childless-cursor", fo(gd{"object": gd{"l": gd{"array": []interface{}{gd{"xpath": anchor, "object": inner}}}}})) {
			return
		}
		var elems []interface{}
		for _, xp := range []string{"following-sibling::*", "preceding-sibling::*", "ancestor::*", "self::c | ../a"} {
			elems = append(elems, gd{"xpath": xp})
		}
		if !visit("G:axes-from-a-childless-cursor", fo(gd{"object": gd{"o": gd{"xpath": anchor, "object": gd{"all": gd{"array": elems}}}}})) {
			return
		}
	}
	// Level G (4): function results that are numbers, cast with every type - incl. floats with a fraction,
	// beyond the int64 range, at its edges, and non-finite
	for _, spec := range []string{"i:1", "f:2.7", "f:-2.7", "f:1e19", "f:-1e19", "i:9223372036854775807", "f:9223372036854775807", "f:9223372036854774784", "f:-9223372036854775808", "f:-9223372036854777856",
		"f:3e19", "f:1e308", "f:0", "f:-0", "b:true", "12", " 7 ", "", "f:NaN", "f:+Inf"} {
		call := gd{"custom_func": gd{"name": "num", "args": []interface{}{gd{"const": spec, "no_trim": true}}}}
		for _, t := range []string{"int", "float", "string", "boolean", ""} {
			d := cp(call)
			if t != "" {
				d["type"] = t
			}
			if !visit("G:number-result-cast", fo(gd{"object": gd{"k": d}})) ||
				!visit("G:number-result-cast", fo(gd{"object": gd{"k": cp(d, "keep_empty_or_null", true), "n": gd{"custom_func": gd{"name": "concat", "args": []interface{}{cp(d, "type", "string")}}}}})) {
				return
			}
		}
	}
	// Level G (5): TEXT results cast with every type: notations that are not the decimal notation of an
	// integer, integers that no float64 holds, the int64 edges, float and boolean spellings
	for _, text := range []string{"2.0", "3e2", "0x1p4", "0x10", "1_000", "+5", "-0", "007", "5.", ".5", "9007199254740993", "-9007199254740995",
		"1234567890123456789", "9223372036854775807", "9223372036854775808", "-9223372036854775808", "-9223372036854775809", "1e400", "Inf", "-inf", "nan", "NaN",
		"TRUE", "True", "t", "T", "tRUE", "yes", "0", "1", "2", "F", "false ", "1.7976931348623157e308", "4.9e-324", "1e-400", "0.1", "١٢"} {
		for _, src := range []gd{{"const": text}, {"custom_func": gd{"name": "num", "args": []interface{}{gd{"const": text}}}}} {
			for _, t := range []string{"int", "float", "boolean", "string"} {
				d := cp(src, "type", t)
				if !visit("G:text-result-cast", fo(gd{"object": gd{"k": d, "other": gd{"xpath": "c"}}})) ||
					!visit("G:text-result-cast", fo(gd{"array": []interface{}{d, gd{"custom_func": gd{"name": "concat", "args": []interface{}{cp(d, "type", "string")}}}}})) {
					return
				}
			}
		}
	}
	// Level D: degenerate declarations - empty object, empty array, bare field - alone, as siblings of
	// each other in every combination and order (equal-looking texts must not share results), through
	// templates, nested, with every option
	var degs []gd
	for _, base := range []gd{{"object": gd{}}, {"array": []interface{}{}}, {}, {"object": gd{"e": gd{"object": gd{}}}}, {"array": []interface{}{gd{"object": gd{}}}}, {"object": gd{"e": gd{}}}} {
		for _, keep := range []bool{false, true} {
			for _, xp := range []string{"", "a", "nomatch"} {
				if xp != "" && base["array"] != nil {
					continue // an array declaration takes no xpath of its own
				}
				d := cp(base)
				if keep {
					d["keep_empty_or_null"] = true
				}
				if xp != "" {
					d["xpath"] = xp
				}
				degs = append(degs, d)
			}
		}
	}
	for i, d := range degs {
		if !visit("D:degenerate-alone", fo(gd{"object": gd{"k": d}})) ||
			!visit("D:degenerate-alone", fo(d)) ||
			!visit("D:degenerate-alone", fo(gd{"array": []interface{}{d, gd{"const": "x"}}})) ||
			!visit("D:degenerate-template", gd{"FINAL_OUTPUT": gd{"object": gd{"c": gd{"template": "T"}}}, "T": d}) ||
			(d["xpath"] == nil && !visit("D:degenerate-template", gd{"FINAL_OUTPUT": gd{"template": "T"}, "T": d})) ||
			(d["xpath"] == nil && !visit("D:degenerate-template", gd{"FINAL_OUTPUT": gd{"object": gd{"c": gd{"xpath": "a", "template": "T"}, "k": gd{"xpath": "c"}}}, "T": d})) ||
			(d["object"] == nil && d["array"] == nil && d["xpath"] != nil && !visit("D:degenerate-concat-arg", fo(gd{"object": gd{"k": gd{"custom_func": gd{"name": "concat", "args": []interface{}{gd{"const": "<"}, d, gd{"const": ">"}}}}}}))) {
			return
		}
		for j, e := range degs {
			if i == j {
				continue
			}
			if !visit("D:degenerate-siblings", fo(gd{"object": gd{"a": d, "b": e}})) ||
				!visit("D:degenerate-siblings", gd{"FINAL_OUTPUT": gd{"object": gd{"a": d, "b": e, "c": gd{"template": "T"}}}, "T": e}) ||
				!visit("D:degenerate-siblings", fo(gd{"array": []interface{}{d, e}})) {
				return
			}
		}
	}
}

func init() {
	core.Register(&core.Prop{
		ID:    "C02",
		Level: "exploration",
		Rule:  "generated transform_declarations: (A) every leaf (const/external/field with xpath or xpath_dynamic) x all 20 type/no_trim/keep_empty_or_null combinations in every context (object child, array element, FINAL_OUTPUT itself, under a cursor, concat argument, xpath_dynamic, typed and variadic function parameters with absent values), function errors with/without ignore_error, wide arrays/objects; (B) every composition of object/array/custom_func over reduced leaves to depth 3 with all cursor xpaths and key names {a,b,a.b,%}; (C) the same declaration text at two positions (under array vs object, parent vs child cursor), one template at several sites/cursors, nested templates — each x 10 records (6 XML, 3 JSON, 1 plain flat-file style tree); implementation run with the per-record result cache on and off, compared with the reference interpreter; distinct by (declarations, record), outcome class = (family, emitted JSON); further levels: (D) degenerate declarations, (E) arrays under xpath_dynamic, (F) ignore_error inline / in templates / next to a twin, (G) a template referenced with an xpath at several cursors of one record (all body kinds), a failing function under an argument's xpath_dynamic, axes leaving a childless cursor; the reference interpreter iterates compiled xpaths itself; number results x every cast, 38 text results (float notations of whole numbers, integers no float64 holds, int64 edges, boolean spellings) x every cast, every leaf as an argument of a type the parameter does not take",
		Assumptions: []string{
			"the reference interpreter ref/declinterp.go (about 300 lines) states the documented semantics; it shares the node tree, the xpath engine and idr.J2NodeToInterface (copy) with the implementation",
			"the bulk drives transform.ValidateTransformDeclarations + ParseNode, exactly what the ingester calls; a covering subset goes through omniparser.NewSchema/Transform.Read and must give the same bytes",
			"function calls are generated well-typed; ill-typed calls are C03's subject",
		},
		BudgetQuick: 100, BudgetThorough: 1500,
		Run: func(c *core.Ctx) {
			recs := make([]*idr.Node, len(c02Records))
			for i, d := range c02Records {
				recs[i] = c02LoadRecord(d)
			}
			if !transform.VerifTransformCacheSwitchable {
				c.Note("transform result cache switch could not be installed by the overlay; only the default (cache on) configuration was run")
			}
			ext := omniparser.Extension{CreateSchemaHandler: omniv21.CreateSchemaHandler, CustomFuncs: c02ImplFuncs}
			idx := 0
			c02Enumerate(c.Quick(), func(label string, decls gd) bool {
				idx++
				if !c.Mine(idx) {
					return true
				}
				c.Begin(func() interface{} { return c02Case{Decls: decls} })
				im, err, pan := c02Validate(decls)
				if pan != "" {
					c.Violation("panic-in-validation:"+label, pan, c02Case{Decls: decls}, nil)
					return true
				}
				if err != nil {
					c.HarnessError("generated declarations rejected (" + label + "): " + err.Error())
					return true
				}
				c.Count("declaration_sets", 1)
				fod := decls["FINAL_OUTPUT"].(gd)
				full := idx%23 == 0 && fod["xpath"] == nil && fod["xpath_dynamic"] == nil && fod["array"] == nil && fod["const"] == nil && fod["external"] == nil
				var schema omniparser.Schema
				if full {
					var serr error
					schema, serr, _ = hx.NewSchema("s", string(c02Schema(decls, true)), ext)
					if serr != nil {
						c.HarnessError("generated schema accepted by ValidateTransformDeclarations but rejected by NewSchema (" + label + "): " + serr.Error())
						schema = nil
					}
				}
				var xmlRecs, xmlOutcomes []string
				for ri, rec := range recs {
					sig, detail, outcome := c02Check(decls, c02Records[ri], rec, im)
					if sig == "" && strings.HasPrefix(c02Records[ri], "<") {
						xmlRecs, xmlOutcomes = append(xmlRecs, c02Records[ri]), append(xmlOutcomes, outcome)
					}
					c.Eval(label + "|" + outcome)
					cs := c02Case{Decls: decls, Record: c02Records[ri]}
					switch {
					case strings.HasPrefix(sig, "harness:"):
						c.HarnessError(sig + ": " + detail)
					case sig != "":
						c.Violation(sig, detail, cs, func() string { s, _, _ := c02Check(decls, cs.Record, nil, nil); return s })
					default:
						if c.WantSample() && strings.HasPrefix(label, "C:") && outcome != "null" && outcome != "FAIL" {
							c.Sample(map[string]interface{}{"family": label, "transform_declarations": decls, "record": cs.Record, "emitted": outcome})
						}
						if schema != nil && strings.HasPrefix(c02Records[ri], "<") {
							r := hx.Run(schema, strings.NewReader(c02Records[ri]), hx.Opts{Externals: c02Externals, NoChecksum: true})
							got := "?"
							if len(r.Steps) > 0 {
								switch r.Steps[0].Kind {
								case "rec":
									got = r.Steps[0].Out
								case "fail":
									got = "FAIL"
								default:
									got = r.Steps[0].String()
								}
							}
							c.Count("full_path_cases", 1)
							// (a result with no JSON form - NaN, Inf - is found when the Transform encodes it: that
							// record fails, like any other record that fails)
							if strings.HasPrefix(outcome, "MARSHAL-ERROR") {
								outcome = "FAIL"
							}
							if !bytes.Equal([]byte(got), []byte(outcome)) {
								c.Violation("full-path-differs-from-parse-node:"+label, fmt.Sprintf("Transform.Read gave %s, ParseNode/reference gave %s\n%s", got, outcome, c02Schema(decls, true)), cs, nil)
							}
						}
					}
				}
				// (the wrapper element gives the records one more ancestor than they have alone, so declaration
				// sets that climb twice - ".." under ".." - are left to the single-record path)
				if full && len(xmlRecs) > 1 && strings.Count(gen.Marshal(decls), `".."`) <= 1 {
					// all records as ONE stream under a common parent, twice over (so that every record also
					// follows every other one): each result must be the record's own
					stream, serr, _ := hx.NewSchema("s", string(c02SchemaAt(decls, true, "/S/r")), ext)
					if serr == nil {
						doc := "<S>" + strings.Join(xmlRecs, "") + strings.Join(xmlRecs, "") + "</S>"
						want := append(append([]string{}, xmlOutcomes...), xmlOutcomes...)
						r := hx.Run(stream, strings.NewReader(doc), hx.Opts{Externals: c02Externals, NoChecksum: true, MaxReads: 3 * len(want)})
						c.Count("stream_path_cases", 1)
						for i := range want {
							got := "?"
							if i < len(r.Steps) {
								switch r.Steps[i].Kind {
								case "rec":
									got = r.Steps[i].Out
								case "fail":
									got = "FAIL"
								default:
									got = r.Steps[i].String()
								}
							}
							if strings.HasPrefix(want[i], "MARSHAL-ERROR") {
								want[i] = "FAIL"
							}
							if got != want[i] {
								c.Violation("stream-path-differs-from-record-alone:"+label, fmt.Sprintf("record %d of the stream %s\nTransform.Read gave %s, the record alone gives %s\n%s", i, doc, got, want[i], c02SchemaAt(decls, true, "/S/r")), c02Case{Decls: decls, Record: xmlRecs[i%len(xmlRecs)]}, nil)
								break
							}
						}
					}
				}
				return !c.TimeUp()
			})
		},
		Replay: func(raw json.RawMessage) (string, string) {
			var cs c02Case
			dec := json.NewDecoder(bytes.NewReader(raw))
			if err := dec.Decode(&cs); err != nil {
				return "harness:bad-replay", err.Error()
			}
			cs.Decls = normGD(cs.Decls).(gd)
			sig, detail, outcome := c02Check(cs.Decls, cs.Record, nil, nil)
			if sig == "" {
				detail = "implementation and reference agree: " + outcome
			}
			return sig, detail
		},
	})
}

// normGD converts decoded JSON (map[string]interface{}) into the gd alias form recursively (they
// are the same type; this only exists for clarity of intent and to copy the value).
func normGD(v interface{}) interface{} {
	switch x := v.(type) {
	case map[string]interface{}:
		m := gd{}
		for k, e := range x {
			m[k] = normGD(e)
		}
		return m
	case []interface{}:
		out := make([]interface{}, len(x))
		for i, e := range x {
			out[i] = normGD(e)
		}
		return out
	}
	return v
}
