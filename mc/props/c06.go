package props

import (
	"encoding/json"
	"fmt"
	"strconv"
	"strings"

	"github.com/jf-tech/omniparser"

	"verif/mc/core"
	"verif/mc/gen"
	"verif/mc/hx"
)

// C06 — delimited and fixed-length fields carry exactly the input text: table / layout
// enumeration, round trip through the real Transform against reference field models.

type c06Case struct {
	Family string      `json:"family"`
	Schema string      `json:"schema"`
	Input  []byte      `json:"input_bytes"`
	Want   [][]*string `json:"expected_columns"` // per record, per declared column; null = column absent
	Fatal  bool        `json:"expect_fatal_before_any_record,omitempty"`
}

func c06Cols(n int, prefix string) (decl string, out string) {
	var d, o []string
	for i := 1; i <= n; i++ {
		d = append(d, fmt.Sprintf(`{"name":"%s%d"}`, prefix, i))
		o = append(o, fmt.Sprintf(`"c%d":{"xpath":"%s%d","no_trim":true,"keep_empty_or_null":true}`, i, prefix, i))
	}
	return strings.Join(d, ","), strings.Join(o, ",")
}

func jq(s string) string { b, _ := json.Marshal(s); return string(b) }

// c06Observe runs the transform and returns per record the column values (nil = null/absent).
func c06Observe(schema omniparser.Schema, input []byte, ncols int) (recs [][]*string, end string, panicSite string) {
	r := hx.Run(schema, strings.NewReader(string(input)), hx.Opts{MaxReads: 5000, NoChecksum: true})
	if r.PanicSite != "" {
		return nil, "panic", r.PanicSite
	}
	if r.NewTransformErr != "" {
		return nil, "newtransform: " + r.NewTransformErr, ""
	}
	for _, s := range r.Steps {
		switch s.Kind {
		case "rec":
			var m map[string]*string
			if err := json.Unmarshal([]byte(s.Out), &m); err != nil {
				// FINAL_OUTPUT with all columns absent is emitted as "{}" or null
				m = map[string]*string{}
			}
			row := make([]*string, ncols)
			for i := range row {
				row[i] = m[fmt.Sprintf("c%d", i+1)]
			}
			recs = append(recs, row)
		case "fail":
			return recs, "fail: " + s.Err, ""
		case "fatal":
			return recs, "fatal: " + s.Err, ""
		case "eof":
			return recs, "eof", ""
		}
	}
	return recs, "no-terminal-result", ""
}

func sameRows(a, b [][]*string) bool {
	if len(a) != len(b) {
		return false
	}
	for i := range a {
		if len(a[i]) != len(b[i]) {
			return false
		}
		for j := range a[i] {
			if (a[i][j] == nil) != (b[i][j] == nil) || (a[i][j] != nil && *a[i][j] != *b[i][j]) {
				return false
			}
		}
	}
	return true
}

func rowsStr(rows [][]*string) string {
	var b strings.Builder
	for _, r := range rows {
		b.WriteString("[")
		for j, v := range r {
			if j > 0 {
				b.WriteString(" ")
			}
			if v == nil {
				b.WriteString("<absent>")
			} else {
				b.WriteString(fmt.Sprintf("%q", *v))
			}
		}
		b.WriteString("]")
	}
	return b.String()
}

func c06Check(cs c06Case, schema omniparser.Schema) (sig, detail string) {
	if schema == nil {
		var err error
		schema, err, _ = hx.NewSchema("s", cs.Schema)
		if err != nil {
			return "harness:schema-rejected", err.Error()
		}
	}
	ncols := 0
	for _, r := range cs.Want {
		if len(r) > ncols {
			ncols = len(r)
		}
	}
	if ncols == 0 {
		ncols = 3
	}
	got, end, ps := c06Observe(schema, cs.Input, ncols)
	desc := func() string {
		return fmt.Sprintf("%s\ninput %q\n-- delivered: %s => %s\n-- expected:  %s", cs.Family, cs.Input, rowsStr(got), end, rowsStr(cs.Want))
	}
	fam := strings.SplitN(cs.Family, "|", 2)[0]
	if ps != "" {
		return "panic:" + ps, desc()
	}
	if cs.Fatal {
		if len(got) == 0 && strings.HasPrefix(end, "fatal") {
			return "", ""
		}
		return fam + ":header-mismatch-not-rejected-before-first-record", desc()
	}
	if sameRows(got, cs.Want) && end == "eof" {
		return "", ""
	}
	// known finding: encoding/csv rewrites CR LF inside a quoted field to LF
	if strings.HasPrefix(fam, "csv") && end == "eof" && len(got) == len(cs.Want) {
		onlyCRLF := true
		for i := range got {
			for j := range got[i] {
				g, w := got[i][j], cs.Want[i][j]
				if (g == nil) != (w == nil) {
					onlyCRLF = false
				} else if g != nil && *g != *w && *g != strings.ReplaceAll(*w, "\r\n", "\n") {
					onlyCRLF = false
				}
			}
		}
		if onlyCRLF {
			return "csv:crlf-inside-quoted-field-becomes-lf", desc()
		}
	}
	kind := "value-differs"
	switch {
	case end != "eof":
		kind = "unexpected-end:" + strings.SplitN(end, ":", 2)[0]
	case len(got) != len(cs.Want):
		kind = "record-count"
	}
	return fam + ":" + kind, desc()
}

// rfc4180 encodes one field; force quotes it although not necessary.
func rfc4180(f string, delim string, force bool) string {
	if force || f == "" && false || strings.ContainsAny(f, "\"\r\n") || strings.Contains(f, delim) {
		return `"` + strings.ReplaceAll(f, `"`, `""`) + `"`
	}
	return f
}

func sp(s string) *string { return &s }

func init() {
	core.Register(&core.Prop{
		ID:    "C06",
		Level: "exploration",
		Rule:  "csv/csv2: every table of up to 2x2 (thorough: reduced 3x3) fields over {empty, a, ' a ', é, 世, DELIM, \", a\"b, LF, CR, CRLF, 'x,y'} written by a reference RFC-4180 encoder (minimal and forced quoting) x row terminator {LF, CRLF, none after the last row} x delimiter {, | TAB ; é ∑}, rows shorter/longer than declared, blank lines, matching and mismatching declared header (csv), replace_double_quotes, csv2 rows:2 and header/footer records with line_index/line_pattern and index gaps; fixed-length/fixedlength2: every line over {a,b,é,世,space} up to 4 (5) runes x every layout of up to 2 columns with start_pos 1..6, length 1..4 (gaps, overlaps, past the end), multi-line envelopes, and a buffer-boundary sweep with the real 4096-byte buffer (3-line envelopes with every line length 12..70 over > 3 buffers; single lines of 4090..4100 and 8190..8200 bytes with a multi-byte rune straddling the boundary); values observed through the Transform with no_trim+keep_empty_or_null and compared with reference models (RFC-4180 fields; []rune(line)[start-1:start-1+length] clipped); distinct by (schema, input); declared csv names x header cells over an alphabet with the delimiter inside; 2-/3-row envelopes x column kinds x empty lines at every position; columns on different rows with multi-byte runes; 70 and 130 columns on a 2-row envelope; a last line of exactly 4096*k bytes without a line break",
		Assumptions: []string{
			"the reference encoders/slicers (about 40 lines) are trusted",
			"a column beyond the row is absent for csv and empty for csv2, as the property allows either",
		},
		BudgetQuick: 100, BudgetThorough: 1500,
		Run: c06Run,
		Replay: func(raw json.RawMessage) (string, string) {
			var cs c06Case
			if err := json.Unmarshal(raw, &cs); err != nil {
				return "harness:bad-replay", err.Error()
			}
			sig, detail := c06Check(cs, nil)
			if sig == "" {
				detail = "fields carried exactly"
			}
			return sig, detail
		},
	})
}

func c06Run(c *core.Ctx) {
	idx := 0
	emit := func(cs c06Case, schema omniparser.Schema, evalKey string) bool {
		idx++
		if !c.Mine(idx) {
			return true
		}
		c.Begin(func() interface{} { return cs })
		sig, detail := c06Check(cs, schema)
		c.Eval(evalKey)
		switch {
		case strings.HasPrefix(sig, "harness:"):
			c.HarnessError(sig + ": " + detail)
		case sig != "":
			c.Violation(sig, detail, cs, func() string { s, _ := c06Check(cs, nil); return s })
		case c.WantSample() && idx%5003 == 0:
			c.Sample(map[string]interface{}{"family": cs.Family, "input": string(cs.Input), "expected": rowsStr(cs.Want)})
		}
		return !c.TimeUpEvery(32)
	}
	hdr := func(f string) string {
		return `"parser_settings":{"version":"omni.2.1","file_format_type":"` + f + `"}`
	}

	// ---------------- csv / csv2 tables ----------------
	delims := []string{",", "|", "\t", ";", "é", "∑"}
	for _, format := range []string{"csv", "csv2"} {
		for _, delim := range delims {
			vals := []string{"", "a", " a ", "é", "世", delim, `"`, `a"b`, "\n", "\r", "\r\n", "x,y"}
			colDecl, colOut := c06Cols(2, "k")
			var schemaText string
			if format == "csv" {
				schemaText = `{` + hdr("csv") + `,"file_declaration":{"delimiter":` + jq(delim) + `,"data_row_index":1,"columns":[` + colDecl + `]},"transform_declarations":{"FINAL_OUTPUT":{"object":{` + colOut + `}}}}`
			} else {
				schemaText = `{` + hdr("csv2") + `,"file_declaration":{"delimiter":` + jq(delim) + `,"records":[{"columns":[` + colDecl + `]}]},"transform_declarations":{"FINAL_OUTPUT":{"object":{` + colOut + `}}}}`
			}
			schema, err, _ := hx.NewSchema("s", schemaText)
			if err != nil {
				c.HarnessError("csv schema rejected: " + err.Error())
				continue
			}
			missing := func() *string {
				if format == "csv" {
					return nil
				}
				return sp("")
			}
			// shapes: rows x fields-per-row (1..3 fields against 2 declared columns)
			shapes := [][]int{{1}, {2}, {3}, {2, 2}, {1, 2}, {2, 1}, {3, 2}}
			if !c.Quick() {
				shapes = append(shapes, []int{2, 2, 2}, []int{2, 3, 1})
			}
			for _, shape := range shapes {
				n := 0
				for _, k := range shape {
					n += k
				}
				vs := vals
				if n > 4 || (c.Quick() && n > 3) {
					vs = []string{"", "a", delim, `"`, "\n", " b "}
				}
				if n > 5 {
					vs = []string{"", "a", delim, "\n"}
				}
				radix := make([]int, n)
				for i := range radix {
					radix[i] = len(vs)
				}
				stop := false
				gen.Counter(radix, func(d []int) bool {
					// build the logical table
					var table [][]string
					k := 0
					for _, w := range shape {
						row := make([]string, w)
						for j := range row {
							row[j] = vs[d[k]]
							k++
						}
						table = append(table, row)
					}
					for _, term := range []string{"\n", "\r\n", ""} {
						for _, force := range []bool{false, true} {
							for _, blank := range []bool{false, true} {
								if blank && (force || term == "") {
									continue
								}
								var b strings.Builder
								var want [][]*string
								for ri, row := range table {
									enc := make([]string, len(row))
									for j, f := range row {
										enc[j] = rfc4180(f, delim, force)
									}
									line := strings.Join(enc, delim)
									if len(row) == 1 && row[0] == "" && !force {
										line = `""` // a lone empty field must be quoted or it is a blank line
									}
									b.WriteString(line)
									if ri < len(table)-1 || term != "" {
										t := term
										if t == "" {
											t = "\n"
										}
										b.WriteString(t)
										if blank {
											b.WriteString(t)
										}
									}
									w := []*string{missing(), missing()}
									for j := 0; j < 2 && j < len(row); j++ {
										w[j] = sp(row[j])
									}
									want = append(want, w)
								}
								cs := c06Case{Family: fmt.Sprintf("%s|delim=%q term=%q force-quote=%v blank-lines=%v", format, delim, term, force, blank), Schema: schemaText, Input: []byte(b.String()), Want: want}
								if !emit(cs, schema, fmt.Sprintf("%s|%q|%v", format, delim, shape)) {
									stop = true
									return false
								}
							}
						}
					}
					return true
				})
				if stop {
					return
				}
			}
		}
	}
	// csv: declared header matching / mismatching, data row jump, replace_double_quotes
	{
		colDecl, colOut := c06Cols(2, "k")
		schemaText := `{` + hdr("csv") + `,"file_declaration":{"delimiter":",","header_row_index":2,"data_row_index":4,"columns":[` + colDecl + `]},"transform_declarations":{"FINAL_OUTPUT":{"object":{` + colOut + `}}}}`
		schema, _, _ := hx.NewSchema("s", schemaText)
		for _, h := range []struct {
			line  string
			fatal bool
		}{{"k1,k2", false}, {" k1 , k2 ", false}, {"k1,k2,extra", false}, {"k1", true}, {"k2,k1", true}, {"K1,k2", true}, {"k1,", true}, {"", true}} {
			in := "title\n" + h.line + "\n---\nv1,v2\nw1,w2\n"
			want := [][]*string{{sp("v1"), sp("v2")}, {sp("w1"), sp("w2")}}
			if h.fatal {
				want = nil
			}
			if h.line == "" { // blank header line is skipped by the decoder: '---' becomes the header
				want = nil
			}
			emit(c06Case{Family: "csv|declared-header " + h.line, Schema: schemaText, Input: []byte(in), Want: want, Fatal: h.fatal}, schema, "csv-header|"+h.line)
		}
		// declared names and header cells over an alphabet with the delimiter, blanks and quotes inside: the
		// header is accepted iff every declared name equals (blanks around it aside) the cell at its position
		{
			names := []string{"a", "b", "a,b", "b c", "b,", `q"r`}
			for _, n1 := range names {
				for _, n2 := range names {
					if n1 == n2 {
						continue // (declared names must differ)
					}
					st := `{` + hdr("csv") + `,"file_declaration":{"delimiter":",","header_row_index":1,"data_row_index":2,"columns":[{"name":` + jq(n1) + `,"alias":"k1"},{"name":` + jq(n2) + `,"alias":"k2"}]},"transform_declarations":{"FINAL_OUTPUT":{"object":{` + colOut + `}}}}`
					sc, err, _ := hx.NewSchema("s", st)
					if err != nil {
						c.HarnessError("csv header schema rejected: " + err.Error())
						continue
					}
					cells := append(append([]string{}, names...), "b,b", ",a", "a,b,b")
					for _, c1 := range cells {
						for _, c2 := range cells {
							for _, extra := range []string{"", ",x"} {
								in := rfc4180(c1, ",", false) + "," + rfc4180(" "+c2+" ", ",", false) + extra + "\nv1,v2\n"
								match := c1 == n1 && c2 == n2
								want := [][]*string{{sp("v1"), sp("v2")}}
								if !match {
									want = nil
								}
								emit(c06Case{Family: fmt.Sprintf("csv|declared names %q %q, header cells %q %q%s", n1, n2, c1, c2, extra), Schema: st, Input: []byte(in), Want: want, Fatal: !match}, sc, "csv-header-cells")
							}
						}
					}
				}
			}
		}
		// header / data row indices are physical line numbers: skipped regions with multi-line quoted
		// records and blank lines
		for _, lay := range []struct {
			hdrIdx, dataIdx int
			input           string
			want            [][]*string
			fatal           bool
		}{
			{3, 6, "\"ti\ntle\"\nk1,k2\n\n---\nv1,v2\nw1,w2\n", [][]*string{{sp("v1"), sp("v2")}, {sp("w1"), sp("w2")}}, false},
			{3, 6, "\"ti\ntle\"\nk2,k1\n\n---\nv1,v2\n", nil, true},
			{2, 6, "t\nk1,k2\n\n\"a\nb\",x\nv1,v2\nw1,w2\n", [][]*string{{sp("v1"), sp("v2")}, {sp("w1"), sp("w2")}}, false},
			{4, 5, "\n\nt\nk1,k2\n\"v\n1\",v2\nw1,w2\n", [][]*string{{sp("v\n1"), sp("v2")}, {sp("w1"), sp("w2")}}, false},
			{1, 4, "k1,k2\n\n\"x\ny\"\nv1,v2\n", [][]*string{{sp("v1"), sp("v2")}}, false},
			{1, 2, "k1,k2\nv1,v2\n\n\nw1,w2\n", [][]*string{{sp("v1"), sp("v2")}, {sp("w1"), sp("w2")}}, false},
			// blank lines right before the row jumped to
			{1, 4, "k1,k2\n\n\nv1,v2\nw1,w2\n", [][]*string{{sp("v1"), sp("v2")}, {sp("w1"), sp("w2")}}, false},
			{2, 3, "\nk1,k2\nv1,v2\n", [][]*string{{sp("v1"), sp("v2")}}, false},
			{3, 5, "t\n\nk1,k2\n\nv1,v2\nw1,w2\n", [][]*string{{sp("v1"), sp("v2")}, {sp("w1"), sp("w2")}}, false},
			{3, 5, "\n\nk2,k1\n\nv1,v2\n", nil, true},
			{2, 6, "t\nk1,k2\n\n\n\n\"v\n1\",v2\nw1,w2\n", [][]*string{{sp("v\n1"), sp("v2")}, {sp("w1"), sp("w2")}}, false},
			{1, 3, "k1,k2\n\nv1,v2\n\n", [][]*string{{sp("v1"), sp("v2")}}, false},
		} {
			st := fmt.Sprintf(`{`+hdr("csv")+`,"file_declaration":{"delimiter":",","header_row_index":%d,"data_row_index":%d,"columns":[`+colDecl+`]},"transform_declarations":{"FINAL_OUTPUT":{"object":{`+colOut+`}}}}`, lay.hdrIdx, lay.dataIdx)
			emit(c06Case{Family: fmt.Sprintf("csv|header_row_index=%d data_row_index=%d over multi-line and blank lines", lay.hdrIdx, lay.dataIdx), Schema: st, Input: []byte(lay.input), Want: lay.want, Fatal: lay.fatal}, nil, "csv-header-jump")
		}
		for _, format := range []string{"csv", "csv2"} {
			var st string
			if format == "csv" {
				st = `{` + hdr("csv") + `,"file_declaration":{"delimiter":"|","replace_double_quotes":true,"data_row_index":1,"columns":[` + colDecl + `]},"transform_declarations":{"FINAL_OUTPUT":{"object":{` + colOut + `}}}}`
			} else {
				st = `{` + hdr("csv2") + `,"file_declaration":{"delimiter":"|","replace_double_quotes":true,"records":[{"columns":[` + colDecl + `]}]},"transform_declarations":{"FINAL_OUTPUT":{"object":{` + colOut + `}}}}`
			}
			sc, _, _ := hx.NewSchema("s", st)
			vs := []string{"a", `"`, `"a`, `a"`, `"a"`, `a"b"c`, ` "x" `, "é\"世"}
			for _, v1 := range vs {
				for _, v2 := range vs {
					in := v1 + "|" + v2 + "\n" + v2 + "|" + v1
					r := func(s string) *string { return sp(strings.ReplaceAll(s, `"`, `'`)) }
					emit(c06Case{Family: format + "|replace_double_quotes", Schema: st, Input: []byte(in), Want: [][]*string{{r(v1), r(v2)}, {r(v2), r(v1)}}}, sc, format+"-rdq")
				}
			}
		}
	}
	// csv2: rows:2 and header/footer records with line_index / line_pattern and index gaps
	{
		st := `{` + hdr("csv2") + `,"file_declaration":{"delimiter":",","records":[{"rows":2,"columns":[{"name":"k1","index":3,"line_index":1},{"name":"k2","index":1,"line_index":2},{"name":"k3","index":5,"line_index":2}]}]},
 "transform_declarations":{"FINAL_OUTPUT":{"object":{"c1":{"xpath":"k1","no_trim":true,"keep_empty_or_null":true},"c2":{"xpath":"k2","no_trim":true,"keep_empty_or_null":true},"c3":{"xpath":"k3","no_trim":true,"keep_empty_or_null":true}}}}}`
		sc, err, _ := hx.NewSchema("s", st)
		if err != nil {
			c.HarnessError(err.Error())
		}
		vs := []string{"a", "", "é", "x,y", "l1\nl2", ` "q" `}
		for _, a := range vs {
			for _, b := range vs {
				for _, x := range vs {
					in := "p,q," + rfc4180(a, ",", false) + "\n" + rfc4180(b, ",", false) + ",r\n\n1,2," + rfc4180(x, ",", true) + ",4\n" + rfc4180(b, ",", true) + ",t,u,v," + rfc4180(a, ",", false) + "\n"
					want := [][]*string{{sp(a), sp(b), sp("")}, {sp(x), sp(b), sp(a)}}
					if b == "" { // a line holding one empty unquoted field and ",r" is fine, but an empty first field is still a field
					}
					emit(c06Case{Family: "csv2|rows:2 line_index index-gaps", Schema: st, Input: []byte(in), Want: want}, sc, "csv2-rows2")
				}
			}
		}
		st2 := `{` + hdr("csv2") + `,"file_declaration":{"delimiter":"|","records":[{"header":"^B","footer":"^E","columns":[{"name":"k1","index":2,"line_pattern":"^D"},{"name":"k2","index":3,"line_index":1},{"name":"k3","index":2,"line_pattern":"^E"}]}]},
 "transform_declarations":{"FINAL_OUTPUT":{"object":{"c1":{"xpath":"k1","no_trim":true,"keep_empty_or_null":true},"c2":{"xpath":"k2","no_trim":true,"keep_empty_or_null":true},"c3":{"xpath":"k3","no_trim":true,"keep_empty_or_null":true}}}}}`
		sc2, err, _ := hx.NewSchema("s", st2)
		if err != nil {
			c.HarnessError(err.Error())
		}
		for _, a := range vs {
			for _, b := range vs {
				qa, qb := rfc4180(a, "|", false), rfc4180(b, "|", false)
				in := "B|h|" + qb + "\nX|zz\nD|" + qa + "\nD|second\nE|" + qb + "\nB|h2\nE|" + qa + "|\n"
				want := [][]*string{{sp(a), sp(b), sp(b)}, {nil, sp(""), sp(a)}}
				emit(c06Case{Family: "csv2|header/footer line_pattern", Schema: st2, Input: []byte(in), Want: want}, sc2, "csv2-hf")
			}
		}
	}

	// ---------------- line selection (line_index / line_pattern) in envelopes / records of 1..5 lines ----------------
	{
		type selcol struct {
			idx int    // line_index (0 = none)
			pat string // line_pattern ("" = none)
		}
		cols := []selcol{{0, ""}, {1, ""}, {2, ""}, {3, ""}, {0, "^D"}, {0, "E$"}, {0, "^Z"}, {0, "^B"}}
		// the value of a column on an instance: taken from the first line the column selects
		model := func(lines []string, value func(line string) string) []*string {
			var row []*string
			for _, cdef := range cols {
				var v *string
				for i, l := range lines {
					if cdef.idx != 0 && cdef.idx != i+1 {
						continue
					}
					if cdef.pat != "" {
						ok := false
						switch cdef.pat {
						case "^D":
							ok = strings.HasPrefix(l, "D")
						case "E$":
							ok = strings.HasSuffix(l, "E")
						case "^Z":
							ok = strings.HasPrefix(l, "Z")
						case "^B":
							ok = strings.HasPrefix(l, "B")
						}
						if !ok {
							continue
						}
					}
					v = sp(value(l))
					break
				}
				row = append(row, v)
			}
			return row
		}
		var outs []string
		for i := range cols {
			outs = append(outs, fmt.Sprintf(`"c%d":{"xpath":"k%d","no_trim":true,"keep_empty_or_null":true}`, i+1, i+1))
		}
		fo := `"transform_declarations":{"FINAL_OUTPUT":{"object":{` + strings.Join(outs, ",") + `}}}`
		for _, format := range []string{"fixedlength2", "csv2"} {
			var cd []string
			for i, cdef := range cols {
				sel := ""
				if cdef.idx != 0 {
					sel = fmt.Sprintf(`,"line_index":%d`, cdef.idx)
				}
				if cdef.pat != "" {
					sel = `,"line_pattern":` + jq(cdef.pat)
				}
				if format == "fixedlength2" {
					cd = append(cd, fmt.Sprintf(`{"name":"k%d","start_pos":2,"length":2%s}`, i+1, sel))
				} else {
					cd = append(cd, fmt.Sprintf(`{"name":"k%d","index":2%s}`, i+1, sel))
				}
			}
			line := func(l string) string { // l = tag + two value characters + optional E
				if format == "csv2" {
					return l[:1] + "|" + l[1:3] + "|" + l[3:]
				}
				return l
			}
			value := func(l string) string { return l[1:3] }
			unit, list := "envelopes", "envelopes"
			if format == "csv2" {
				unit, list = "records", "records"
			}
			_ = unit
			delim := ""
			if format == "csv2" {
				delim = `"delimiter":"|",`
			}
			// csv2 lines look like "B|11|E": the footer pattern E$ still applies to the joined line text
			// rows-based: every instance has exactly n lines
			pool := []string{"B11", "D22", "X33E", "D44", "B55E", "Z66", "D77E"}
			for n := 1; n <= 3; n++ {
				st := `{` + hdr(format) + `,"file_declaration":{` + delim + `"` + list + `":[{"name":"R","rows":` + fmt.Sprint(n) + `,"columns":[` + strings.Join(cd, ",") + `]}]},` + fo + `}`
				sc, err, _ := hx.NewSchema("s", st)
				if err != nil {
					c.HarnessError("line-selection schema rejected: " + err.Error())
					continue
				}
				gen.Sequences(len(pool), n, func(seq []int) bool {
					if len(seq) != n {
						return true
					}
					var in strings.Builder
					var want [][]*string
					// two instances: the chosen lines, then the same lines rotated
					for rot := 0; rot < 2; rot++ {
						var lines []string
						for i := range seq {
							lines = append(lines, pool[seq[(i+rot)%n]])
						}
						for _, l := range lines {
							in.WriteString(line(l) + "\n")
						}
						want = append(want, model(lines, value))
					}
					return emit(c06Case{Family: fmt.Sprintf("%s|line selection, rows:%d", format, n), Schema: st, Input: []byte(in.String()), Want: want}, sc, format+"-linesel-rows")
				})
			}
			// header/footer: instances of 1..5 lines (the one-line instance is header and footer at once)
			st := `{` + hdr(format) + `,"file_declaration":{` + delim + `"` + list + `":[{"name":"R","header":"^B","footer":"E$","columns":[` + strings.Join(cd, ",") + `]}]},` + fo + `}`
			sc, err, _ := hx.NewSchema("s", st)
			if err != nil {
				c.HarnessError("line-selection schema rejected: " + err.Error())
				continue
			}
			insts := [][]string{{"B11E"}, {"B11", "D22E"}, {"B11", "X22E"}, {"B11", "D22", "X33E"}, {"B11", "X22", "D33", "D44", "Z55E"}, {"B11", "Z22", "B33", "D44E"}}
			for i := range insts {
				for j := range insts {
					for k := range insts {
						var in strings.Builder
						var want [][]*string
						for _, x := range []int{i, j, k} {
							for _, l := range insts[x] {
								in.WriteString(line(l) + "\n")
							}
							want = append(want, model(insts[x], value))
						}
						if !emit(c06Case{Family: format + "|line selection, header/footer instances of 1-5 lines", Schema: st, Input: []byte(in.String()), Want: want}, sc, format+"-linesel-hf") {
							return
						}
					}
				}
			}
		}
	}

	// ---------------- buffered look-ahead that fails, then the buffered lines are consumed piecemeal ----------------
	// A header/footer block that is opened but never closed before the end of the input (all remaining
	// lines get buffered), or a rows:N record tried with fewer than N lines left, followed by a
	// one-line target record that takes the buffered lines one at a time.
	for _, format := range []string{"csv2", "fixedlength2"} {
		for _, first := range []string{`"header":"^B","footer":"^E"`, `"rows":4`, `"rows":7`} {
			var st string
			if format == "csv2" {
				st = `{` + hdr("csv2") + `,"file_declaration":{"delimiter":"|","records":[{"name":"BLK","min":0,"max":-1,` + first + `},{"name":"R","is_target":true,"min":0,"max":-1,"columns":[{"name":"k1","index":1},{"name":"k2","index":2}]}]},"transform_declarations":{"FINAL_OUTPUT":{"object":{"c1":{"xpath":"k1","no_trim":true,"keep_empty_or_null":true},"c2":{"xpath":"k2","no_trim":true,"keep_empty_or_null":true}}}}}`
			} else {
				st = `{` + hdr("fixedlength2") + `,"file_declaration":{"envelopes":[{"name":"BLK","min":0,"max":-1,` + first + `},{"name":"R","is_target":true,"min":0,"max":-1,"columns":[{"name":"k1","start_pos":1,"length":2},{"name":"k2","start_pos":4,"length":3}]}]},"transform_declarations":{"FINAL_OUTPUT":{"object":{"c1":{"xpath":"k1","no_trim":true,"keep_empty_or_null":true},"c2":{"xpath":"k2","no_trim":true,"keep_empty_or_null":true}}}}}`
			}
			sc, err, _ := hx.NewSchema("s", st)
			if err != nil {
				c.HarnessError("look-ahead schema rejected: " + err.Error())
				continue
			}
			for complete := 0; complete <= 1; complete++ {
				for k := 0; k <= 9; k++ {
					var in strings.Builder
					var want [][]*string
					blockLen := 0
					if strings.Contains(first, "rows") {
						fmt.Sscanf(first[strings.Index(first, ":")+1:], "%d", &blockLen)
					}
					if complete == 1 {
						if blockLen == 0 {
							in.WriteString("B0|blk\nxx|in1\nE0|blk\n")
						} else {
							for i := 0; i < blockLen; i++ {
								fmt.Fprintf(&in, "b%d|blk\n", i)
							}
						}
					}
					// the unfinished block: an opening line and k more lines, none closing it / fewer than N in all
					n := k + 1
					if blockLen != 0 && n >= blockLen {
						continue
					}
					for i := 0; i < n; i++ {
						tag := fmt.Sprintf("%c%d", 'B'+byte(i%3)*2, i) // B0 D1 F2 B3 ... (never starts with E)
						val := fmt.Sprintf("v%02d", i)
						in.WriteString(tag + "|" + val + "\n")
						want = append(want, []*string{sp(tag), sp(val)})
					}
					if !emit(c06Case{Family: fmt.Sprintf("%s|failed look-ahead (%s) then %d buffered lines taken one at a time", format, first, n), Schema: st, Input: []byte(in.String()), Want: want}, sc, format+"-lookahead") {
						return
					}
				}
			}
		}
	}

	// ---------------- fixed-length / fixedlength2 ----------------
	runes := []string{"a", "b", "é", "世", " "}
	maxLen := 4
	if !c.Quick() {
		maxLen = 5
	}
	var lines []string
	gen.Sequences(len(runes), maxLen, func(seq []int) bool {
		if len(seq) == 0 {
			return true
		}
		var b strings.Builder
		for _, s := range seq {
			b.WriteString(runes[s])
		}
		lines = append(lines, b.String())
		return true
	})
	slice := func(line string, start, length int) string {
		r := []rune(line)
		if start-1 >= len(r) {
			return ""
		}
		end := start - 1 + length
		if end > len(r) {
			end = len(r)
		}
		return string(r[start-1 : end])
	}
	type lay struct{ s1, l1, s2, l2 int }
	var lays []lay
	for s1 := 1; s1 <= 6; s1++ {
		for l1 := 1; l1 <= 4; l1++ {
			for s2 := 1; s2 <= 6; s2++ {
				for l2 := 1; l2 <= 4; l2++ {
					if c.Quick() && (s1*7+l1*3+s2*5+l2)%4 != 0 {
						continue
					}
					lays = append(lays, lay{s1, l1, s2, l2})
				}
			}
		}
	}
	for _, format := range []string{"fixed-length", "fixedlength2"} {
		for _, ly := range lays {
			cols := fmt.Sprintf(`{"name":"k1","start_pos":%d,"length":%d},{"name":"k2","start_pos":%d,"length":%d}`, ly.s1, ly.l1, ly.s2, ly.l2)
			_, colOut := c06Cols(2, "k")
			env := `{"columns":[` + cols + `]}`
			if format == "fixedlength2" {
				env = `{"name":"R","columns":[` + cols + `]}`
			}
			st := `{` + hdr(format) + `,"file_declaration":{"envelopes":[` + env + `]},"transform_declarations":{"FINAL_OUTPUT":{"object":{` + colOut + `}}}}`
			sc, err, _ := hx.NewSchema("s", st)
			if err != nil {
				c.HarnessError("fixed-length schema rejected: " + err.Error())
				break
			}
			// all lines in one input (records in input order, blank lines ignored), two terminators
			idx++
			if !c.Mine(idx) {
				continue
			}
			for _, term := range []string{"\n", "\r\n"} {
				var b strings.Builder
				var want [][]*string
				for i, l := range lines {
					b.WriteString(l)
					if i < len(lines)-1 || term == "\n" {
						b.WriteString(term)
					}
					if i%5 == 2 {
						b.WriteString(term)
					}
					want = append(want, []*string{sp(slice(l, ly.s1, ly.l1)), sp(slice(l, ly.s2, ly.l2))})
				}
				cs := c06Case{Family: fmt.Sprintf("%s|layout (%d,%d)(%d,%d) term=%q", format, ly.s1, ly.l1, ly.s2, ly.l2, term), Schema: st, Input: []byte(b.String()), Want: want}
				c.Begin(func() interface{} { return cs })
				sig, detail := c06Check(cs, sc)
				c.EvalN(fmt.Sprintf("%s|%d,%d,%d,%d", format, ly.s1, ly.l1, ly.s2, ly.l2), int64(len(lines)))
				if sig != "" {
					// shrink to the first failing single line for the replay file
					for _, l := range lines {
						one := c06Case{Family: cs.Family, Schema: st, Input: []byte(l + term), Want: [][]*string{{sp(slice(l, ly.s1, ly.l1)), sp(slice(l, ly.s2, ly.l2))}}}
						if s1, d1 := c06Check(one, sc); s1 != "" {
							cs, sig, detail = one, s1, d1
							break
						}
					}
					c.Violation(sig, detail, cs, func() string { s, _ := c06Check(cs, nil); return s })
				}
			}
			if c.TimeUp() {
				return
			}
		}
		// multi-line envelopes + buffer boundary sweep with the real constants
		for L := 12; L <= 70; L++ {
			var st string
			_, colOut := c06Cols(3, "k")
			if format == "fixed-length" {
				st = `{` + hdr(format) + `,"file_declaration":{"envelopes":[{"by_rows":3,"columns":[{"name":"k1","start_pos":2,"length":8,"line_pattern":"^1"},{"name":"k2","start_pos":3,"length":6,"line_pattern":"^2"},{"name":"k3","start_pos":2,"length":9,"line_pattern":"^3"}]}]},"transform_declarations":{"FINAL_OUTPUT":{"object":{` + colOut + `}}}}`
			} else {
				st = `{` + hdr(format) + `,"file_declaration":{"envelopes":[{"rows":3,"columns":[{"name":"k1","start_pos":2,"length":8,"line_index":1},{"name":"k2","start_pos":3,"length":6,"line_index":2},{"name":"k3","start_pos":2,"length":9,"line_index":3}]}]},"transform_declarations":{"FINAL_OUTPUT":{"object":{` + colOut + `}}}}`
			}
			var b strings.Builder
			var want [][]*string
			for r := 0; b.Len() < 3*4096+200; r++ {
				var ls [3]string
				for k := 0; k < 3; k++ {
					body := fmt.Sprintf("%d%05d世é", k+1, r)
					for len(body) < L {
						body += string(rune('a' + (r+k+len(body))%26))
					}
					ls[k] = body
					b.WriteString(body + "\n")
				}
				if r%7 == 3 {
					b.WriteString("\n")
				}
				want = append(want, []*string{sp(slice(ls[0], 2, 8)), sp(slice(ls[1], 3, 6)), sp(slice(ls[2], 2, 9))})
			}
			emit(c06Case{Family: fmt.Sprintf("%s|3-line envelopes, line length %d, input spans 3 buffers", format, L), Schema: st, Input: []byte(b.String()), Want: want}, nil, format+"-rows3-sweep")
		}
		// multi-row envelopes x which rows the declared columns live on x empty lines at every position:
		// two envelopes of R rows, every non-empty subset of the column kinds (old reader: no
		// line_pattern = first row, or ^k; fixedlength2: line_index k or line_pattern ^k), and before
		// every row and after the last one nothing / an empty LF line / an empty CR LF line. Empty lines
		// are ignored wherever they are, also after the row that resolved the envelope's last column.
		for R := 2; R <= 3; R++ {
			type colKind struct{ decl, row string } // row: "1".."3"
			var kinds []colKind
			if format == "fixed-length" {
				kinds = append(kinds, colKind{``, "1"})
				for k := 1; k <= R; k++ {
					kinds = append(kinds, colKind{fmt.Sprintf(`,"line_pattern":"^%d"`, k), strconv.Itoa(k)})
				}
			} else {
				for k := 1; k <= R; k++ {
					kinds = append(kinds, colKind{fmt.Sprintf(`,"line_index":%d`, k), strconv.Itoa(k)})
				}
				kinds = append(kinds, colKind{`,"line_pattern":"^1"`, "1"}, colKind{fmt.Sprintf(`,"line_pattern":"^%d"`, R), strconv.Itoa(R)})
			}
			gapAlphabet := []string{"", "\n", "\r\n"}
			if c.Quick() && R == 3 {
				gapAlphabet = []string{"", "\n"}
			}
			for mask := 1; mask < 1<<len(kinds); mask++ {
				var cols, outs []string
				var rowsOf []string
				for k, kd := range kinds {
					if mask&(1<<k) == 0 {
						continue
					}
					n := len(cols) + 1
					cols = append(cols, fmt.Sprintf(`{"name":"k%d","start_pos":2,"length":3%s}`, n, kd.decl))
					outs = append(outs, fmt.Sprintf(`"c%d":{"xpath":"k%d","no_trim":true,"keep_empty_or_null":true}`, n, n))
					rowsOf = append(rowsOf, kd.row)
				}
				env := fmt.Sprintf(`{"by_rows":%d,"columns":[%s]}`, R, strings.Join(cols, ","))
				if format == "fixedlength2" {
					env = fmt.Sprintf(`{"rows":%d,"columns":[%s]}`, R, strings.Join(cols, ","))
				}
				st := `{` + hdr(format) + `,"file_declaration":{"envelopes":[` + env + `]},"transform_declarations":{"FINAL_OUTPUT":{"object":{` + strings.Join(outs, ",") + `}}}}`
				idx++
				if !c.Mine(idx) {
					continue
				}
				sc, err, _ := hx.NewSchema("s", st)
				if err != nil {
					c.HarnessError("multi-row schema rejected: " + err.Error() + "\n" + st)
					continue
				}
				var want [][]*string
				for e := 0; e < 2; e++ {
					var rec []*string
					for _, row := range rowsOf {
						rec = append(rec, sp(strings.Repeat(string(rune('A'+e*3+int(row[0]-'1'))), 3)))
					}
					want = append(want, rec)
				}
				gen.Sequences(len(gapAlphabet), 2*R+1, func(seq []int) bool {
					if len(seq) != 2*R+1 {
						return true
					}
					var b strings.Builder
					for e := 0; e < 2; e++ {
						for k := 0; k < R; k++ {
							b.WriteString(gapAlphabet[seq[e*R+k]])
							b.WriteString(strconv.Itoa(k+1) + strings.Repeat(string(rune('A'+e*3+k)), 3) + "\n")
						}
					}
					b.WriteString(gapAlphabet[seq[2*R]])
					cs := c06Case{Family: fmt.Sprintf("%s|%d-row envelopes, columns on rows %v, empty lines at every position", format, R, rowsOf), Schema: st, Input: []byte(b.String()), Want: want}
					c.Begin(func() interface{} { return cs })
					sig, detail := c06Check(cs, sc)
					c.Eval(format + "-multirow-empty-lines")
					c.Count("multirow_empty_line_runs", 1)
					switch {
					case strings.HasPrefix(sig, "harness:"):
						c.HarnessError(sig + ": " + detail)
					case sig != "":
						c.Violation(sig+":multi-row-envelope-with-empty-lines", detail, cs, func() string { s, _ := c06Check(cs, nil); return s + ":multi-row-envelope-with-empty-lines" })
					}
					return true
				})
				if c.TimeUp() {
					return
				}
			}
		}
		// many columns (70, 130): every column takes its value once, from the first line that matches it
		for _, ncols := range []int{70, 130} {
			var cols, outs []string
			var want []*string
			row1 := strings.Repeat("abcdefghij", 14)[:ncols+1]
			row2 := strings.Repeat("ZYXWVUTSRQ", 14)[:ncols+1]
			for i := 1; i <= ncols; i++ {
				sel := ""
				if format == "fixedlength2" {
					sel = `,"line_index":1`
					if i%7 == 0 {
						sel = `,"line_pattern":"^."` // matches both lines: the first one counts
					}
				} else if i%7 == 0 {
					sel = `,"line_pattern":"^."`
				}
				cols = append(cols, fmt.Sprintf(`{"name":"k%d","start_pos":%d,"length":1%s}`, i, i, sel))
				outs = append(outs, fmt.Sprintf(`"c%d":{"xpath":"k%d","no_trim":true,"keep_empty_or_null":true}`, i, i))
				want = append(want, sp(string(row1[i-1])))
			}
			env := fmt.Sprintf(`{"by_rows":2,"columns":[%s]}`, strings.Join(cols, ","))
			if format == "fixedlength2" {
				env = fmt.Sprintf(`{"rows":2,"columns":[%s]}`, strings.Join(cols, ","))
			}
			st := `{` + hdr(format) + `,"file_declaration":{"envelopes":[` + env + `]},"transform_declarations":{"FINAL_OUTPUT":{"object":{` + strings.Join(outs, ",") + `}}}}`
			emit(c06Case{Family: fmt.Sprintf("%s|%d columns on a 2-row envelope", format, ncols), Schema: st, Input: []byte(row1 + "\n" + row2 + "\n" + row1 + "\n" + row2 + "\n"), Want: [][]*string{want, want}}, nil, format+"-many-columns")
		}
		// rows longer than the reader's buffer, told apart by what they END with (a pattern anchored at the end
		// of the line, a marker far inside it): the rows of an envelope in both orders, widths around 4096 / 8192
		for _, width := range []int{40, 4000, 4094, 4097, 4200, 8190, 9000} {
			for _, order := range []string{"AB", "BA"} {
				for _, kind := range []string{"anchored-at-the-end", "marker-in-the-tail"} {
					patA, patB := "#A$", "#B$"
					rowA := "a" + strings.Repeat("x", width-3) + "#A"
					rowB := "b" + strings.Repeat("y", width-3) + "#B"
					if kind == "marker-in-the-tail" {
						patA, patB = "x#A#", "y#B#"
						rowA = "a" + strings.Repeat("x", width-6) + "#A#zz"
						rowB = "b" + strings.Repeat("y", width-6) + "#B#zz"
					}
					selA, selB := `,"line_pattern":"`+patA+`"`, `,"line_pattern":"`+patB+`"`
					cols := `{"name":"ka","start_pos":1,"length":3` + selA + `},{"name":"kb","start_pos":1,"length":3` + selB + `},{"name":"ta","start_pos":` + strconv.Itoa(width-3) + `,"length":4` + selA + `}`
					env := `{"by_rows":2,"columns":[` + cols + `]}`
					if format == "fixedlength2" {
						env = `{"rows":2,"columns":[` + cols + `]}`
					}
					st := `{` + hdr(format) + `,"file_declaration":{"envelopes":[` + env + `]},"transform_declarations":{"FINAL_OUTPUT":{"object":{` +
						`"c1":{"xpath":"ka","no_trim":true,"keep_empty_or_null":true},"c2":{"xpath":"kb","no_trim":true,"keep_empty_or_null":true},"c3":{"xpath":"ta","no_trim":true,"keep_empty_or_null":true}}}}}`
					r1, r2 := rowA, rowB
					if order == "BA" {
						r1, r2 = rowB, rowA
					}
					tail := []rune(rowA)
					want := []*string{sp(rowA[:3]), sp(rowB[:3]), sp(string(tail[width-4:]))}
					emit(c06Case{Family: fmt.Sprintf("%s|rows of %d bytes told apart by their ends (%s)", format, width, kind), Schema: st,
						Input: []byte(r1 + "\n" + r2 + "\n" + r2 + "\n" + r1 + "\n"), Want: [][]*string{want, want}}, nil, format+"-long-rows-"+kind)
				}
			}
		}
		// two columns on DIFFERENT rows of a multi-row envelope whose rows have multi-byte runes at different
		// places: every ordered pair of rows x start 1/3/5 x length 2/4 for both columns (a position counted in
		// one row means nothing in another)
		{
			rowsText := []string{"1é世ab cdéf", "2ab世é世xyzw", "3世世世zzzzé"}
			for ri := 0; ri < 3; ri++ {
				for rj := 0; rj < 3; rj++ {
					if ri == rj {
						continue
					}
					for _, s1 := range []int{1, 3, 5} {
						for _, l1 := range []int{2, 4} {
							for _, s2 := range []int{1, 3, 5} {
								for _, l2 := range []int{2, 4} {
									sel := func(r int) string {
										if format == "fixed-length" {
											return fmt.Sprintf(`,"line_pattern":"^%d"`, r+1)
										}
										return fmt.Sprintf(`,"line_index":%d`, r+1)
									}
									cols := fmt.Sprintf(`{"name":"k1","start_pos":%d,"length":%d%s},{"name":"k2","start_pos":%d,"length":%d%s}`, s1, l1, sel(ri), s2, l2, sel(rj))
									env := `{"by_rows":3,"columns":[` + cols + `]}`
									if format == "fixedlength2" {
										env = `{"rows":3,"columns":[` + cols + `]}`
									}
									_, colOut := c06Cols(2, "k")
									st := `{` + hdr(format) + `,"file_declaration":{"envelopes":[` + env + `]},"transform_declarations":{"FINAL_OUTPUT":{"object":{` + colOut + `}}}}`
									in := strings.Join(rowsText, "\n") + "\n" + strings.Join(rowsText, "\r\n") + "\r\n"
									rec := []*string{sp(slice(rowsText[ri], s1, l1)), sp(slice(rowsText[rj], s2, l2))}
									emit(c06Case{Family: fmt.Sprintf("%s|columns on rows %d and %d of a 3-row envelope with multi-byte runes", format, ri+1, rj+1), Schema: st, Input: []byte(in), Want: [][]*string{rec, rec}}, nil, format+"-multirow-multibyte")
								}
							}
						}
					}
				}
			}
		}
		for _, base := range []int{4090, 8190} {
			for n := base; n <= base+10; n++ {
				for _, pad := range []string{"x", "é", "世"} {
					_, colOut := c06Cols(2, "k")
					cols := fmt.Sprintf(`{"name":"k1","start_pos":%d,"length":6},{"name":"k2","start_pos":1,"length":3}`, n-4)
					env := `{"columns":[` + cols + `]}`
					if format == "fixedlength2" {
						env = `{"name":"R","columns":[` + cols + `]}`
					}
					st := `{` + hdr(format) + `,"file_declaration":{"envelopes":[` + env + `]},"transform_declarations":{"FINAL_OUTPUT":{"object":{` + colOut + `}}}}`
					mk := func(tag string) string {
						var lb strings.Builder
						lb.WriteString(tag)
						for lb.Len() < n-3 {
							lb.WriteString("m")
						}
						lb.WriteString(pad + "世" + pad + "z")
						return lb.String()
					}
					l1, l2 := mk("AB1"), mk("CD2")
					in := l1 + "\n" + l2 + "\r\nshort\n"
					want := [][]*string{{sp(slice(l1, n-4, 6)), sp("AB1")}, {sp(slice(l2, n-4, 6)), sp("CD2")}, {sp(""), sp("sho")}}
					emit(c06Case{Family: fmt.Sprintf("%s|single long lines around %d bytes", format, n), Schema: st, Input: []byte(in), Want: want}, nil, format+"-longline")
					// the long line as the LAST line of the input, without a line break after it
					emit(c06Case{Family: fmt.Sprintf("%s|last line of about %d bytes without a line break", format, n), Schema: st, Input: []byte("short\n" + l2),
						Want: [][]*string{{sp(""), sp("sho")}, {sp(slice(l2, n-4, 6)), sp("CD2")}}}, nil, format+"-longline-unterminated")
					emit(c06Case{Family: fmt.Sprintf("%s|only line of about %d bytes without a line break", format, n), Schema: st, Input: []byte(l1),
						Want: [][]*string{{sp(slice(l1, n-4, 6)), sp("AB1")}}}, nil, format+"-longline-unterminated")
				}
			}
		}
	}
}
