package props

import (
	"encoding/json"
	"fmt"
	"io"
	"strings"
	"unicode/utf8"

	"github.com/jf-tech/omniparser/extensions/omniv21/fileformat/edi"
	"github.com/jf-tech/omniparser/idr"

	"verif/mc/core"
	"verif/mc/gen"
	"verif/mc/hx"
)

// C07 — EDI segments are tokenised exactly at unescaped delimiters: configuration x payload
// enumeration, round trip through a reference delimiter/escape codec.

type ediCfg struct {
	Seg, Elem, Comp, Rep, Rel string
	IgnoreCRLF                bool
	BufSize                   int
}

func (c ediCfg) String() string {
	return fmt.Sprintf("seg=%q elem=%q comp=%q rep=%q release=%q ignore_crlf=%v buf=%d", c.Seg, c.Elem, c.Comp, c.Rep, c.Rel, c.IgnoreCRLF, c.BufSize)
}

func (c ediCfg) decl(segs []*edi.SegDecl) *edi.FileDecl {
	fd := &edi.FileDecl{SegDelim: c.Seg, ElemDelim: c.Elem, IgnoreCRLF: c.IgnoreCRLF, SegDecls: segs}
	if c.Comp != "" {
		fd.CompDelim = &c.Comp
	}
	if c.Rep != "" {
		fd.RepDelim = &c.Rep
	}
	if c.Rel != "" {
		fd.ReleaseChar = &c.Rel
	}
	return fd
}

// special returns the runes that must be escaped inside a value.
func (c ediCfg) special() map[rune]bool {
	m := map[rune]bool{}
	for _, d := range []string{c.Seg, c.Elem, c.Comp, c.Rep, c.Rel} {
		for _, r := range d {
			m[r] = true
		}
	}
	return m
}

// escape is the reference escaper: the release character makes the NEXT RUNE literal.
func (c ediCfg) escape(v string) string {
	if c.Rel == "" {
		return v
	}
	sp := c.special()
	var b strings.Builder
	for _, r := range v {
		if sp[r] {
			b.WriteString(c.Rel)
		}
		b.WriteRune(r)
	}
	return b.String()
}

// ediSegment is a logical segment: elements -> repetitions -> components (element 0 is the name).
type ediSegment [][][]string

func (c ediCfg) encode(s ediSegment, term string) string {
	var els []string
	for _, reps := range s {
		var rs []string
		for _, comps := range reps {
			var cs []string
			for _, v := range comps {
				cs = append(cs, c.escape(v))
			}
			rs = append(rs, strings.Join(cs, c.Comp))
		}
		els = append(els, strings.Join(rs, c.Rep))
	}
	return strings.Join(els, c.Elem) + term
}

type c07Decl struct {
	Name    string  `json:"name"`
	Index   int     `json:"index"`
	Comp    int     `json:"component_index"`
	Default *string `json:"default,omitempty"`
	EmptyIf bool    `json:"empty_if_missing,omitempty"`
}

type c07Case struct {
	Cfg    ediCfg     `json:"config"`
	Input  []byte     `json:"input_bytes"`
	Decls  []c07Decl  `json:"element_declarations"`
	Want   [][]string `json:"expected"` // per segment: "name=value" in node order; nil = fatal expected
	Fatal  bool       `json:"expect_fatal"`
	Family string     `json:"family"`
}

func c07Observe(cs c07Case) (segs [][]string, end string, panicSite string) {
	old := edi.ReaderBufSize
	edi.ReaderBufSize = cs.Cfg.BufSize
	defer func() { edi.ReaderBufSize = old }()
	var elems []edi.Elem
	for _, d := range cs.Decls {
		e := edi.Elem{Name: d.Name, Index: d.Index, Default: d.Default, EmptyIfMissing: d.EmptyIf}
		if d.Comp > 0 {
			ci := d.Comp
			e.CompIndex = &ci
		}
		elems = append(elems, e)
	}
	min, max := 0, -1
	fd := cs.Cfg.decl([]*edi.SegDecl{{Name: "S", IsTarget: true, Min: &min, Max: &max, Elems: elems}})
	pv, site := core.Safe(func() {
		r, err := edi.NewReader("in", strings.NewReader(string(cs.Input)), fd, "")
		if err != nil {
			end = "newreader: " + err.Error()
			return
		}
		for i := 0; i < 64; i++ {
			n, err := r.Read()
			if err == io.EOF {
				end = "eof"
				return
			}
			if err != nil {
				end = "fatal: " + err.Error()
				return
			}
			var row []string
			for c := n.FirstChild; c != nil; c = c.NextSibling {
				if c.Type == idr.ElementNode {
					row = append(row, c.Data+"="+c.InnerText())
				}
			}
			segs = append(segs, row)
			r.Release(n)
		}
		end = "no-terminal-result"
	})
	if pv != nil {
		return segs, "panic", site
	}
	return segs, end, ""
}

func c07Check(cs c07Case) (sig, detail string) {
	got, end, ps := c07Observe(cs)
	desc := func() string {
		return fmt.Sprintf("%s [%s]\ninput %q\ndecls %+v\n-- delivered: %q => %s\n-- expected:  %q (fatal=%v)", cs.Family, cs.Cfg, cs.Input, cs.Decls, got, end, cs.Want, cs.Fatal)
	}
	if ps != "" {
		return "panic:" + ps, desc()
	}
	if cs.Fatal {
		if strings.HasPrefix(end, "fatal") {
			return "", ""
		}
		if strings.HasPrefix(cs.Family, "undeclared-segment") {
			return "undeclared-segment-not-fatal", desc()
		}
		return "missing-element-without-default-not-fatal", desc()
	}
	ok := end == "eof" && len(got) == len(cs.Want)
	if ok {
		for i := range got {
			g, w := strings.Join(got[i], "\x00"), strings.Join(cs.Want[i], "\x00")
			if strings.HasPrefix(cs.Family, "invalid-utf8") {
				// whether an invalid byte is kept as it is or becomes U+FFFD on its way into the tree is not
				// the property's business (the JSON output has U+FFFD either way): compare modulo that
				g, w = c01ReplaceInvalid(g), c01ReplaceInvalid(w)
			}
			if g != w {
				ok = false
			}
		}
	}
	if ok {
		return "", ""
	}
	kind := "value-differs"
	switch {
	case end != "eof":
		kind = "unexpected-end:" + strings.SplitN(end, ":", 2)[0]
	case len(got) != len(cs.Want):
		kind = "segment-count"
	}
	fam := strings.SplitN(cs.Family, "|", 2)[0]
	multi := ""
	if len(cs.Cfg.Seg) > 1 || len(cs.Cfg.Elem) > 1 || (cs.Cfg.Rel != "" && utf8.RuneCountInString(cs.Cfg.Rel) == 1 && len(cs.Cfg.Rel) > 1) {
		multi = ":multi-byte-delims"
	}
	return fam + ":" + kind + multi, desc()
}

func init() {
	core.Register(&core.Prop{
		ID:    "C07",
		Level: "exploration",
		Rule:  "every delimiter configuration (segment in {~, LF, ||, é} x element in {*, <>} x component in {none, :} x repetition in {none, ^} x release in {none, ?, \\, é} x ignore_crlf) x every pair (triple in thorough) of values of up to 2 (3) symbols over {x, é, every rune of every delimiter in use, the release character, empty, CR} placed in every structural arrangement (two elements, two components, two repetitions, value + trailing empty elements), encoded by a reference escaper (release char makes the next rune literal), terminated with/without CR LF, read with scanner buffers 4, 8 and 128 and as padded segments of 120-135 and 250-260 bytes; segments of up to 40 elements / 12 components / 12 repetitions; element declarations with index/component_index, default (also defaults containing delimiter and release characters), empty_if_missing, neither (fatal), and the same (index, component) declared twice; the element values of the node tree must equal the logical values; distinct by (configuration, input, declarations); invalid UTF-8 / U+FFFD values (plain and escaped), wide segments, a released CR right before an LF delimiter; delimiters of two equal runes (**, ::, ^^, ~~, éé); under ignore_crlf runs of line breaks 110 scanner buffers long inside a value / between segments / before the first / after the last",
		Assumptions: []string{
			"the release character is a single rune (the property speaks of a release character); multi-rune release strings are outside the alphabet",
			"with LF as segment delimiter one CR before the LF belongs to the terminator; with ignore_crlf every CR/LF byte is dropped before tokenising - the reference codec applies these two rules to the expected values",
			"the reference escaper/decoder (about 40 lines) is trusted",
		},
		BudgetQuick: 100, BudgetThorough: 1500,
		Run: c07Run,
		Replay: func(raw json.RawMessage) (string, string) {
			var cs c07Case
			if err := json.Unmarshal(raw, &cs); err != nil {
				return "harness:bad-replay", err.Error()
			}
			sig, detail := c07Check(cs)
			if sig == "" {
				detail = "values round-trip"
			}
			return sig, detail
		},
	})
}

func c07Configs(quick bool) []ediCfg {
	var out []ediCfg
	for _, seg := range []string{"~", "\n", "||", "é"} {
		for _, el := range []string{"*", "<>"} {
			for _, comp := range []string{"", ":"} {
				for _, rep := range []string{"", "^"} {
					for _, rel := range []string{"", "?", "\\", "é"} {
						if rel == seg {
							continue
						}
						for _, icr := range []bool{false, true} {
							if icr && seg == "\n" {
								continue // the delimiter itself would be dropped
							}
							out = append(out, ediCfg{Seg: seg, Elem: el, Comp: comp, Rep: rep, Rel: rel, IgnoreCRLF: icr})
						}
					}
				}
			}
		}
	}
	// delimiters of two EQUAL runes (a match can start inside another one): next to a release character
	// and next to values ending in the delimiter's rune the scan must still cut at the right place
	for _, icr := range []bool{false, true} {
		out = append(out,
			ediCfg{Seg: "~", Elem: "**", Comp: ":", Rep: "^", Rel: "?", IgnoreCRLF: icr},
			ediCfg{Seg: "~", Elem: "*", Comp: "::", Rep: "^^", Rel: "?", IgnoreCRLF: icr},
			ediCfg{Seg: "~~", Elem: "*", Comp: ":", Rep: "", Rel: "\\", IgnoreCRLF: icr},
			ediCfg{Seg: "~", Elem: "**", Comp: "", Rep: "", Rel: "", IgnoreCRLF: icr},
			ediCfg{Seg: "éé", Elem: "**", Comp: "::", Rep: "", Rel: "?", IgnoreCRLF: icr})
	}
	return out
}

func c07Run(c *core.Ctx) {
	idx := 0
	owned := false // set while a whole (a, b) pair has been assigned to this worker
	try := func(cs c07Case, key string) bool {
		idx++
		if !owned && !c.Mine(idx) {
			return true
		}
		c.Begin(func() interface{} { return cs })
		sig, detail := c07Check(cs)
		c.Eval(key)
		if sig != "" {
			c.Violation(sig, detail, cs, func() string { s, _ := c07Check(cs); return s })
		} else if c.WantSample() && idx%9973 == 0 {
			c.Sample(map[string]interface{}{"config": cs.Cfg.String(), "input": string(cs.Input), "expected": cs.Want})
		}
		return !c.TimeUpEvery(64)
	}
	maxSym := 2
	if !c.Quick() {
		maxSym = 3
	}
	for ci, cfg := range c07Configs(c.Quick()) {
		// value alphabet for this configuration
		symset := map[string]bool{"x": true, "é": true}
		if cfg.Rel != "" {
			for r := range cfg.special() {
				if r == '\n' || r == '\r' {
					continue
				}
				symset[string(r)] = true
			}
		}
		if cfg.Seg == "\n" && cfg.Rel != "" {
			symset["\n"] = true
		}
		if cfg.Rel == "" { // without a release character a value cannot contain delimiter runes
			for r := range cfg.special() {
				delete(symset, string(r))
			}
			symset["y"] = true
		}
		if !cfg.IgnoreCRLF {
			symset["\r"] = true
		}
		var syms []string
		for s := range symset {
			syms = append(syms, s)
		}
		sortStrings(syms)
		var values []string
		gen.Sequences(len(syms), maxSym, func(seq []int) bool {
			var b strings.Builder
			for _, s := range seq {
				b.WriteString(syms[s])
			}
			values = append(values, b.String())
			return true
		})
		if c.Quick() && len(values) > 60 {
			// keep every 1-symbol value and a stride of the 2-symbol ones that still covers each symbol in both positions
			var v2 []string
			for i, v := range values {
				if utf8.RuneCountInString(v) <= 1 || i%3 == ci%3 {
					v2 = append(v2, v)
				}
			}
			values = v2
		}
		// expected value after the CR/LF rules
		norm := func(v string) string {
			if cfg.IgnoreCRLF {
				v = strings.ReplaceAll(strings.ReplaceAll(v, "\r", ""), "\n", "")
			}
			return v
		}
		arrangements := []string{"two-elements", "trailing-empty", "first-empty"}
		if cfg.Comp != "" {
			arrangements = append(arrangements, "two-components")
		}
		if cfg.Rep != "" {
			arrangements = append(arrangements, "two-repetitions")
		}
		bufs := []int{4, 8, 128}
		pidx := 0
		for _, a := range values {
			for _, b := range values {
				if ra, rb := utf8.RuneCountInString(a), utf8.RuneCountInString(b); !c.Quick() && (ra > 2 && rb > 2) {
					continue // thorough: 3-symbol values are paired with every value of at most two symbols
				}
				// a pair and all its arrangements / terminators go to one worker (cases are built only there)
				pidx++
				if !c.Mine(pidx + ci) {
					continue
				}
				owned = true
				for ai, arr := range arrangements {
					var seg ediSegment
					var decls []c07Decl
					var want []string
					name := [][]string{{"S"}}
					switch arr {
					case "two-elements":
						seg = ediSegment{name, {{a}}, {{b}}}
						decls = []c07Decl{{Name: "e1", Index: 1}, {Name: "e2", Index: 2}}
						want = []string{"e1=" + norm(a), "e2=" + norm(b)}
					case "trailing-empty":
						seg = ediSegment{name, {{a}}, {{""}}, {{b}}, {{""}}, {{""}}}
						decls = []c07Decl{{Name: "e1", Index: 1}, {Name: "e3", Index: 3}, {Name: "e5", Index: 5}, {Name: "e2", Index: 2}}
						want = []string{"e1=" + norm(a), "e3=" + norm(b), "e5=", "e2="}
					case "first-empty":
						seg = ediSegment{name, {{""}}, {{a}}, {{b}}}
						decls = []c07Decl{{Name: "e3", Index: 3}, {Name: "e1", Index: 1}, {Name: "e2", Index: 2}}
						want = []string{"e3=" + norm(b), "e1=", "e2=" + norm(a)}
					case "two-components":
						seg = ediSegment{name, {{a, b}}, {{b, "", a}}}
						decls = []c07Decl{{Name: "c1", Index: 1, Comp: 1}, {Name: "c2", Index: 1, Comp: 2}, {Name: "d3", Index: 2, Comp: 3}, {Name: "d2", Index: 2, Comp: 2}}
						want = []string{"c1=" + norm(a), "c2=" + norm(b), "d3=" + norm(a), "d2="}
					case "two-repetitions":
						seg = ediSegment{name, {{a}, {b}}, {{b}}}
						decls = []c07Decl{{Name: "r", Index: 1}, {Name: "e2", Index: 2}}
						want = []string{"r=" + norm(a), "r=" + norm(b), "e2=" + norm(b)}
					}
					buf := bufs[(idx+ai)%len(bufs)]
					for ti, term := range []string{cfg.Seg, "\r" + cfg.Seg, ""} {
						if term == "\r"+cfg.Seg && cfg.Seg != "\n" && !cfg.IgnoreCRLF {
							continue // a CR before another delimiter is data
						}
						w := append([]string{}, want...)
						w2 := append([]string{}, want...)
						// second segment: same values swapped, so that state carried between segments shows
						seg2 := ediSegment{name, {{b}}, {{a}}}
						decl2want := func() []string { return nil }
						_ = decl2want
						_ = w2
						_ = seg2
						last := len(w) - 1
						if cfg.Seg == "\n" && !cfg.IgnoreCRLF && term == cfg.Seg {
							// LF delimiter: one CR right before the LF is part of the terminator
							enc := cfg.encode(seg, "")
							if strings.HasSuffix(enc, "\r") {
								// the last logical value loses its final CR
								lv := seg[len(seg)-1][len(seg[len(seg)-1])-1]
								tail := lv[len(lv)-1]
								_ = tail
								// find which expectation holds that last value: recompute from a stripped copy
								stripped := stripLastCR(seg)
								w = c07Expect(arr, stripped, norm)
							}
						}
						_ = last
						in := cfg.encode(seg, term)
						if ti == 2 {
							// unterminated last segment preceded by a terminated one
							in = cfg.encode(seg, cfg.Seg) + cfg.encode(seg, "")
							if cfg.Seg == "\n" && !cfg.IgnoreCRLF && strings.HasSuffix(cfg.encode(seg, ""), "\r") {
								// both the terminated and the unterminated copy lose one trailing CR
								w = c07Expect(arr, stripLastCR(seg), norm)
							}
						}
						wantSegs := [][]string{w}
						if ti == 2 {
							wantSegs = [][]string{w, w}
						}
						cfgb := cfg
						cfgb.BufSize = buf
						cs := c07Case{Cfg: cfgb, Input: []byte(in), Decls: decls, Want: wantSegs, Family: arr + "|" + fmt.Sprint(ti)}
						if !try(cs, fmt.Sprintf("%d|%s|%d", ci, arr, ti)) {
							return
						}
					}
				}
				owned = false
			}
		}
		owned = false
		// declarations: missing element with default / empty_if_missing / neither; same element declared twice
		for _, a := range values {
			def := "dflt"
			seg := ediSegment{{{"S"}}, {{a}}}
			in := cfg.encode(seg, cfg.Seg)
			na := norm(a)
			if cfg.Seg == "\n" && !cfg.IgnoreCRLF && strings.HasSuffix(cfg.encode(seg, ""), "\r") {
				na = na[:len(na)-1]
			}
			cfgb := cfg
			cfgb.BufSize = 128
			if !try(c07Case{Cfg: cfgb, Input: []byte(in), Family: "missing-with-default",
				Decls: []c07Decl{{Name: "e1", Index: 1}, {Name: "e2", Index: 2, Default: &def}, {Name: "e3", Index: 1, Comp: 2, EmptyIf: true}},
				Want:  [][]string{{"e1=" + na, "e2=dflt", "e3="}}}, fmt.Sprintf("%d|default", ci)) {
				return
			}
			// LF delimiter: a CR right before it is part of the terminator - unless it is escaped: the release
			// character makes the next rune literal, so "x?\r\n" carries the value "x\r"
			if cfg.Seg == "\n" && !cfg.IgnoreCRLF && cfg.Rel != "" && !strings.ContainsAny(cfg.Rel, "\r\n") {
				plain := cfg.encode(seg, "")
				esc := plain + cfg.Rel + "\r" + cfg.Seg
				if !try(c07Case{Cfg: cfgb, Input: []byte(esc), Family: "escaped-cr-before-lf-delimiter",
					Decls: []c07Decl{{Name: "e1", Index: 1}},
					Want:  [][]string{{"e1=" + norm(a) + "\r"}}}, fmt.Sprintf("%d|escaped-cr", ci)) {
					return
				}
			}
			if !try(c07Case{Cfg: cfgb, Input: []byte(in), Family: "missing-without-default", Fatal: true,
				Decls: []c07Decl{{Name: "e1", Index: 1}, {Name: "e2", Index: 2}}}, fmt.Sprintf("%d|nodefault", ci)) {
				return
			}
			if !try(c07Case{Cfg: cfgb, Input: []byte(in + in), Family: "same-element-declared-twice",
				Decls: []c07Decl{{Name: "a", Index: 1}, {Name: "b", Index: 1, Comp: 1}},
				Want:  [][]string{{"a=" + na, "b=" + na}, {"a=" + na, "b=" + na}}}, fmt.Sprintf("%d|twice", ci)) {
				return
			}
		}
		// wide segments: many elements, many components, many repetitions (more than any initial capacity)
		if !cfg.IgnoreCRLF && cfg.Seg != "\n" {
			for _, n := range []int{1, 2, 4, 5, 8, 9, 31, 32, 33, 40} {
				cfgb := cfg
				cfgb.BufSize = 128
				// n elements, each "e<i>"; declared: the first, the last, one in the middle
				seg := ediSegment{{{"S"}}}
				for i := 1; i <= n; i++ {
					seg = append(seg, [][]string{{fmt.Sprintf("e%d", i)}})
				}
				mid := (n + 1) / 2
				if !try(c07Case{Cfg: cfgb, Input: []byte(cfg.encode(seg, cfg.Seg)), Family: "wide-segment|elements",
					Decls: []c07Decl{{Name: "first", Index: 1}, {Name: "mid", Index: mid}, {Name: "last", Index: n}},
					Want:  [][]string{{"first=e1", fmt.Sprintf("mid=e%d", mid), fmt.Sprintf("last=e%d", n)}}}, fmt.Sprintf("%d|wide-e", ci)) {
					return
				}
				if cfg.Comp != "" && n <= 12 {
					var comps []string
					for i := 1; i <= n; i++ {
						comps = append(comps, fmt.Sprintf("c%d", i))
					}
					segc := ediSegment{{{"S"}}, {comps}, {{"z"}}}
					if !try(c07Case{Cfg: cfgb, Input: []byte(cfg.encode(segc, cfg.Seg)), Family: "wide-segment|components",
						Decls: []c07Decl{{Name: "first", Index: 1, Comp: 1}, {Name: "last", Index: 1, Comp: n}, {Name: "z", Index: 2}},
						Want:  [][]string{{"first=c1", fmt.Sprintf("last=c%d", n), "z=z"}}}, fmt.Sprintf("%d|wide-c", ci)) {
						return
					}
				}
				if cfg.Rep != "" && n <= 12 {
					var reps [][]string
					var want []string
					for i := 1; i <= n; i++ {
						reps = append(reps, []string{fmt.Sprintf("r%d", i)})
						want = append(want, fmt.Sprintf("r=r%d", i))
					}
					segr := ediSegment{{{"S"}}, reps, {{"z"}}}
					if !try(c07Case{Cfg: cfgb, Input: []byte(cfg.encode(segr, cfg.Seg)), Family: "wide-segment|repetitions",
						Decls: []c07Decl{{Name: "r", Index: 1}, {Name: "z", Index: 2}},
						Want:  [][]string{append(want, "z=z")}}, fmt.Sprintf("%d|wide-r", ci)) {
						return
					}
				}
			}
			// a default that itself contains delimiter / release characters is handed over as written
			for _, d := range []string{"d" + cfg.Rel + "x", cfg.Rel, "a" + cfg.Rel + cfg.Rel + "c", "x" + cfg.Elem + "y", cfg.Seg, "p" + cfg.Comp + cfg.Rep + "q"} {
				if d == "" {
					continue
				}
				d := d
				cfgb := cfg
				cfgb.BufSize = 128
				in := cfg.encode(ediSegment{{{"S"}}, {{"v"}}}, cfg.Seg)
				if !try(c07Case{Cfg: cfgb, Input: []byte(in), Family: "missing-with-default|special-characters-in-the-default",
					Decls: []c07Decl{{Name: "e1", Index: 1}, {Name: "e2", Index: 2, Default: &d}, {Name: "e3", Index: 3, Comp: 2, Default: &d}},
					Want:  [][]string{{"e1=v", "e2=" + d, "e3=" + d}}}, fmt.Sprintf("%d|default-special", ci)) {
					return
				}
			}
		}
		// bytes that are not valid UTF-8, and U+FFFD itself, in values and at the very start of a segment
		// (a segment that starts with them is not declared: the reader must say so, not skip it)
		for _, odd := range []string{"\xff", "\uFFFD", "\xc3", "\xe4\xb8", "\x80x"} {
			if cfg.IgnoreCRLF || cfg.Seg == "\n" {
				continue
			}
			cfgb := cfg
			cfgb.BufSize = 128
			v1, v2 := odd+"a", "b"+odd
			in := cfg.encode(ediSegment{{{"S"}}, {{v1}}, {{v2}}}, cfg.Seg) + cfg.encode(ediSegment{{{"S"}}, {{v2}}, {{v1 + odd}}}, cfg.Seg)
			if !try(c07Case{Cfg: cfgb, Input: []byte(in), Family: "invalid-utf8-in-values",
				Decls: []c07Decl{{Name: "e1", Index: 1}, {Name: "e2", Index: 2}},
				Want:  [][]string{{"e1=" + v1, "e2=" + v2}, {"e1=" + v2, "e2=" + v1 + odd}}}, fmt.Sprintf("%d|oddvalue", ci)) {
				return
			}
			// the same bytes right after a release character: an escaped rune is that rune, whatever it is
			if cfg.Rel != "" {
				e1, e2 := "x"+cfg.Rel+odd+"y", cfg.Rel+odd
				raw := "S" + cfg.Elem + e1 + cfg.Elem + e2 + cfg.Elem + "z" + cfg.Seg
				if !try(c07Case{Cfg: cfgb, Input: []byte(raw), Family: "invalid-utf8-in-values|escaped",
					Decls: []c07Decl{{Name: "e1", Index: 1}, {Name: "e2", Index: 2}, {Name: "e3", Index: 3}},
					Want:  [][]string{{"e1=x" + odd + "y", "e2=" + odd, "e3=z"}}}, fmt.Sprintf("%d|oddescaped", ci)) {
					return
				}
			}
			for _, lead := range []string{"", "\n", "\r\n\n"} {
				in2 := cfg.encode(ediSegment{{{"S"}}, {{"a"}}, {{"b"}}}, cfg.Seg) + lead + odd + cfg.encode(ediSegment{{{"S"}}, {{"c"}}, {{"d"}}}, cfg.Seg) + cfg.encode(ediSegment{{{"S"}}, {{"e"}}, {{"f"}}}, cfg.Seg)
				if !try(c07Case{Cfg: cfgb, Input: []byte(in2), Family: "undeclared-segment-starting-with-invalid-utf8", Fatal: true,
					Decls: []c07Decl{{Name: "e1", Index: 1}, {Name: "e2", Index: 2}}}, fmt.Sprintf("%d|oddsegment", ci)) {
					return
				}
			}
		}
		// padded segments around the 128-byte scanner buffer and its first doubling
		for _, n := range []int{120, 123, 126, 127, 128, 129, 130, 133, 135, 250, 254, 255, 256, 257, 258, 260} {
			for _, tail := range []string{"x", "é", cfg.Seg, cfg.Elem, cfg.Rel} {
				if tail == "" || (cfg.Rel == "" && (tail == cfg.Seg || tail == cfg.Elem)) || (tail == "\n" && cfg.IgnoreCRLF) {
					continue
				}
				pad := strings.Repeat("p", n)
				v1 := pad[:n-len("S")-len(cfg.Elem)-4] + tail + tail
				seg := ediSegment{{{"S"}}, {{v1}}, {{"z" + tail}}}
				in := cfg.encode(seg, cfg.Seg) + cfg.encode(ediSegment{{{"S"}}, {{"q"}}, {{tail}}}, cfg.Seg)
				cfgb := cfg
				cfgb.BufSize = 128
				if !try(c07Case{Cfg: cfgb, Input: []byte(in), Family: "padded-segment",
					Decls: []c07Decl{{Name: "e1", Index: 1}, {Name: "e2", Index: 2}},
					Want:  [][]string{{"e1=" + norm(v1), "e2=" + norm("z"+tail)}, {"e1=q", "e2=" + norm(tail)}}}, fmt.Sprintf("%d|padded", ci)) {
					return
				}
			}
		}
	}
	// ignore_crlf: line breaks vanish wherever they are and however many there are - a run long enough to
	// fill the scanner's buffer more than 100 times over, inside a value, between segments, after the last one
	for ci, cfg := range c07Configs(c.Quick()) {
		if !cfg.IgnoreCRLF {
			continue
		}
		for _, bs := range []int{4, 128} {
			for _, brk := range []string{"\r\n", "\n", "\r"} {
				run := strings.Repeat(brk, 110*bs/len(brk)+1)
				s1 := cfg.encode(ediSegment{{{"S"}}, {{"ab"}}, {{"c"}}}, cfg.Seg)
				s2 := cfg.encode(ediSegment{{{"S"}}, {{"q"}}, {{"r"}}}, cfg.Seg)
				inside := strings.Replace(s1, "ab", "a"+run+"b", 1)
				cfgb := cfg
				cfgb.BufSize = bs
				for k, in := range []string{inside + s2, s1 + run + s2, s1 + s2 + run, run + s1 + s2} {
					owned = false
					if !try(c07Case{Cfg: cfgb, Input: []byte(in), Family: "long-run-of-line-breaks|" + []string{"inside-a-value", "between-segments", "after-the-last-segment", "before-the-first-segment"}[k],
						Decls: []c07Decl{{Name: "e1", Index: 1}, {Name: "e2", Index: 2}},
						Want:  [][]string{{"e1=ab", "e2=c"}, {"e1=q", "e2=r"}}}, fmt.Sprintf("%d|long-breaks", ci)) {
						return
					}
				}
			}
		}
	}
	// one full Transform per configuration class (schema path: JSON schema validation, ingester)
	for _, it := range []struct{ schema, in, want string }{
		{`{"parser_settings":{"version":"omni.2.1","file_format_type":"edi"},"file_declaration":{"segment_delimiter":"||","element_delimiter":"<>","component_delimiter":":","release_character":"?","segment_declarations":[{"name":"S","is_target":true,"min":0,"max":-1,"elements":[{"name":"e1","index":1},{"name":"c2","index":2,"component_index":2}]}]},"transform_declarations":{"FINAL_OUTPUT":{"object":{"e1":{"xpath":"e1","no_trim":true},"c2":{"xpath":"c2","no_trim":true}}}}}`,
			"S<>a?|?|b?<?>?:??<>x: y ||", `{"c2":" y ","e1":"a||b\u003c\u003e:?"}`},
	} {
		schema, err, _ := hx.NewSchema("s", it.schema)
		if err != nil {
			c.HarnessError("edi transform schema rejected: " + err.Error())
			continue
		}
		r := hx.Run(schema, strings.NewReader(it.in), hx.Opts{NoChecksum: true})
		if c.Shard == 0 && (len(r.Steps) < 1 || r.Steps[0].Out != it.want) {
			c.Violation("transform-path:value-differs", fmt.Sprintf("input %q: got %v want %s", it.in, r.Steps, it.want), c07Case{Family: "transform", Input: []byte(it.in)}, nil)
		}
	}
}

func stripLastCR(seg ediSegment) ediSegment {
	out := make(ediSegment, len(seg))
	for i := range seg {
		out[i] = make([][]string, len(seg[i]))
		for j := range seg[i] {
			out[i][j] = append([]string{}, seg[i][j]...)
		}
	}
	e := out[len(out)-1]
	r := e[len(e)-1]
	v := r[len(r)-1]
	if strings.HasSuffix(v, "\r") {
		r[len(r)-1] = v[:len(v)-1]
	}
	return out
}

// c07Expect recomputes the expectation of an arrangement from a (possibly CR-stripped) segment.
func c07Expect(arr string, seg ediSegment, norm func(string) string) []string {
	g := func(e, r, c int) string {
		if e < len(seg) && r < len(seg[e]) && c < len(seg[e][r]) {
			return norm(seg[e][r][c])
		}
		return ""
	}
	switch arr {
	case "two-elements":
		return []string{"e1=" + g(1, 0, 0), "e2=" + g(2, 0, 0)}
	case "trailing-empty":
		return []string{"e1=" + g(1, 0, 0), "e3=" + g(3, 0, 0), "e5=", "e2="}
	case "first-empty":
		return []string{"e3=" + g(3, 0, 0), "e1=", "e2=" + g(2, 0, 0)}
	case "two-components":
		return []string{"c1=" + g(1, 0, 0), "c2=" + g(1, 0, 1), "d3=" + g(2, 0, 2), "d2="}
	case "two-repetitions":
		return []string{"r=" + g(1, 0, 0), "r=" + g(1, 1, 0), "e2=" + g(2, 0, 0)}
	}
	return nil
}

func sortStrings(s []string) {
	for i := 1; i < len(s); i++ {
		for j := i; j > 0 && s[j] < s[j-1]; j-- {
			s[j], s[j-1] = s[j-1], s[j]
		}
	}
}
