package props

import (
	"encoding/json"
	"fmt"
	"strings"

	"verif/mc/core"
	"verif/mc/corpus"
	"verif/mc/hx"
)

// C16 — input reader failures end the transform with a fatal error (fault-point enumeration).

type c16Case struct {
	Item    string `json:"item"`
	Schema  string `json:"schema"`
	Input   string `json:"input"`
	At      int    `json:"fault_at"`
	Kind    int    `json:"fault_kind"`
	OneByte bool   `json:"one_byte_delivery"`
}

func c16Items(quick bool) []corpus.Item {
	items := corpus.Minimal()
	if !quick {
		for _, s := range corpus.Samples() {
			if len(s.Inputs[0]) <= 6000 {
				items = append(items, s)
			}
		}
	}
	return items
}

// c16Check runs one fault case; sig == "" means the property held.
func c16Check(cs c16Case, baseline []hx.Step) (sig, detail, outcome string) {
	schema, err, _ := hx.NewSchema("s", cs.Schema)
	if err != nil {
		return "harness:schema-rejected", err.Error(), ""
	}
	if baseline == nil {
		r := hx.Run(schema, strings.NewReader(cs.Input), hx.Opts{})
		baseline = r.Steps
		if r.PanicSite != "" || r.Capped {
			return "", "baseline does not terminate cleanly; left to C03", "baseline-bad"
		}
	}
	R := len(baseline)
	fr := &hx.FaultReader{Data: []byte(cs.Input), At: cs.At, Kind: cs.Kind, OneByte: cs.OneByte}
	res := hx.Run(schema, fr, hx.Opts{MaxReads: R + 3 + 3, AfterTerminal: 2})
	fmtName := strings.SplitN(cs.Item, "/", 2)[0]
	if strings.HasPrefix(cs.Item, "sample/") {
		fmtName = cs.Item
	} else {
		fmtName = cs.Item
	}
	describe := func() string {
		return fmt.Sprintf("fault at byte %d/%d kind %d oneByte=%v\n-- fault-free:\n%s-- with fault:\n%s", cs.At, len(cs.Input), cs.Kind, cs.OneByte,
			hx.Transcript(baseline), hx.Transcript(res.Steps))
	}
	if res.PanicSite != "" {
		return "panic:" + fmtName + ":" + res.PanicSite, describe(), ""
	}
	if res.NewTransformErr != "" {
		return "", "", "newtransform-error"
	}
	if !fr.Delivered {
		return "", "", "fault-not-reached"
	}
	f := -1
	for i, s := range res.Steps {
		if s.Terminal() {
			f = i
			break
		}
	}
	if cs.Kind == 3 || cs.Kind == hx.FaultKindTransientWithData {
		// transient fault (the reader fails once, then goes on with the data, then fails for good): the
		// failure must not be swallowed - a fatal error, and before it nothing but fault-free results
		if f < 0 {
			return "transient:no-terminal-result:" + fmtName, describe(), ""
		}
		if res.Steps[f].Kind != "fatal" {
			return "transient:clean-eof-after-fault:" + fmtName, describe(), ""
		}
		for i := 0; i < f-1; i++ {
			if i >= len(baseline) || res.Steps[i] != baseline[i] {
				return "transient:earlier-result-differs:" + fmtName, describe(), ""
			}
		}
		return "", "", "transient-" + res.Steps[f].Kind
	}
	if f < 0 || f > R+2 {
		return "no-fatal-within-bound:" + fmtName, describe(), ""
	}
	if res.Steps[f].Kind != "fatal" {
		return "clean-eof-after-fault:" + fmtName, describe(), ""
	}
	for i := f + 1; i < len(res.Steps); i++ {
		if res.Steps[i] != res.Steps[f] {
			return "fatal-not-sticky:" + fmtName, describe(), ""
		}
	}
	for i := 0; i < f-1; i++ {
		if i >= len(baseline) || res.Steps[i] != baseline[i] {
			return "earlier-result-differs:" + fmtName, describe(), ""
		}
	}
	return "", "", fmt.Sprintf("fatal@%d/%d", f, R)
}

func init() {
	core.Register(&core.Prop{
		ID:    "C16",
		Level: "fault_enumeration",
		Rule: "every (schema, input) of the per-format corpus x every fault offset 0..len (including 'instead of EOF') x fault kind " +
			"{persistent, E1-then-E2, error returned together with the last good bytes, fails once (alone, or together with the last good bytes) / carries on with the data / fails for good (held to the same standard), and persistent with each of 7 error identities a format reader could take for its own: io.ErrUnexpectedEOF, os.ErrDeadlineExceeded (Timeout() true), *csv.ParseError, *json.SyntaxError, *xml.SyntaxError, io.ErrNoProgress, a message with formatting verbs} x delivery {one chunk, byte-at-a-time}; " +
			"a case is distinct by (schema, input, offset, kind, delivery) and its outcome class is (schema, index of the fatal result relative to the fault-free run)",
		Assumptions: []string{
			"the fault is injected at the io.Reader handed to NewTransform; faults inside the schema reader are out of scope",
			"kind 3 (the reader fails once, carries on, then fails for good) is held to the full standard since round 5: a swallowed failure shifts every later record",
			"a case in which the reader never asks for bytes at the fault offset (fault not delivered) is not a fault case",
		},
		Run: func(c *core.Ctx) {
			idx := 0
			for _, it := range c16Items(c.Quick()) {
				schema, err, _ := hx.NewSchema("s", it.Schema)
				if err != nil {
					c.HarnessError("corpus schema rejected: " + it.Name + ": " + err.Error())
					continue
				}
				for ii, in := range it.Inputs {
					base := hx.Run(schema, strings.NewReader(in), hx.Opts{})
					if base.PanicSite != "" || base.Capped {
						c.Note("baseline of " + it.Name + " does not terminate cleanly (left to C03)")
						continue
					}
					step := 1
					if len(in) > 1500 {
						step = 7
						if c.Quick() {
							step = 61
						}
					}
					for at := 0; at <= len(in); at += step {
						for kind := 0; kind <= hx.FaultKindTransientWithData; kind++ {
							for _, ob := range []bool{false, true} {
								if ob && len(in) > 1500 && c.Quick() {
									continue
								}
								if ob && kind >= 4 && kind != hx.FaultKindTransientWithData {
									continue // (error identities: one delivery mode)
								}
								idx++
								if !c.Mine(idx) {
									continue
								}
								cs := c16Case{Item: it.Name, Schema: it.Schema, Input: in, At: at, Kind: kind, OneByte: ob}
								c.Begin(func() interface{} { return cs })
								sig, detail, outcome := c16Check(cs, base.Steps)
								c.Eval(fmt.Sprintf("%s#%d:%d:%s", it.Name, ii, kind, outcome))
								if strings.HasPrefix(sig, "harness:") {
									c.HarnessError(sig + " " + detail)
								} else if sig != "" {
									c.Violation(sig, detail, cs, func() string { s, _, _ := c16Check(cs, nil); return s })
								} else if outcome != "fault-not-reached" {
									c.Count("fault_cases_with_delivered_fault", 1)
									if c.WantSample() && at > 0 && at < len(in) {
										c.Sample(map[string]interface{}{"item": it.Name, "input": in, "fault_at": at, "kind": kind, "one_byte": ob, "outcome": outcome})
									}
								}
								if c.TimeUp() {
									return
								}
							}
						}
					}
				}
			}
		},
		Replay: func(raw json.RawMessage) (string, string) {
			var cs c16Case
			if err := json.Unmarshal(raw, &cs); err != nil {
				return "harness:bad-replay", err.Error()
			}
			sig, detail, outcome := c16Check(cs, nil)
			if sig == "" {
				detail = "outcome: " + outcome
			}
			return sig, detail
		},
	})
}
