package props

import (
	"encoding/json"
	"errors"
	"fmt"
	"io"
	"reflect"
	"strings"
	"unicode/utf8"

	"github.com/jf-tech/omniparser"
	"github.com/jf-tech/omniparser/customfuncs"
	"github.com/jf-tech/omniparser/errs"
	"github.com/jf-tech/omniparser/idr"
	"github.com/jf-tech/omniparser/schemahandler"
	"github.com/jf-tech/omniparser/transformctx"

	"verif/mc/core"
	"verif/mc/corpus"
	"verif/mc/gen"
	"verif/mc/hx"
)

// C01 — Read/RawRecord result-stream contract: explicit-state exploration of call histories
// (E1: scripted caller-supplied ingester; E2: the seven real readers on token strings).

// ---- E1: scripted ingester ----

type scriptRaw struct{ id string }

func (r *scriptRaw) Raw() interface{} { return r.id }
func (r *scriptRaw) Checksum() string { return "sum-" + r.id }

var (
	errCont   = errors.New("continuable ingester error")
	errFatal1 = errors.New("fatal ingester error one")
	errFatal2 = errors.New("fatal ingester error two")
	// a fatal error whose cause chain holds a per-record failure ("giving up after N failed records: ...")
	errFatalWrap = fmt.Errorf("giving up after 2 failed records, the last one: %w", errs.ErrTransformFailed("record 2 is bad"))
)

// answer symbols: A B = records, C = continuable error, F G = fatal errors, E = EOF,
// X = record bytes together with a fatal error, Y = record bytes together with a continuable error,
// H = a fatal error that WRAPS a per-record failure (still fatal: the ingester says so),
// P = the ingester panics (a caller's custom_func or handler can): the panic may pass through Read - then
// nothing more is asked of that Transform - but if Read does return, what it returns is held to the contract.
const c01Answers = "ABCFGHEXYP"

type scriptIngester struct {
	script string
	pos    int
	calls  int
}

func (s *scriptIngester) Read() (schemahandler.RawRecord, []byte, error) {
	s.calls++
	if s.pos >= len(s.script) {
		return nil, nil, io.EOF
	}
	a := s.script[s.pos]
	s.pos++
	rec := func(id string) (schemahandler.RawRecord, []byte) {
		return &scriptRaw{id: fmt.Sprintf("%s%d", id, s.pos)}, []byte(fmt.Sprintf(`{"rec":"%s%d"}`, id, s.pos))
	}
	switch a {
	case 'A':
		r, b := rec("A")
		return r, b, nil
	case 'B':
		r, b := rec("B")
		return r, b, nil
	case 'C':
		return nil, nil, errCont
	case 'F':
		return nil, nil, errFatal1
	case 'G':
		return nil, nil, errFatal2
	case 'H':
		return nil, nil, errFatalWrap
	case 'X':
		r, b := rec("X")
		return r, b, errFatal1
	case 'Y':
		r, b := rec("Y")
		return r, b, errCont
	case 'P':
		panic("scripted ingester panic")
	}
	return nil, nil, io.EOF
}
func (s *scriptIngester) IsContinuableError(err error) bool { return err == errCont }
func (s *scriptIngester) FmtErr(format string, args ...interface{}) error {
	return fmt.Errorf(format, args...)
}

type scriptHandler struct {
	script string
	last   *scriptIngester
}

func (h *scriptHandler) NewIngester(_ *transformctx.Ctx, _ io.Reader) (schemahandler.Ingester, error) {
	h.last = &scriptIngester{script: h.script}
	return h.last, nil
}

type c01E1Case struct {
	Script  string `json:"ingester_answers"`
	History string `json:"caller_history"` // R = Read, W = RawRecord (+Raw/Checksum)
}

// c01RunE1 drives the real omniparser.Transform over a scripted ingester and checks every step
// against the contract automaton. It returns a violation signature ("" = none), a description and
// the transcript of Read results (used for the RawRecord-transparency comparison).
func c01RunE1(cs c01E1Case) (sig, detail string, reads []string, states []string) {
	h := &scriptHandler{script: cs.Script}
	ext := omniparser.Extension{
		CreateSchemaHandler: func(*schemahandler.CreateCtx) (schemahandler.SchemaHandler, error) { return h, nil },
		CustomFuncs:         customfuncs.CustomFuncs{},
	}
	schema, err := omniparser.NewSchema("s", strings.NewReader(`{"parser_settings":{"version":"scripted","file_format_type":"x"}}`), ext)
	if err != nil {
		return "harness:newschema", err.Error(), nil, nil
	}
	tr, err := schema.NewTransform("in", strings.NewReader("ignored"), &transformctx.Ctx{})
	if err != nil {
		return "harness:newtransform", err.Error(), nil, nil
	}
	// contract automaton
	var terminal error // latched terminal error
	var lastErr error  // error of the most recent Read (nil if it succeeded)
	var lastRec string // id of the record of the most recent successful Read
	readSeen := false
	pos := 0 // model of the ingester position
	bad := func(kind, msg string, i int) (string, string, []string, []string) {
		return "E1:" + kind, fmt.Sprintf("script %q history %q step %d (%c): %s", cs.Script, cs.History, i, cs.History[i], msg), reads, states
	}
	for i := 0; i < len(cs.History); i++ {
		switch cs.History[i] {
		case 'R':
			callsBefore := h.last.calls
			var b []byte
			var err error
			if pv, _ := core.Safe(func() { b, err = tr.Read() }); pv != nil {
				// the panic of the caller's own code came through: the Transform is left alone from here on
				reads = append(reads, "panic passed through")
				return "", "", reads, states
			}
			readSeen = true
			reads = append(reads, hx.Classify(b, err).String())
			if terminal != nil {
				if err != terminal || b != nil {
					return bad("terminal-result-not-repeated", fmt.Sprintf("got (%q, %v), want (nil, %v)", b, err, terminal), i)
				}
				if h.last.calls != callsBefore {
					return bad("ingester-touched-after-terminal-result", "", i)
				}
				lastErr = err
				break
			}
			a := byte('E')
			if pos < len(cs.Script) {
				a = cs.Script[pos]
			}
			pos++
			switch a {
			case 'A', 'B':
				want := fmt.Sprintf(`{"rec":"%c%d"}`, a, pos)
				if err != nil || string(b) != want {
					return bad("record-not-returned", fmt.Sprintf("got (%q, %v) want %s", b, err, want), i)
				}
				if !utf8.Valid(b) || !json.Valid(b) {
					return bad("record-not-valid-json", string(b), i)
				}
				lastErr, lastRec = nil, fmt.Sprintf("%c%d", a, pos)
			case 'C', 'Y':
				if b != nil || !errs.IsErrTransformFailed(err) || err.Error() != errCont.Error() {
					return bad("continuable-error-not-wrapped", fmt.Sprintf("got (%q, %T %v)", b, err, err), i)
				}
				lastErr = err
			case 'P':
				// Read has turned the panic into a result: it is an error without bytes, and if it is not a
				// continuable one it is the terminal result from now on
				if err == nil || b != nil {
					return bad("panic-turned-into-success", fmt.Sprintf("got (%q, %v)", b, err), i)
				}
				if !errs.IsErrTransformFailed(err) {
					terminal = err
				}
				lastErr = err
			case 'F', 'G', 'H', 'X', 'E':
				want := map[byte]error{'F': errFatal1, 'G': errFatal2, 'H': errFatalWrap, 'X': errFatal1, 'E': io.EOF}[a]
				if err != want {
					return bad("terminal-error-altered", fmt.Sprintf("got %v want %v", err, want), i)
				}
				if b != nil {
					return bad("bytes-returned-with-terminal-error", fmt.Sprintf("got %q together with %v", b, err), i)
				}
				terminal, lastErr = err, err
			}
		case 'W':
			rr, err := tr.RawRecord()
			switch {
			case !readSeen:
				if err == nil || rr != nil {
					return bad("rawrecord-before-read-succeeds", "", i)
				}
			case lastErr != nil:
				if err == nil || rr != nil || err.Error() != lastErr.Error() || errs.IsErrTransformFailed(err) != errs.IsErrTransformFailed(lastErr) {
					return bad("rawrecord-after-failed-read", fmt.Sprintf("got (%v, %v) want the Read's error %v", rr, err, lastErr), i)
				}
			default:
				if err != nil || rr == nil {
					return bad("rawrecord-fails-after-successful-read", fmt.Sprint(err), i)
				}
				if rr.Raw() != lastRec || rr.Checksum() != "sum-"+lastRec {
					return bad("rawrecord-describes-another-record", fmt.Sprintf("got %v want %s", rr.Raw(), lastRec), i)
				}
			}
		}
		st := "open"
		if terminal != nil {
			st = "terminal"
		}
		states = append(states, fmt.Sprintf("%s/last=%v/pos=%d", st, lastErr != nil, pos))
	}
	return "", "", reads, states
}

// ---- E2: real readers ----

type c01E2Case struct {
	Item    string `json:"item"`
	Schema  string `json:"schema"`
	Input   string `json:"input"`
	Variant int    `json:"driver_variant"` // 0 canonical loop; 1 no RawRecord; 2 RawRecord twice; 3 RawRecord before first Read
	// InputB replaces Input when the input is not valid UTF-8 (a JSON replay file cannot hold it as a string)
	InputB []byte `json:"input_bytes,omitempty"`
	// Externals are the transform's external properties; WantFirst, if set, is the JSON value the first
	// Read must return
	Externals map[string]string `json:"externals,omitempty"`
	WantFirst *string           `json:"want_first_record,omitempty"`
}

func c01RunE2(schema omniparser.Schema, cs c01E2Case) (sig, detail string, nreads int, outcome string) {
	var tr omniparser.Transform
	var err error
	if pv, site := core.Safe(func() {
		in := cs.Input
		if cs.InputB != nil {
			in = string(cs.InputB)
		}
		tr, err = schema.NewTransform("in", strings.NewReader(in), &transformctx.Ctx{ExternalProperties: cs.Externals})
	}); pv != nil {
		return "", "panic left to C03: " + site, 0, "panic"
	}
	if err != nil {
		return "", "", 0, "newtransform-error"
	}
	bad := func(kind, msg string) (string, string, int, string) {
		return "E2:" + kind + ":" + cs.Item, fmt.Sprintf("schema %s input %q variant %d: %s", cs.Item, cs.Input, cs.Variant, msg), nreads, ""
	}
	var res struct {
		sig, detail string
	}
	pv, site := core.Safe(func() {
		if cs.Variant == 3 {
			if rr, err := tr.RawRecord(); err == nil || rr != nil {
				res.sig, res.detail, _, _ = bad("rawrecord-before-read-succeeds", "")
				return
			}
		}
		var terminal error
		after := 0
		var trace []string
		// every record a Read has returned is the caller's: later Reads must leave its bytes alone
		var kept [][]byte
		var keptCopy []string
		unchanged := func() bool {
			for i, k := range kept {
				if string(k) != keptCopy[i] {
					res.sig, res.detail, _, _ = bad("returned-record-bytes-changed-by-a-later-read", fmt.Sprintf("record %d was %s when Read returned it, the same slice holds %q after %d Reads", i, keptCopy[i], k, nreads+1))
					return false
				}
			}
			return true
		}
		for nreads = 0; nreads < 4*len(cs.Input)+16; nreads++ {
			b, err := tr.Read()
			if err == nil && b != nil {
				kept = append(kept, b)
				keptCopy = append(keptCopy, string(b))
			}
			if !unchanged() {
				return
			}
			st := hx.Classify(b, err)
			trace = append(trace, st.Kind)
			if terminal != nil {
				if b != nil || err == nil || err.Error() != terminal.Error() || (err == io.EOF) != (terminal == io.EOF) {
					res.sig, res.detail, _, _ = bad("terminal-result-not-repeated", fmt.Sprintf("first %v then (%q, %v)", terminal, b, err))
					return
				}
				after++
				if after >= 3 {
					outcome = strings.Join(trace, ",")
					return
				}
				continue
			}
			switch {
			case err == nil:
				if b == nil {
					res.sig, res.detail, _, _ = bad("nil-bytes-with-nil-error", "")
					return
				}
				if !utf8.Valid(b) || !json.Valid(b) {
					res.sig, res.detail, _, _ = bad("record-not-valid-utf8-json", fmt.Sprintf("%q", b))
					return
				}
				if nreads == 0 && cs.WantFirst != nil {
					var got, want interface{}
					json.Unmarshal(b, &got)
					json.Unmarshal([]byte(*cs.WantFirst), &want)
					if !reflect.DeepEqual(got, want) {
						res.sig, res.detail, _, _ = bad("record-value-differs", fmt.Sprintf("got %q want %q", b, *cs.WantFirst))
						return
					}
				}
			case b != nil:
				res.sig, res.detail, _, _ = bad("bytes-returned-with-error", fmt.Sprintf("(%q, %v)", b, err))
				return
			case !errs.IsErrTransformFailed(err):
				terminal = err
			}
			if cs.Variant == 1 {
				continue
			}
			for k := 0; k < 1+cs.Variant/2; k++ {
				rr, rerr := tr.RawRecord()
				if err == nil {
					if rerr != nil || rr == nil {
						res.sig, res.detail, _, _ = bad("rawrecord-fails-after-successful-read", fmt.Sprint(rerr))
						return
					}
					n, ok := rr.Raw().(*idr.Node)
					if !ok {
						res.sig, res.detail, _, _ = bad("rawrecord-raw-not-a-node", fmt.Sprintf("%T", rr.Raw()))
						return
					}
					want, _ := customfuncs.UUIDv3(nil, idr.JSONify2(n))
					if rr.Checksum() != want {
						res.sig, res.detail, _, _ = bad("checksum-not-of-this-record", rr.Checksum()+" vs "+want)
						return
					}
				} else if rerr == nil || rr != nil || rerr.Error() != err.Error() {
					res.sig, res.detail, _, _ = bad("rawrecord-after-failed-read", fmt.Sprintf("Read error %v, RawRecord (%v, %v)", err, rr, rerr))
					return
				}
			}
		}
		res.sig, res.detail, _, _ = bad("no-terminal-result", fmt.Sprintf("%d Reads: %s", nreads, strings.Join(trace, ",")))
	})
	if pv != nil {
		return "", "panic left to C03: " + site, nreads, "panic"
	}
	return res.sig, res.detail, nreads, outcome
}

func init() {
	core.Register(&core.Prop{
		ID:    "C01",
		Level: "model_checking",
		Rule:  "E1: the real omniparser.Transform over a scripted caller-supplied ingester: every ingester answer sequence over {record A, record B, continuable error, two fatal errors, EOF, bytes+fatal error, bytes+continuable error, panic} up to length 4 x every caller history over {Read, RawRecord(+Raw/Checksum)} up to length 7, each step checked against the contract automaton (states = distinct (latched?, last Read failed?, ingester position) reached, transitions = calls), plus the differential 'history with RawRecord calls removed gives the same Read results'; E2: the seven real readers on every token string up to length 5 over per-format alphabets for every minimal schema, under four driver variants (Read;RawRecord / no RawRecord / RawRecord twice / RawRecord before the first Read), 3 extra Reads after the terminal result, checksum recomputed from the raw node; E4: the same drivers over a caller-supplied file format (CustomFileFormats) whose reader builds its nodes by hand (all IDs 0), re-uses ONE record node, or uses the node pool, on every sequence of up to 4 lines over {a, b, 'a b', continuable failure, fatal failure, empty}; E3: 11 FINAL_OUTPUT shapes (scalar field, const-less concat, object, array, no_trim, typed, external, javascript, copy) x csv / JSON / XML / EDI input x a value containing each single byte 0x00-0xFF and each of 41 multi-byte sequences (incl. text that looks like a JSON or HTML-safe escape) (valid runes incl. U+2028, non-characters, non-BMP; truncated, overlong, surrogate and lone-continuation sequences): every record valid UTF-8 JSON and, where defined, equal to the value with invalid bytes replaced by U+FFFD",
		Assumptions: []string{
			"E1 assumes a well-behaved ingester in the sense of the interface documentation, except that it may return bytes together with an error",
			"E2 inputs are token strings, not all byte strings; panics and non-termination are C03's subject and are not double-reported here",
		},
		BudgetQuick: 300, BudgetThorough: 1500,
		Run: func(c *core.Ctx) {
			// ---- E1 ----
			ansLen, histLen := 4, 7
			if !c.Quick() {
				ansLen, histLen = 5, 8
			}
			idx := 0
			gen.Sequences(len(c01Answers), ansLen, func(a []int) bool {
				idx++
				if !c.Mine(idx) {
					return true
				}
				sb := make([]byte, len(a))
				for i, x := range a {
					sb[i] = c01Answers[x]
				}
				script := string(sb)
				gen.Sequences(2, histLen, func(hs []int) bool {
					hb := make([]byte, len(hs))
					nr := 0
					for i, x := range hs {
						hb[i] = "RW"[x]
						if x == 0 {
							nr++
						}
					}
					cs := c01E1Case{Script: script, History: string(hb)}
					c.Begin(func() interface{} { return cs })
					sig, detail, reads, states := c01RunE1(cs)
					c.Count("transitions", int64(len(hb)))
					c.Count("traces_validated_against_impl", 1)
					for _, s := range states {
						c.Member("states", s)
					}
					c.Eval("E1|" + strings.Join(reads, ";"))
					if sig == "" && nr < len(hb) {
						// transparency of RawRecord: the same history without W gives the same Read results
						_, _, reads2, _ := c01RunE1(c01E1Case{Script: script, History: strings.Repeat("R", nr)})
						if strings.Join(reads, "|") != strings.Join(reads2, "|") {
							sig, detail = "E1:rawrecord-changes-later-results", fmt.Sprintf("script %q history %q: %v vs %v", script, cs.History, reads, reads2)
						}
					}
					if strings.HasPrefix(sig, "harness:") {
						c.HarnessError(sig + ": " + detail)
					} else if sig != "" {
						c.Violation(sig, detail, map[string]interface{}{"e1": cs}, func() string { s, _, _, _ := c01RunE1(cs); return s })
					} else if c.WantSample() && len(script) == ansLen && len(hb) == histLen && idx%97 == 0 {
						c.Sample(map[string]interface{}{"e1": cs, "read_results": reads})
					}
					return true
				})
				return !c.TimeUp()
			})
			// ---- E4: a caller-supplied file format under the built-in handler ----
			for _, mode := range []string{"fresh", "reused", "pooled"} {
				item := "custom-format/" + mode
				schema, err := c01CustomSchema(item)
				if err != nil {
					c.HarnessError("custom format schema rejected: " + err.Error())
					continue
				}
				lines := []string{"a", "b", "a b", "!", "#", ""}
				maxLines := 4
				if !c.Quick() {
					maxLines = 5
				}
				gen.Sequences(len(lines), maxLines, func(seq []int) bool {
					idx++
					if !c.Mine(idx) {
						return true
					}
					var b strings.Builder
					for _, x := range seq {
						b.WriteString(lines[x] + "\n")
					}
					for v := 0; v < 4; v++ {
						cs := c01E2Case{Item: item, Schema: c01CustomSchemaText(mode), Input: b.String(), Variant: v}
						c.Begin(func() interface{} { return map[string]interface{}{"e2": cs} })
						sig, detail, nreads, outcome := c01RunE2(schema, cs)
						c.Count("transitions", int64(nreads))
						c.Count("traces_validated_against_impl", 1)
						c.Count("custom_format_runs", 1)
						c.Eval("E4|" + item + "|" + outcome)
						if sig != "" {
							c.Violation(sig, detail, map[string]interface{}{"e2": cs}, func() string {
								sc, err := c01CustomSchema(item)
								if err != nil {
									return "harness:schema-rejected"
								}
								s, _, _, _ := c01RunE2(sc, cs)
								return s
							})
						}
					}
					return !c.TimeUp()
				})
			}
			// ---- E2 ----
			L := 5
			if !c.Quick() {
				L = 6
			}
			for _, it := range corpus.Minimal() {
				schema, err, _ := hx.NewSchema("s", it.Schema)
				if err != nil {
					c.HarnessError("corpus schema rejected: " + it.Name)
					continue
				}
				toks := tokAlphabets[it.Format]
				l := L
				for pow, n := 1, 0; n < l; n++ { // keep each schema below ~3*10^5 strings
					pow *= len(toks)
					if pow > 300000 {
						l = n
						break
					}
				}
				inputs := append([]string{}, it.Inputs...)
				tokStrings(toks, l, func(s string, k int) bool {
					idx++
					if !c.Mine(idx) {
						return true
					}
					for v := 0; v < 4; v++ {
						cs := c01E2Case{Item: it.Name, Schema: it.Schema, Input: s, Variant: v}
						c.Begin(func() interface{} { return map[string]interface{}{"e2": cs} })
						sig, detail, nreads, outcome := c01RunE2(schema, cs)
						c.Count("transitions", int64(nreads))
						c.Count("traces_validated_against_impl", 1)
						c.Eval("E2|" + it.Name + "|" + outcome)
						if sig != "" {
							c.Violation(sig, detail, map[string]interface{}{"e2": cs}, func() string {
								sc, _, _ := hx.NewSchema("s", cs.Schema)
								s, _, _, _ := c01RunE2(sc, cs)
								return s
							})
						}
					}
					return k%512 != 0 || !c.TimeUp()
				})
				for _, in := range inputs {
					for v := 0; v < 4; v++ {
						cs := c01E2Case{Item: it.Name, Schema: it.Schema, Input: in, Variant: v}
						if sig, detail, _, _ := c01RunE2(schema, cs); sig != "" && c.Shard == 0 {
							c.Violation(sig, detail, map[string]interface{}{"e2": cs}, nil)
						}
					}
				}
			}
			// ---- E3: every output shape x every byte (and byte sequence) inside a value ----
			for _, cs := range c01ShapeCases() {
				idx++
				if !c.Mine(idx) {
					continue
				}
				cs := cs
				schema, err, _ := hx.NewSchema("s", cs.Schema)
				if err != nil {
					c.HarnessError("output-shape schema rejected: " + cs.Item + ": " + err.Error())
					continue
				}
				c.Begin(func() interface{} { return map[string]interface{}{"e2": cs} })
				sig, detail, nreads, outcome := c01RunE2(schema, cs)
				c.Count("transitions", int64(nreads))
				c.Count("traces_validated_against_impl", 1)
				c.Count("output_shape_cases", 1)
				c.Eval("E3|" + cs.Item + "|" + outcome)
				if sig != "" {
					c.Violation(sig, detail, map[string]interface{}{"e2": cs}, func() string {
						sc, _, _ := hx.NewSchema("s", cs.Schema)
						s, _, _, _ := c01RunE2(sc, cs)
						return s
					})
				}
			}
		},
		Replay: func(raw json.RawMessage) (string, string) {
			var w struct {
				E1 *c01E1Case `json:"e1"`
				E2 *c01E2Case `json:"e2"`
			}
			if err := json.Unmarshal(raw, &w); err != nil {
				return "harness:bad-replay", err.Error()
			}
			if w.E1 != nil {
				sig, detail, reads, _ := c01RunE1(*w.E1)
				if sig == "" {
					detail = "contract held: " + strings.Join(reads, "; ")
				}
				return sig, detail
			}
			if w.E2 != nil && strings.HasPrefix(w.E2.Item, "custom-format/") {
				schema, err := c01CustomSchema(w.E2.Item)
				if err != nil {
					return "harness:schema-rejected", err.Error()
				}
				sig, detail, _, outcome := c01RunE2(schema, *w.E2)
				if sig == "" {
					detail = "contract held; outcome " + outcome
				}
				return sig, detail
			}
			if w.E2 != nil {
				schema, err, _ := hx.NewSchema("s", w.E2.Schema)
				if err != nil {
					return "harness:schema", err.Error()
				}
				sig, detail, _, outcome := c01RunE2(schema, *w.E2)
				if sig == "" {
					detail = "contract held: " + outcome
				}
				return sig, detail
			}
			return "harness:bad-replay", "neither e1 nor e2"
		},
	})
}

// c01ReplaceInvalid is what encoding/json does to a string: every invalid byte becomes U+FFFD.
func c01ReplaceInvalid(v string) string {
	var b strings.Builder
	for i := 0; i < len(v); {
		r, w := utf8.DecodeRuneInString(v[i:])
		if r == utf8.RuneError && w == 1 {
			b.WriteRune(utf8.RuneError)
		} else {
			b.WriteString(v[i : i+w])
		}
		i += w
	}
	return b.String()
}

func c01ShapeCases() []c01E2Case {
	var seqs []string
	for b := 0; b < 256; b++ {
		seqs = append(seqs, string([]byte{byte(b)}))
	}
	seqs = append(seqs, "\u00e9", "\u2028", "\u2029", "\ufffd", "\ufffe", "\uffff", "\U0001F600", "\U000E0001", "\U0010FFFF", "\u0085", "\u00a0", "\u200b", "\ufeff",
		// text that looks like a JSON / HTML-safe escape, as data
		`\u003c`, `\u003e`, `\u0026`, `\\u003c`, `\u2028`, `\n`, `\"`, `\\`, `\`, `\u00`, `<`, `>`, `&`, `&lt;`, `&#60;`, `\x3c`, `%3C`,
		"\xc3", "\xe4\xb8", "\xf0\x9f\x98", "\xc0\xaf", "\xe0\x80\xaf", "\xed\xa0\x80", "\xed\xb0\x80", "\xf4\x90\x80\x80", "\x80\x80", "\xfe\xff", "\xef\xbb")
	hdr := func(f string) string {
		return `"parser_settings":{"version":"omni.2.1","file_format_type":"` + f + `"}`
	}
	type shape struct {
		name, decl string
		wrap       func(v string) interface{} // expected output value given the field value; nil = validity only
		ext        bool
	}
	id := func(v string) interface{} { return v }
	shapes := []shape{
		{"scalar-field", `{"xpath":"v"}`, id, false},
		{"scalar-field-no-trim", `{"xpath":"v","no_trim":true}`, id, false},
		{"scalar-concat", `{"custom_func":{"name":"concat","args":[{"xpath":"v"}]}}`, id, false},
		{"scalar-concat-const", `{"custom_func":{"name":"concat","args":[{"const":"<"},{"xpath":"v"},{"const":">"}]}}`, func(v string) interface{} { return "<" + v + ">" }, false},
		{"object", `{"object":{"k":{"xpath":"v"}}}`, func(v string) interface{} { return map[string]interface{}{"k": v} }, false},
		{"array", `{"array":[{"xpath":"v"},{"xpath":"v"}]}`, func(v string) interface{} { return []interface{}{v, v} }, false},
		{"nested", `{"object":{"o":{"object":{"a":{"array":[{"xpath":"v"}]}}}}}`, func(v string) interface{} {
			return map[string]interface{}{"o": map[string]interface{}{"a": []interface{}{v}}}
		}, false},
		{"scalar-external", `{"external":"p"}`, id, true},
		{"object-external", `{"object":{"k":{"external":"p"}}}`, func(v string) interface{} { return map[string]interface{}{"k": v} }, true},
		{"scalar-javascript", `{"custom_func":{"name":"javascript","args":[{"const":"x"},{"const":"x"},{"xpath":"v"}]}}`, nil, false},
		{"scalar-upper", `{"custom_func":{"name":"upper","args":[{"xpath":"v"}]}}`, nil, false},
	}
	var out []c01E2Case
	for _, sh := range shapes {
		for _, format := range []string{"csv", "json", "xml", "edi"} {
			var schema string
			switch format {
			case "csv":
				schema = `{` + hdr("csv") + `,"file_declaration":{"delimiter":",","data_row_index":1,"columns":[{"name":"v"}]},"transform_declarations":{"FINAL_OUTPUT":` + sh.decl + `}}`
			case "json":
				schema = `{` + hdr("json") + `,"transform_declarations":{"FINAL_OUTPUT":` + strings.Replace(sh.decl, `"xpath":"v"`, `"xpath":"v"`, -1) + `}}`
			case "xml":
				schema = `{` + hdr("xml") + `,"transform_declarations":{"FINAL_OUTPUT":` + sh.decl + `}}`
			case "edi":
				schema = `{` + hdr("edi") + `,"file_declaration":{"segment_delimiter":"~","element_delimiter":"*","segment_declarations":[{"name":"S","is_target":true,"max":-1,"elements":[{"name":"v","index":1}]}]},"transform_declarations":{"FINAL_OUTPUT":` + sh.decl + `}}`
			}
			for si, seq := range seqs {
				if sh.ext && format != "csv" {
					continue
				}
				val := "a" + seq + "b"
				var in []byte
				expectValue := true
				switch format {
				case "csv":
					in = []byte(`"` + strings.Replace(val, `"`, `""`, -1) + `"` + "\n")
				case "json":
					var b strings.Builder
					b.WriteString(`{"v":"`)
					for i := 0; i < len(val); i++ {
						ch := val[i]
						switch {
						case ch == '"' || ch == '\\':
							b.WriteByte('\\')
							b.WriteByte(ch)
						case ch < 0x20:
							fmt.Fprintf(&b, "\\u%04x", ch)
						default:
							b.WriteByte(ch)
						}
					}
					b.WriteString(`"}`)
					in = []byte(b.String())
				case "xml":
					esc := strings.NewReplacer("&", "&amp;", "<", "&lt;", ">", "&gt;").Replace(val)
					in = []byte(`<r><v>` + esc + `</v></r>`)
					// the XML decoder rejects invalid UTF-8 and most control characters and normalises CR: validity only
					expectValue = utf8.ValidString(val) && (len(seq) > 1 || seq[0] >= 0x20 || seq[0] == '\t' || seq[0] == '\n')
					if strings.ContainsAny(seq, "\ufffe\uffff") {
						expectValue = false
					}
				case "edi":
					in = []byte("S*" + val + "~")
					if strings.ContainsAny(seq, "*~") {
						expectValue = false
					}
				}
				cs := c01E2Case{Item: "shape/" + sh.name + "/" + format, Schema: schema, InputB: in, Variant: si % 4}
				if sh.ext {
					cs.Externals = map[string]string{"p": val}
				}
				if sh.wrap != nil && expectValue {
					want := val
					if !sh.ext || true {
						want = c01ReplaceInvalid(val)
					}
					wb, _ := json.Marshal(sh.wrap(want))
					ws := string(wb)
					cs.WantFirst = &ws
				}
				out = append(out, cs)
			}
		}
	}
	return out
}
