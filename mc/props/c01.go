package props

import (
	"encoding/json"
	"errors"
	"fmt"
	"io"
	"strings"
	"unicode/utf8"

	"github.com/jf-tech/omniparser"
	"github.com/jf-tech/omniparser/customfuncs"
	"github.com/jf-tech/omniparser/errs"
	"github.com/jf-tech/omniparser/idr"
	"github.com/jf-tech/omniparser/schemahandler"
	"github.com/jf-tech/omniparser/transformctx"

	"verif/mc/core"
	"verif/mc/corpus"
	"verif/mc/gen"
	"verif/mc/hx"
)

// C01 — Read/RawRecord result-stream contract: explicit-state exploration of call histories
// (E1: scripted caller-supplied ingester; E2: the seven real readers on token strings).

// ---- E1: scripted ingester ----

type scriptRaw struct{ id string }

func (r *scriptRaw) Raw() interface{} { return r.id }
func (r *scriptRaw) Checksum() string { return "sum-" + r.id }

var (
	errCont   = errors.New("continuable ingester error")
	errFatal1 = errors.New("fatal ingester error one")
	errFatal2 = errors.New("fatal ingester error two")
)

// answer symbols: A B = records, C = continuable error, F G = fatal errors, E = EOF,
// X = record bytes together with a fatal error, Y = record bytes together with a continuable error.
const c01Answers = "ABCFGEXY"

type scriptIngester struct {
	script string
	pos    int
	calls  int
}

func (s *scriptIngester) Read() (schemahandler.RawRecord, []byte, error) {
	s.calls++
	if s.pos >= len(s.script) {
		return nil, nil, io.EOF
	}
	a := s.script[s.pos]
	s.pos++
	rec := func(id string) (schemahandler.RawRecord, []byte) {
		return &scriptRaw{id: fmt.Sprintf("%s%d", id, s.pos)}, []byte(fmt.Sprintf(`{"rec":"%s%d"}`, id, s.pos))
	}
	switch a {
	case 'A':
		r, b := rec("A")
		return r, b, nil
	case 'B':
		r, b := rec("B")
		return r, b, nil
	case 'C':
		return nil, nil, errCont
	case 'F':
		return nil, nil, errFatal1
	case 'G':
		return nil, nil, errFatal2
	case 'X':
		r, b := rec("X")
		return r, b, errFatal1
	case 'Y':
		r, b := rec("Y")
		return r, b, errCont
	}
	return nil, nil, io.EOF
}
func (s *scriptIngester) IsContinuableError(err error) bool { return err == errCont }
func (s *scriptIngester) FmtErr(format string, args ...interface{}) error {
	return fmt.Errorf(format, args...)
}

type scriptHandler struct {
	script string
	last   *scriptIngester
}

func (h *scriptHandler) NewIngester(_ *transformctx.Ctx, _ io.Reader) (schemahandler.Ingester, error) {
	h.last = &scriptIngester{script: h.script}
	return h.last, nil
}

type c01E1Case struct {
	Script  string `json:"ingester_answers"`
	History string `json:"caller_history"` // R = Read, W = RawRecord (+Raw/Checksum)
}

// c01RunE1 drives the real omniparser.Transform over a scripted ingester and checks every step
// against the contract automaton. It returns a violation signature ("" = none), a description and
// the transcript of Read results (used for the RawRecord-transparency comparison).
func c01RunE1(cs c01E1Case) (sig, detail string, reads []string, states []string) {
	h := &scriptHandler{script: cs.Script}
	ext := omniparser.Extension{
		CreateSchemaHandler: func(*schemahandler.CreateCtx) (schemahandler.SchemaHandler, error) { return h, nil },
		CustomFuncs:         customfuncs.CustomFuncs{},
	}
	schema, err := omniparser.NewSchema("s", strings.NewReader(`{"parser_settings":{"version":"scripted","file_format_type":"x"}}`), ext)
	if err != nil {
		return "harness:newschema", err.Error(), nil, nil
	}
	tr, err := schema.NewTransform("in", strings.NewReader("ignored"), &transformctx.Ctx{})
	if err != nil {
		return "harness:newtransform", err.Error(), nil, nil
	}
	// contract automaton
	var terminal error // latched terminal error
	var lastErr error  // error of the most recent Read (nil if it succeeded)
	var lastRec string // id of the record of the most recent successful Read
	readSeen := false
	pos := 0 // model of the ingester position
	bad := func(kind, msg string, i int) (string, string, []string, []string) {
		return "E1:" + kind, fmt.Sprintf("script %q history %q step %d (%c): %s", cs.Script, cs.History, i, cs.History[i], msg), reads, states
	}
	for i := 0; i < len(cs.History); i++ {
		switch cs.History[i] {
		case 'R':
			callsBefore := h.last.calls
			b, err := tr.Read()
			readSeen = true
			reads = append(reads, hx.Classify(b, err).String())
			if terminal != nil {
				if err != terminal || b != nil {
					return bad("terminal-result-not-repeated", fmt.Sprintf("got (%q, %v), want (nil, %v)", b, err, terminal), i)
				}
				if h.last.calls != callsBefore {
					return bad("ingester-touched-after-terminal-result", "", i)
				}
				lastErr = err
				break
			}
			a := byte('E')
			if pos < len(cs.Script) {
				a = cs.Script[pos]
			}
			pos++
			switch a {
			case 'A', 'B':
				want := fmt.Sprintf(`{"rec":"%c%d"}`, a, pos)
				if err != nil || string(b) != want {
					return bad("record-not-returned", fmt.Sprintf("got (%q, %v) want %s", b, err, want), i)
				}
				if !utf8.Valid(b) || !json.Valid(b) {
					return bad("record-not-valid-json", string(b), i)
				}
				lastErr, lastRec = nil, fmt.Sprintf("%c%d", a, pos)
			case 'C', 'Y':
				if b != nil || !errs.IsErrTransformFailed(err) || err.Error() != errCont.Error() {
					return bad("continuable-error-not-wrapped", fmt.Sprintf("got (%q, %T %v)", b, err, err), i)
				}
				lastErr = err
			case 'F', 'G', 'X', 'E':
				want := map[byte]error{'F': errFatal1, 'G': errFatal2, 'X': errFatal1, 'E': io.EOF}[a]
				if err != want {
					return bad("terminal-error-altered", fmt.Sprintf("got %v want %v", err, want), i)
				}
				if b != nil {
					return bad("bytes-returned-with-terminal-error", fmt.Sprintf("got %q together with %v", b, err), i)
				}
				terminal, lastErr = err, err
			}
		case 'W':
			rr, err := tr.RawRecord()
			switch {
			case !readSeen:
				if err == nil || rr != nil {
					return bad("rawrecord-before-read-succeeds", "", i)
				}
			case lastErr != nil:
				if err == nil || rr != nil || err.Error() != lastErr.Error() || errs.IsErrTransformFailed(err) != errs.IsErrTransformFailed(lastErr) {
					return bad("rawrecord-after-failed-read", fmt.Sprintf("got (%v, %v) want the Read's error %v", rr, err, lastErr), i)
				}
			default:
				if err != nil || rr == nil {
					return bad("rawrecord-fails-after-successful-read", fmt.Sprint(err), i)
				}
				if rr.Raw() != lastRec || rr.Checksum() != "sum-"+lastRec {
					return bad("rawrecord-describes-another-record", fmt.Sprintf("got %v want %s", rr.Raw(), lastRec), i)
				}
			}
		}
		st := "open"
		if terminal != nil {
			st = "terminal"
		}
		states = append(states, fmt.Sprintf("%s/last=%v/pos=%d", st, lastErr != nil, pos))
	}
	return "", "", reads, states
}

// ---- E2: real readers ----

type c01E2Case struct {
	Item    string `json:"item"`
	Schema  string `json:"schema"`
	Input   string `json:"input"`
	Variant int    `json:"driver_variant"` // 0 canonical loop; 1 no RawRecord; 2 RawRecord twice; 3 RawRecord before first Read
}

func c01RunE2(schema omniparser.Schema, cs c01E2Case) (sig, detail string, nreads int, outcome string) {
	var tr omniparser.Transform
	var err error
	if pv, site := core.Safe(func() {
		tr, err = schema.NewTransform("in", strings.NewReader(cs.Input), &transformctx.Ctx{})
	}); pv != nil {
		return "", "panic left to C03: " + site, 0, "panic"
	}
	if err != nil {
		return "", "", 0, "newtransform-error"
	}
	bad := func(kind, msg string) (string, string, int, string) {
		return "E2:" + kind + ":" + cs.Item, fmt.Sprintf("schema %s input %q variant %d: %s", cs.Item, cs.Input, cs.Variant, msg), nreads, ""
	}
	var res struct {
		sig, detail string
	}
	pv, site := core.Safe(func() {
		if cs.Variant == 3 {
			if rr, err := tr.RawRecord(); err == nil || rr != nil {
				res.sig, res.detail, _, _ = bad("rawrecord-before-read-succeeds", "")
				return
			}
		}
		var terminal error
		after := 0
		var trace []string
		for nreads = 0; nreads < 4*len(cs.Input)+16; nreads++ {
			b, err := tr.Read()
			st := hx.Classify(b, err)
			trace = append(trace, st.Kind)
			if terminal != nil {
				if b != nil || err == nil || err.Error() != terminal.Error() || (err == io.EOF) != (terminal == io.EOF) {
					res.sig, res.detail, _, _ = bad("terminal-result-not-repeated", fmt.Sprintf("first %v then (%q, %v)", terminal, b, err))
					return
				}
				after++
				if after >= 3 {
					outcome = strings.Join(trace, ",")
					return
				}
				continue
			}
			switch {
			case err == nil:
				if b == nil {
					res.sig, res.detail, _, _ = bad("nil-bytes-with-nil-error", "")
					return
				}
				if !utf8.Valid(b) || !json.Valid(b) {
					res.sig, res.detail, _, _ = bad("record-not-valid-utf8-json", string(b))
					return
				}
			case b != nil:
				res.sig, res.detail, _, _ = bad("bytes-returned-with-error", fmt.Sprintf("(%q, %v)", b, err))
				return
			case !errs.IsErrTransformFailed(err):
				terminal = err
			}
			if cs.Variant == 1 {
				continue
			}
			for k := 0; k < 1+cs.Variant/2; k++ {
				rr, rerr := tr.RawRecord()
				if err == nil {
					if rerr != nil || rr == nil {
						res.sig, res.detail, _, _ = bad("rawrecord-fails-after-successful-read", fmt.Sprint(rerr))
						return
					}
					n, ok := rr.Raw().(*idr.Node)
					if !ok {
						res.sig, res.detail, _, _ = bad("rawrecord-raw-not-a-node", fmt.Sprintf("%T", rr.Raw()))
						return
					}
					want, _ := customfuncs.UUIDv3(nil, idr.JSONify2(n))
					if rr.Checksum() != want {
						res.sig, res.detail, _, _ = bad("checksum-not-of-this-record", rr.Checksum()+" vs "+want)
						return
					}
				} else if rerr == nil || rr != nil || rerr.Error() != err.Error() {
					res.sig, res.detail, _, _ = bad("rawrecord-after-failed-read", fmt.Sprintf("Read error %v, RawRecord (%v, %v)", err, rr, rerr))
					return
				}
			}
		}
		res.sig, res.detail, _, _ = bad("no-terminal-result", fmt.Sprintf("%d Reads: %s", nreads, strings.Join(trace, ",")))
	})
	if pv != nil {
		return "", "panic left to C03: " + site, nreads, "panic"
	}
	return res.sig, res.detail, nreads, outcome
}

func init() {
	core.Register(&core.Prop{
		ID:    "C01",
		Level: "model_checking",
		Rule:  "E1: the real omniparser.Transform over a scripted caller-supplied ingester: every ingester answer sequence over {record A, record B, continuable error, two fatal errors, EOF, bytes+fatal error, bytes+continuable error} up to length 4 x every caller history over {Read, RawRecord(+Raw/Checksum)} up to length 7, each step checked against the contract automaton (states = distinct (latched?, last Read failed?, ingester position) reached, transitions = calls), plus the differential 'history with RawRecord calls removed gives the same Read results'; E2: the seven real readers on every token string up to length 5 over per-format alphabets for every minimal schema, under four driver variants (Read;RawRecord / no RawRecord / RawRecord twice / RawRecord before the first Read), 3 extra Reads after the terminal result, checksum recomputed from the raw node",
		Assumptions: []string{
			"E1 assumes a well-behaved ingester in the sense of the interface documentation, except that it may return bytes together with an error",
			"E2 inputs are token strings, not all byte strings; panics and non-termination are C03's subject and are not double-reported here",
		},
		BudgetQuick: 100, BudgetThorough: 1500,
		Run: func(c *core.Ctx) {
			// ---- E1 ----
			ansLen, histLen := 4, 7
			if !c.Quick() {
				ansLen, histLen = 5, 8
			}
			idx := 0
			gen.Sequences(len(c01Answers), ansLen, func(a []int) bool {
				idx++
				if !c.Mine(idx) {
					return true
				}
				sb := make([]byte, len(a))
				for i, x := range a {
					sb[i] = c01Answers[x]
				}
				script := string(sb)
				gen.Sequences(2, histLen, func(hs []int) bool {
					hb := make([]byte, len(hs))
					nr := 0
					for i, x := range hs {
						hb[i] = "RW"[x]
						if x == 0 {
							nr++
						}
					}
					cs := c01E1Case{Script: script, History: string(hb)}
					c.Begin(func() interface{} { return cs })
					sig, detail, reads, states := c01RunE1(cs)
					c.Count("transitions", int64(len(hb)))
					c.Count("traces_validated_against_impl", 1)
					for _, s := range states {
						c.Member("states", s)
					}
					c.Eval("E1|" + strings.Join(reads, ";"))
					if sig == "" && nr < len(hb) {
						// transparency of RawRecord: the same history without W gives the same Read results
						_, _, reads2, _ := c01RunE1(c01E1Case{Script: script, History: strings.Repeat("R", nr)})
						if strings.Join(reads, "|") != strings.Join(reads2, "|") {
							sig, detail = "E1:rawrecord-changes-later-results", fmt.Sprintf("script %q history %q: %v vs %v", script, cs.History, reads, reads2)
						}
					}
					if strings.HasPrefix(sig, "harness:") {
						c.HarnessError(sig + ": " + detail)
					} else if sig != "" {
						c.Violation(sig, detail, map[string]interface{}{"e1": cs}, func() string { s, _, _, _ := c01RunE1(cs); return s })
					} else if c.WantSample() && len(script) == ansLen && len(hb) == histLen && idx%97 == 0 {
						c.Sample(map[string]interface{}{"e1": cs, "read_results": reads})
					}
					return true
				})
				return !c.TimeUp()
			})
			// ---- E2 ----
			L := 5
			if !c.Quick() {
				L = 6
			}
			for _, it := range corpus.Minimal() {
				schema, err, _ := hx.NewSchema("s", it.Schema)
				if err != nil {
					c.HarnessError("corpus schema rejected: " + it.Name)
					continue
				}
				toks := tokAlphabets[it.Format]
				l := L
				for pow, n := 1, 0; n < l; n++ { // keep each schema below ~3*10^5 strings
					pow *= len(toks)
					if pow > 300000 {
						l = n
						break
					}
				}
				inputs := append([]string{}, it.Inputs...)
				tokStrings(toks, l, func(s string, k int) bool {
					idx++
					if !c.Mine(idx) {
						return true
					}
					for v := 0; v < 4; v++ {
						cs := c01E2Case{Item: it.Name, Schema: it.Schema, Input: s, Variant: v}
						c.Begin(func() interface{} { return map[string]interface{}{"e2": cs} })
						sig, detail, nreads, outcome := c01RunE2(schema, cs)
						c.Count("transitions", int64(nreads))
						c.Count("traces_validated_against_impl", 1)
						c.Eval("E2|" + it.Name + "|" + outcome)
						if sig != "" {
							c.Violation(sig, detail, map[string]interface{}{"e2": cs}, func() string {
								sc, _, _ := hx.NewSchema("s", cs.Schema)
								s, _, _, _ := c01RunE2(sc, cs)
								return s
							})
						}
					}
					return k%512 != 0 || !c.TimeUp()
				})
				for _, in := range inputs {
					for v := 0; v < 4; v++ {
						cs := c01E2Case{Item: it.Name, Schema: it.Schema, Input: in, Variant: v}
						if sig, detail, _, _ := c01RunE2(schema, cs); sig != "" && c.Shard == 0 {
							c.Violation(sig, detail, map[string]interface{}{"e2": cs}, nil)
						}
					}
				}
			}
		},
		Replay: func(raw json.RawMessage) (string, string) {
			var w struct {
				E1 *c01E1Case `json:"e1"`
				E2 *c01E2Case `json:"e2"`
			}
			if err := json.Unmarshal(raw, &w); err != nil {
				return "harness:bad-replay", err.Error()
			}
			if w.E1 != nil {
				sig, detail, reads, _ := c01RunE1(*w.E1)
				if sig == "" {
					detail = "contract held: " + strings.Join(reads, "; ")
				}
				return sig, detail
			}
			if w.E2 != nil {
				schema, err, _ := hx.NewSchema("s", w.E2.Schema)
				if err != nil {
					return "harness:schema", err.Error()
				}
				sig, detail, _, outcome := c01RunE2(schema, *w.E2)
				if sig == "" {
					detail = "contract held: " + outcome
				}
				return sig, detail
			}
			return "harness:bad-replay", "neither e1 nor e2"
		},
	})
}
