package props

import (
	"bytes"
	"encoding/json"
	"encoding/xml"
	"fmt"
	"io"
	"reflect"
	"strings"

	"github.com/jf-tech/omniparser/idr"

	"verif/mc/core"
	"verif/mc/gen"
	"verif/mc/hx"
)

// C08 — JSON and XML documents are represented faithfully in the node tree.

type c08Case struct {
	Kind string `json:"kind"` // json | json-array-element | json-copy | xml
	Doc  string `json:"document"`
}

// ---- JSON ----

// c08KidCap bounds how many sub-values are used as children at the next level (quick 14, thorough 36).
var c08KidCap = 14

func c08JSONValues(depth int, scalars, keys []string, maxWidth int) []string {
	if depth == 0 {
		return scalars
	}
	sub := c08JSONValues(depth-1, scalars, keys, maxWidth)
	// keep the recursion small: children are drawn from a stride of the sub-values
	kids := sub
	if len(kids) > c08KidCap {
		var k2 []string
		step := len(kids)/c08KidCap + 1
		for i := 0; i < len(kids); i += step {
			k2 = append(k2, kids[i])
		}
		// always keep the containers' corner cases
		k2 = append(k2, "[]", "{}", `[[]]`, `{"":[]}`, `[null]`, `{"":1}`)
		kids = k2
	}
	out := append([]string{}, scalars...)
	out = append(out, "[]", "{}")
	for _, a := range kids {
		out = append(out, "["+a+"]")
		for _, k := range keys {
			out = append(out, "{"+jq(k)+":"+a+"}")
		}
		if maxWidth >= 2 {
			for _, b := range kids {
				out = append(out, "["+a+","+b+"]")
				for i, k1 := range keys {
					for j, k2 := range keys {
						if i != j {
							out = append(out, "{"+jq(k1)+":"+a+","+jq(k2)+":"+b+"}")
						}
					}
				}
			}
		}
	}
	return out
}

func c08JSONCheck(cs c08Case) (sig, detail string) {
	var want interface{}
	if err := json.Unmarshal([]byte(cs.Doc), &want); err != nil {
		return "harness:bad-json", err.Error() + ": " + cs.Doc
	}
	var got interface{}
	switch cs.Kind {
	case "json":
		sr, err := idr.NewJSONStreamReader(strings.NewReader(cs.Doc), ".")
		if err != nil {
			return "harness:reader", err.Error()
		}
		n, err := sr.Read()
		if err != nil {
			return "json:read-error", fmt.Sprintf("doc %s: %v", cs.Doc, err)
		}
		got = idr.J2NodeToInterface(n, true)
	case "json-array-element":
		sr, err := idr.NewJSONStreamReader(strings.NewReader("[0,"+cs.Doc+",1]"), "/*")
		if err != nil {
			return "harness:reader", err.Error()
		}
		n, err := sr.Read()
		if err == nil {
			sr.Release(n)
			n, err = sr.Read()
		}
		if err != nil {
			return "json:read-error", fmt.Sprintf("doc %s: %v", cs.Doc, err)
		}
		got = idr.J2NodeToInterface(n, true)
	case "json-copy":
		schema, err, _ := hx.NewSchema("s", `{"parser_settings":{"version":"omni.2.1","file_format_type":"json"},"transform_declarations":{"FINAL_OUTPUT":{"xpath":"/*","object":{"v":{"custom_func":{"name":"copy"},"keep_empty_or_null":true}}}}}`)
		if err != nil {
			return "harness:schema", err.Error()
		}
		r := hx.Run(schema, strings.NewReader("["+cs.Doc+"]"), hx.Opts{NoChecksum: true})
		if len(r.Steps) == 0 || r.Steps[0].Kind != "rec" {
			return "json-copy:no-record", fmt.Sprintf("doc %s: %v %s", cs.Doc, r.Steps, r.PanicSite)
		}
		var m map[string]interface{}
		if err := json.Unmarshal([]byte(r.Steps[0].Out), &m); err != nil {
			return "json-copy:invalid-output", r.Steps[0].Out
		}
		v, present := m["v"]
		if !present {
			return "json-copy:value-missing", fmt.Sprintf("doc %s: %s", cs.Doc, r.Steps[0].Out)
		}
		got = v
	}
	// normalise Go types through a JSON round trip of the converted value
	gb, err := json.Marshal(got)
	if err != nil {
		return cs.Kind + ":unmarshalable", fmt.Sprintf("doc %s: %v", cs.Doc, err)
	}
	var got2 interface{}
	json.Unmarshal(gb, &got2)
	if reflect.DeepEqual(got2, want) {
		return "", ""
	}
	wb, _ := json.Marshal(want)
	kind := "value-differs"
	if strings.Contains(cs.Doc, `{"":`) {
		kind = "single-empty-key-object-becomes-array"
		// is the ONLY difference that objects with a sole "" key turned into arrays?
		if !reflect.DeepEqual(c08EmptyKeyToArray(want), got2) {
			kind = "value-differs"
		}
	}
	return "json:" + kind, fmt.Sprintf("%s doc %s\n-- converted back: %s\n-- encoding/json:  %s", cs.Kind, cs.Doc, gb, wb)
}

// c08EmptyKeyToArray models the one known deviation: an object whose only member has the empty key
// converts back as a one-element array.
func c08EmptyKeyToArray(v interface{}) interface{} {
	switch x := v.(type) {
	case map[string]interface{}:
		if len(x) == 1 {
			if e, ok := x[""]; ok {
				return []interface{}{c08EmptyKeyToArray(e)}
			}
		}
		m := map[string]interface{}{}
		for k, e := range x {
			m[k] = c08EmptyKeyToArray(e)
		}
		return m
	case []interface{}:
		out := make([]interface{}, len(x))
		for i, e := range x {
			out[i] = c08EmptyKeyToArray(e)
		}
		return out
	}
	return v
}

// ---- XML ----

// refXML renders the document as the standard decoder reports it, in the same shape xmlTreeStr
// renders the idr tree: E(prefix|uri|local){A(prefix|uri|local)=value...}[children...], T"text".
// refXMLLastBound renders the document the way the KNOWN deviation does (finding
// xml:prefix-of-uri-bound-to-two-prefixes): the prefix of a name is not the one written but the one most
// recently bound, among the declarations in scope, to the name's namespace URI. Everything else as refXML.
func refXMLLastBound(doc string) string {
	d := xml.NewDecoder(strings.NewReader(doc))
	var b strings.Builder
	type undo struct {
		uri, prefix string
		had         bool
	}
	bound := map[string]string{"http://www.w3.org/XML/1998/namespace": "xml"}
	var scopes [][]undo
	for {
		t, err := d.Token()
		if err != nil {
			break
		}
		switch e := t.(type) {
		case xml.StartElement:
			var us []undo
			for _, a := range e.Attr {
				isDecl, p := false, ""
				if a.Name.Space == "xmlns" {
					isDecl, p = true, a.Name.Local
				} else if a.Name.Space == "" && a.Name.Local == "xmlns" {
					isDecl = true
				}
				if isDecl {
					prev, had := bound[a.Value]
					us = append(us, undo{a.Value, prev, had})
					bound[a.Value] = p
				}
			}
			scopes = append(scopes, us)
			fmt.Fprintf(&b, "E(%s|%s|%s){", bound[e.Name.Space], e.Name.Space, e.Name.Local)
			for _, a := range e.Attr {
				switch {
				case a.Name.Space == "xmlns":
					fmt.Fprintf(&b, "A(xmlns||%s)=%q ", a.Name.Local, a.Value)
				case a.Name.Space == "":
					fmt.Fprintf(&b, "A(||%s)=%q ", a.Name.Local, a.Value)
				default:
					fmt.Fprintf(&b, "A(%s|%s|%s)=%q ", bound[a.Name.Space], a.Name.Space, a.Name.Local, a.Value)
				}
			}
			b.WriteString("}[")
		case xml.EndElement:
			us := scopes[len(scopes)-1]
			scopes = scopes[:len(scopes)-1]
			for i := len(us) - 1; i >= 0; i-- {
				if us[i].had {
					bound[us[i].uri] = us[i].prefix
				} else {
					delete(bound, us[i].uri)
				}
			}
			b.WriteString("]")
		case xml.CharData:
			fmt.Fprintf(&b, "T%q", string(e))
		}
	}
	return b.String()
}

func refXML(doc string) (string, bool, error) {
	d1 := xml.NewDecoder(strings.NewReader(doc))
	d2 := xml.NewDecoder(strings.NewReader(doc))
	var b strings.Builder
	// prefix bookkeeping to know whether some URI is bound to two prefixes (the known finding)
	uriPrefixes := map[string]map[string]bool{}
	ambiguous := false
	for {
		t1, err1 := d1.Token()
		t2, err2 := d2.RawToken()
		if err1 == io.EOF {
			break
		}
		if err1 != nil || err2 != nil {
			return "", false, fmt.Errorf("%v / %v", err1, err2)
		}
		switch e1 := t1.(type) {
		case xml.StartElement:
			e2 := t2.(xml.StartElement)
			for _, a := range e2.Attr {
				p := ""
				isDecl := false
				if a.Name.Space == "xmlns" {
					p, isDecl = a.Name.Local, true
				} else if a.Name.Space == "" && a.Name.Local == "xmlns" {
					isDecl = true
				}
				if isDecl {
					if uriPrefixes[a.Value] == nil {
						uriPrefixes[a.Value] = map[string]bool{}
					}
					uriPrefixes[a.Value][p] = true
					if len(uriPrefixes[a.Value]) > 1 {
						ambiguous = true
					}
				}
			}
			fmt.Fprintf(&b, "E(%s|%s|%s){", e2.Name.Space, e1.Name.Space, e1.Name.Local)
			for i, a1 := range e1.Attr {
				a2 := e2.Attr[i]
				uri := a1.Name.Space
				if a2.Name.Space == "xmlns" { // namespace declaration attribute: prefix xmlns, no URI
					uri = ""
				}
				fmt.Fprintf(&b, "A(%s|%s|%s)=%q ", a2.Name.Space, uri, a1.Name.Local, a1.Value)
			}
			b.WriteString("}[")
		case xml.EndElement:
			b.WriteString("]")
		case xml.CharData:
			fmt.Fprintf(&b, "T%q", string(e1))
		}
	}
	return b.String(), ambiguous, nil
}

func xmlTreeStr(n *idr.Node, b *strings.Builder) {
	switch n.Type {
	case idr.ElementNode:
		x := idr.XMLSpecificOf(n)
		fmt.Fprintf(b, "E(%s|%s|%s){", x.NamespacePrefix, x.NamespaceURI, n.Data)
		c := n.FirstChild
		for ; c != nil && c.Type == idr.AttributeNode; c = c.NextSibling {
			ax := idr.XMLSpecificOf(c)
			val := "<no single text child>"
			if c.FirstChild != nil && c.FirstChild == c.LastChild && c.FirstChild.Type == idr.TextNode {
				val = c.FirstChild.Data
			}
			fmt.Fprintf(b, "A(%s|%s|%s)=%q ", ax.NamespacePrefix, ax.NamespaceURI, c.Data, val)
		}
		b.WriteString("}[")
		for ; c != nil; c = c.NextSibling {
			if c.Type == idr.AttributeNode {
				b.WriteString("ATTRIBUTE-AFTER-CONTENT ")
			}
			xmlTreeStr(c, b)
		}
		b.WriteString("]")
	case idr.TextNode:
		fmt.Fprintf(b, "T%q", n.Data)
	case idr.AttributeNode:
		fmt.Fprintf(b, "A?%s", n.Data)
	}
}

func c08XMLCheck(cs c08Case) (sig, detail string) {
	want, ambiguous, err := refXML(cs.Doc)
	if err != nil {
		return "harness:bad-xml", err.Error() + ": " + cs.Doc
	}
	sr, err := idr.NewXMLStreamReader(strings.NewReader(cs.Doc), ".")
	if err != nil {
		return "harness:reader", err.Error()
	}
	n, err := sr.Read()
	if err != nil {
		return "xml:read-error", fmt.Sprintf("doc %s: %v", cs.Doc, err)
	}
	var b strings.Builder
	xmlTreeStr(n, &b)
	got := b.String()
	// the same document read record by record (stream target: the root's child elements): every
	// record's tree must be the subtree the whole-document read has at that place
	var wholeKids []string
	for c := n.FirstChild; c != nil; c = c.NextSibling {
		if c.Type == idr.ElementNode {
			var kb strings.Builder
			xmlTreeStr(c, &kb)
			wholeKids = append(wholeKids, kb.String())
		}
	}
	if len(wholeKids) > 0 {
		sr2, err := idr.NewXMLStreamReader(strings.NewReader(cs.Doc), "/*/*")
		if err != nil {
			return "harness:reader", err.Error()
		}
		var streamKids []string
		for i := 0; i <= len(wholeKids)+1; i++ {
			rec, err := sr2.Read()
			if err != nil {
				if err != io.EOF {
					streamKids = append(streamKids, "ERROR "+err.Error())
				}
				break
			}
			var kb strings.Builder
			xmlTreeStr(rec, &kb)
			streamKids = append(streamKids, kb.String())
			sr2.Release(rec)
		}
		if strings.Join(streamKids, "\n") != strings.Join(wholeKids, "\n") {
			return "xml:record-tree-differs-from-whole-document-tree", fmt.Sprintf("doc %s\n-- records read with stream target /*/*:\n%s\n-- the root's child elements in the tree of the whole document:\n%s",
				cs.Doc, strings.Join(streamKids, "\n"), strings.Join(wholeKids, "\n"))
		}
	}
	if got == want {
		return "", ""
	}
	kind := "tree-differs"
	if ambiguous {
		// known finding: only prefixes differ, and only because one URI is bound to two prefixes
		if got == refXMLLastBound(cs.Doc) {
			kind = "prefix-of-uri-bound-to-two-prefixes"
		}
	}
	return "xml:" + kind, fmt.Sprintf("doc %s\n-- node tree:        %s\n-- standard decoder: %s", cs.Doc, got, want)
}

func c08StripPrefixes(s string) string {
	var b bytes.Buffer
	for i := 0; i < len(s); i++ {
		if (s[i] == 'E' || s[i] == 'A') && i+1 < len(s) && s[i+1] == '(' {
			j := strings.IndexByte(s[i:], '|')
			if j > 0 {
				b.WriteString(s[i:i+2] + "*")
				i += j - 1
				continue
			}
		}
		b.WriteByte(s[i])
	}
	return b.String()
}

type c08NS struct {
	name      string
	rootDecl  string // attributes added to the root start tag
	childDecl string // attributes added to every non-root element's start tag
	prefixes  []string
}

func c08XMLDocs(n int, reduced bool, visit func(doc string) bool) {
	nss := []c08NS{
		{"none", "", "", []string{""}},
		{"default-on-root", ` xmlns="u"`, "", []string{""}},
		{"prefix-on-root", ` xmlns:p="u"`, "", []string{"", "p:"}},
		{"default-redeclared-on-child", ` xmlns="u"`, ` xmlns="v"`, []string{""}},
		{"default-undeclared-on-child", ` xmlns="u"`, ` xmlns=""`, []string{""}},
		{"second-prefix-same-uri", ` xmlns:p="u"`, ` xmlns:q="u"`, []string{"", "p:", "q:"}},
		{"prefix-rebound", ` xmlns:p="u"`, ` xmlns:p="w"`, []string{"", "p:"}},
		{"default-and-prefix-same-uri", ` xmlns="u" xmlns:p="u"`, "", []string{"", "p:"}},
		// one child element binds the URI twice more; its siblings after it use the outer prefix again
		{"two-more-prefixes-on-a-child", ` xmlns:o="u"`, ` xmlns:p="u" xmlns:q="u"`, []string{"", "o:", "p:", "q:"}},
		{"default-and-prefix-on-a-child", ` xmlns:o="u"`, ` xmlns="u" xmlns:p="u"`, []string{"", "o:", "p:"}},
	}
	contents := []string{"", "t", " ", "&amp;&#65;", "<![CDATA[<x>]]>", "<!--c-->", "<?pi x?>", "t<!--c-->u", "a<![CDATA[b]]>c"}
	attrs := []string{"", ` k="1"`, ` P:k="2"`, ` xml:lang="en"`, ` k="1" P:k="2"`, ` k=""`, ` P:xmlns="u"`}
	names := []string{"a", "b"}
	if reduced {
		contents = []string{"", "t", "t<!--c-->u"}
		attrs = []string{"", ` k="1" P:k="2"`}
		names = []string{"a"}
	}
	for _, ns := range nss {
		gen.Shapes(n, 3, func(parent []int) bool {
			kids := make([][]int, n)
			for i := 1; i < n; i++ {
				kids[parent[i]] = append(kids[parent[i]], i)
			}
			radix := make([]int, n)
			per := len(names) * len(ns.prefixes) * len(attrs) * len(contents)
			for i := range radix {
				radix[i] = per
			}
			ok := true
			gen.Counter(radix, func(d []int) bool {
				var b strings.Builder
				valid := true
				var render func(i int)
				render = func(i int) {
					v := d[i]
					name := names[v%len(names)]
					v /= len(names)
					pfx := ns.prefixes[v%len(ns.prefixes)]
					v /= len(ns.prefixes)
					at := attrs[v%len(attrs)]
					v /= len(attrs)
					content := contents[v%len(contents)]
					// a prefix must be declared on the root or (for a child) on the element itself
					declared := func(p string) bool {
						if strings.Contains(ns.rootDecl, "xmlns:"+p+"=") {
							return true
						}
						return i != 0 && (!strings.HasSuffix(ns.name, "-on-a-child") || i == 1) && strings.Contains(ns.childDecl, "xmlns:"+p+"=")
					}
					if pfx != "" && !declared(strings.TrimSuffix(pfx, ":")) {
						valid = false
					}
					if strings.Contains(at, "P:") {
						ap := "p"
						if !declared(ap) {
							valid = false
						}
						at = strings.ReplaceAll(at, "P:", ap+":")
					}
					b.WriteString("<" + pfx + name)
					if i == 0 {
						b.WriteString(ns.rootDecl)
					} else if !strings.HasSuffix(ns.name, "-on-a-child") || i == 1 {
						b.WriteString(ns.childDecl) // ("...-on-a-child": only the first child declares, its later siblings do not)
					}
					b.WriteString(at + ">" + content)
					for _, k := range kids[i] {
						render(k)
					}
					if len(kids[i]) > 0 && content != "" {
						b.WriteString(" ")
					}
					b.WriteString("</" + pfx + name + ">")
				}
				render(0)
				if valid {
					ok = visit(b.String())
				}
				return ok
			})
			return ok
		})
	}
}

func c08Check(cs c08Case) (string, string) {
	if cs.Kind == "xml" {
		return c08XMLCheck(cs)
	}
	return c08JSONCheck(cs)
}

func init() {
	core.Register(&core.Prop{
		ID:    "C08",
		Level: "exploration",
		Rule:  "JSON: every value to depth 3 (thorough 4; width 2, children from a stride of the previous level plus all container corner cases) over scalars {null,true,false,0,-1.5,1e2,1e19,12345678901234567890,0.1,\"\",\"a\",\"é\",\"\\\"\",\"\\u0000\"} and distinct keys from {\"\",a,b}, read as the whole document, as an element of a top-level array, and copied by the `copy` custom_func through a full Transform; the tree converted back (J2NodeToInterface with type flags) must deep-equal encoding/json's decoding. XML: every element tree with 1-2 elements (3, thorough 4, with reduced alphabets) x 8 namespace decorations (default, prefixed, redeclared, undeclared, two prefixes for one URI, prefix rebound, default+prefix same URI) x attributes {none,k,p:k,xml:lang,k+p:k,empty} x content {none,text,whitespace,entities,CDATA,comment,PI,text-comment-text,text-CDATA-text}; the node tree must equal, token by token, what encoding/xml reports (Token for URIs/values/chardata, RawToken for the prefix written in the document), attributes first; distinct by (kind, document); every XML document also read record by record (target /*/*), each record tree = the subtree of the whole-document tree; big JSON documents (12 000 scalars, 3 000 rows, arrays of arrays, nesting 2 000 deep)",
		Assumptions: []string{
			"encoding/json and encoding/xml are the reference decoders; objects with duplicate keys are outside the alphabet",
		},
		Run: func(c *core.Ctx) {
			idx := 0
			try := func(cs c08Case) bool {
				idx++
				if !c.Mine(idx) {
					return true
				}
				c.Begin(func() interface{} { return cs })
				sig, detail := c08Check(cs)
				c.Eval(cs.Kind + "|" + fmt.Sprint(len(cs.Doc)/8))
				switch {
				case strings.HasPrefix(sig, "harness:"):
					c.HarnessError(sig + ": " + detail)
				case sig != "":
					c.Violation(sig, detail, cs, func() string { s, _ := c08Check(cs); return s })
				case c.WantSample() && idx%3001 == 0:
					c.Sample(cs)
				}
				return !c.TimeUpEvery(32)
			}
			scalars := []string{"null", "true", "false", "0", "-1.5", "1e2", "1e19", "12345678901234567890", "0.1", `""`, `"a"`, `"é"`, `"\""`, `"\u0000"`, "9007199254740993", "1.7976931348623157e308", "-0",
				// fractions whose shortest form has 16 / 17 significant digits, and the smallest float
				"0.30000000000000004", "3.141592653589793", "123456789.01234567", "5e-324", "-2.2250738585072014e-308"}
			depth := 3
			c08KidCap = 14
			if !c.Quick() {
				depth = 4
				c08KidCap = 36
			}
			vals := c08JSONValues(depth, scalars, []string{"", "a", "b"}, 2)
			c.Max("json_values", int64(len(vals)))
			for _, v := range vals {
				for _, kind := range []string{"json", "json-array-element", "json-copy"} {
					if !try(c08Case{Kind: kind, Doc: v}) {
						return
					}
				}
			}
			// big documents: the number of values, the width and the depth must not matter (12 000 scalars in
			// one array, 3 000 row objects, an array of arrays of arrays, nesting 2 000 deep)
			{
				var big []string
				var b strings.Builder
				b.WriteString("[")
				for i := 0; i < 12000; i++ {
					if i > 0 {
						b.WriteString(",")
					}
					fmt.Fprintf(&b, "%d", i)
				}
				b.WriteString("]")
				big = append(big, b.String())
				b.Reset()
				b.WriteString(`{"rows":[`)
				for i := 0; i < 3000; i++ {
					if i > 0 {
						b.WriteString(",")
					}
					fmt.Fprintf(&b, `{"id":%d,"name":"n%d","ok":%v,"tags":["a",null]}`, i, i, i%2 == 0)
				}
				b.WriteString(`]}`)
				big = append(big, b.String())
				b.Reset()
				b.WriteString(`{"m":[`)
				for i := 0; i < 60; i++ {
					if i > 0 {
						b.WriteString(",")
					}
					b.WriteString("[")
					for j := 0; j < 60; j++ {
						if j > 0 {
							b.WriteString(",")
						}
						fmt.Fprintf(&b, "[%d,%d]", i, j)
					}
					b.WriteString("]")
				}
				b.WriteString(`]}`)
				big = append(big, b.String())
				big = append(big, strings.Repeat(`{"a":[`, 1000)+`"deep"`+strings.Repeat(`]}`, 1000))
				for _, doc := range big {
					for _, kind := range []string{"json", "json-copy"} {
						if !try(c08Case{Kind: kind, Doc: doc}) {
							return
						}
						c.Count("big_json_documents", 1)
					}
				}
			}
			nmax := 3
			if !c.Quick() {
				nmax = 4
			}
			for n := 1; n <= nmax; n++ {
				stop := false
				c08XMLDocs(n, n >= 3, func(doc string) bool {
					if !try(c08Case{Kind: "xml", Doc: doc}) {
						stop = true
						return false
					}
					return true
				})
				if stop {
					return
				}
			}
			// nested declaration scopes: r > (e1 > e2 > e3), e4 - e1 binds a URI of the root again (or another
			// one), e2 / e3 inside it carry declarations of their own, e4 comes after e1 has ended and uses what
			// the root declared; every combination of declarations and of the prefixes in scope for each name
			{
				rootDecls := []string{` xmlns:o="u"`, ` xmlns="u"`, ` xmlns:o="u" xmlns="d"`}
				e1Decls := []string{"", ` xmlns:p="u"`, ` xmlns="u"`, ` xmlns:o="w"`, ` xmlns:p="u" xmlns:q="u"`}
				inDecls := []string{"", ` xmlns:z="zz"`, ` xmlns:p="v"`, ` xmlns:q="u"`, ` xmlns=""`, ` xmlns:o="u"`}
				declares := func(decls, p string) bool {
					if p == "" {
						return true // unprefixed names are always fine
					}
					return strings.Contains(decls, "xmlns:"+p+"=")
				}
				for _, rd := range rootDecls {
					for _, d1 := range e1Decls {
						for _, d2 := range inDecls {
							for _, d3 := range inDecls {
								if d3 != "" && d2 != "" && d3 != d2 && c.Quick() {
									continue // quick: the two inner declarations are equal, or one of them is absent
								}
								for _, p1 := range []string{"", "o", "p"} {
									for _, p2 := range []string{"", "o", "p", "q"} {
										for _, p4 := range []string{"", "o"} {
											if !declares(rd+d1, p1) || !declares(rd+d1+d2, p2) || !declares(rd, p4) {
												continue
											}
											q := func(p string) string {
												if p == "" {
													return ""
												}
												return p + ":"
											}
											attr := ""
											if declares(rd, "o") {
												attr = ` o:k="1"`
											}
											doc := "<r" + rd + "><" + q(p1) + "a" + d1 + "><" + q(p2) + "b" + d2 + "><c" + d3 + "/></" + q(p2) + "b></" + q(p1) + "a><" + q(p4) + "e" + attr + "><" + q(p4) + "f/></" + q(p4) + "e></r>"
											if !try(c08Case{Kind: "xml", Doc: doc}) {
												return
											}
											if c.Shard == 0 {
												c.Count("nested_scope_documents", 1)
											}
										}
									}
								}
							}
						}
					}
				}
			}
		},
		Replay: func(raw json.RawMessage) (string, string) {
			var cs c08Case
			if err := json.Unmarshal(raw, &cs); err != nil {
				return "harness:bad-replay", err.Error()
			}
			sig, detail := c08Check(cs)
			if sig == "" {
				detail = "faithful"
			}
			return sig, detail
		},
	})
}
