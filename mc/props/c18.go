package props

import (
	"encoding/json"
	"fmt"
	"strings"

	"github.com/jf-tech/omniparser"
	"golang.org/x/text/encoding/charmap"

	"verif/mc/core"
	"verif/mc/hx"
)

// C18 — declared input encodings and byte-order marks are handled transparently: exhaustive
// byte-value enumeration, differential against pre-converted UTF-8 input.

type c18Case struct {
	Item     string `json:"item"`
	Schema   string `json:"schema"` // without encoding; the check inserts it
	Encoding string `json:"encoding"`
	Input    []byte `json:"input_bytes"`
	Family   string `json:"family"`
}

func c18WithEncoding(schema, enc string) string {
	return strings.Replace(schema, `"parser_settings":{`, `"parser_settings":{"encoding":"`+enc+`",`, 1)
}

func c18Decode(enc string, raw []byte) []byte {
	var out []byte
	switch enc {
	case "iso-8859-1":
		out, _ = charmap.ISO8859_1.NewDecoder().Bytes(raw)
	case "windows-1252":
		out, _ = charmap.Windows1252.NewDecoder().Bytes(raw)
	default:
		out = raw
	}
	return out
}

var c18Schemas = map[string]omniparser.Schema{}

func c18Run1(schemaText string, input []byte) hx.Result {
	schema := c18Schemas[schemaText]
	if schema == nil {
		var err error
		schema, err, _ = hx.NewSchema("s", schemaText)
		if err != nil {
			return hx.Result{NewTransformErr: "schema rejected: " + err.Error()}
		}
		c18Schemas[schemaText] = schema
	}
	return hx.Run(schema, strings.NewReader(string(input)), hx.Opts{MaxReads: 3000})
}

// c18RunPieces: the same, with the input arriving in pieces of the given sizes (the last size repeats).
func c18RunPieces(schemaText string, input []byte, sizes []int) hx.Result {
	c18Run1(schemaText, nil) // make sure the schema is cached
	schema := c18Schemas[schemaText]
	if schema == nil {
		return hx.Result{NewTransformErr: "schema rejected"}
	}
	var cuts []int
	pos := 0
	for i := 0; pos < len(input); i++ {
		sz := sizes[len(sizes)-1]
		if i < len(sizes) {
			sz = sizes[i]
		}
		pos += sz
		if pos < len(input) {
			cuts = append(cuts, pos)
		}
	}
	return hx.Run(schema, &hx.CutReader{Data: input, Cuts: cuts}, hx.Opts{MaxReads: 3000})
}

func c18Every(step, n int) []int {
	var cuts []int
	for p := step; p < n; p += step {
		cuts = append(cuts, p)
	}
	return cuts
}

func c18Check(cs c18Case) (sig, detail string) {
	var a, b hx.Result
	switch cs.Family {
	case "bom-utf8":
		a = c18Run1(c18WithEncoding(cs.Schema, "utf-8"), append([]byte("\xEF\xBB\xBF"), cs.Input...))
		b = c18Run1(c18WithEncoding(cs.Schema, "utf-8"), cs.Input)
		for _, st := range a.Steps {
			if strings.Contains(st.Out, "\uFEFF") || strings.Contains(strings.ToLower(st.Out), `\ufeff`) {
				return "bom-appears-in-output:" + cs.Item, fmt.Sprintf("input BOM+%q: %s", cs.Input, st.Out)
			}
		}
	case "bom-default-encoding":
		a = c18Run1(cs.Schema, append([]byte("\xEF\xBB\xBF"), cs.Input...))
		b = c18Run1(cs.Schema, cs.Input)
	case "bom-utf8-arriving-in-pieces":
		// the three BOM bytes split over the first reads in every way: 1+1+1, 1+2, 2+1, then the rest
		b = c18Run1(c18WithEncoding(cs.Schema, "utf-8"), cs.Input)
		for _, sizes := range [][]int{{1, 1, 1, 4096}, {1, 2, 4096}, {2, 1, 4096}, {1}, {2}, {3, 4096}, {4, 4096}} {
			a = c18RunPieces(c18WithEncoding(cs.Schema, "utf-8"), append([]byte("\xEF\xBB\xBF"), cs.Input...), sizes)
			if a.NewTransformErr != b.NewTransformErr || !hx.SameSteps(a.Steps, b.Steps) {
				return "bom-changes-result:" + cs.Item + ":pieces", fmt.Sprintf("%s input BOM+%q delivered in pieces %v:\n%s-- without the BOM:\n%s", cs.Item, cs.Input, sizes, hx.Transcript(a.Steps), hx.Transcript(b.Steps))
			}
		}
	default:
		a = c18Run1(c18WithEncoding(cs.Schema, cs.Encoding), cs.Input)
		b = c18Run1(c18WithEncoding(cs.Schema, "utf-8"), c18Decode(cs.Encoding, cs.Input))
		if cs.Family != "all-byte-pairs" && cs.Family != "leading-byte-pair" && len(cs.Input) > 0 {
			// the raw bytes again, the last piece arriving together with io.EOF (whole, and in 1024-byte pieces)
			for _, cuts := range [][]int{nil, c18Every(1024, len(cs.Input))} {
				a2 := hx.Run(c18Schemas[c18WithEncoding(cs.Schema, cs.Encoding)], &hx.CutReader{Data: cs.Input, Cuts: cuts, EOFWithLast: true}, hx.Opts{MaxReads: 3000})
				if a2.PanicSite == "" && (a2.NewTransformErr != b.NewTransformErr || !hx.SameSteps(a2.Steps, b.Steps)) {
					return "differs:" + cs.Item + ":" + cs.Encoding + ":last-bytes-arrive-with-eof", fmt.Sprintf("%s [%s] input %q, last piece delivered together with io.EOF (cuts %v)\n-- with encoding %s on the raw bytes (%s):\n%s-- reference run (pre-converted) (%s):\n%s",
						cs.Item, cs.Family, cs.Input, cuts, cs.Encoding, a2.NewTransformErr, hx.Transcript(a2.Steps), b.NewTransformErr, hx.Transcript(b.Steps))
				}
				if cuts == nil && len(cs.Input) <= 1024 {
					break
				}
			}
		}
	}
	if a.PanicSite != "" {
		return "panic:" + a.PanicSite, fmt.Sprintf("%s %s input %q", cs.Item, cs.Encoding, cs.Input)
	}
	if a.NewTransformErr != b.NewTransformErr || !hx.SameSteps(a.Steps, b.Steps) {
		kind := "differs"
		if cs.Family == "bom-utf8" || cs.Family == "bom-default-encoding" {
			kind = "bom-changes-result"
		}
		return kind + ":" + cs.Item + ":" + cs.Encoding, fmt.Sprintf("%s [%s] input %q\n-- with encoding %s on the raw bytes (%s):\n%s-- reference run (pre-converted / BOM-less) (%s):\n%s",
			cs.Item, cs.Family, cs.Input, cs.Encoding, a.NewTransformErr, hx.Transcript(a.Steps), b.NewTransformErr, hx.Transcript(b.Steps))
	}
	return "", ""
}

type c18Item struct {
	Name    string
	Schema  string
	Slots   []string // input templates with \x00SLOT\x00 replaced by the byte(s)
	Special []byte   // bytes that matter structurally for this format
}

func c18Items() []c18Item {
	m := minimalByName()
	const S = "\x01SLOT\x01"
	return []c18Item{
		{"csv/basic", m["csv/basic"].Schema, []string{"x" + S + "y,1\n", S + ",2\nb,3\n", "a,4\n\"q" + S + "\",5\n", "a" + S}, []byte(",\"\r\n")},
		{"csv2/flat", m["csv2/flat"].Schema, []string{"x" + S + "y,-,1\n", S + ",-,2\nb,-,3\n", "\"q" + S + "\",-,5\n", "a,-," + S}, []byte(",\"\r\n")},
		{"fixed-length/rows", m["fixed-length/rows"].Schema, []string{"a" + S + "123\n", S + "b456\n", "ab12" + S + "\ncd789\n", S}, []byte("\r\n ")},
		{"fixedlength2/flat", m["fixedlength2/flat"].Schema, []string{"a" + S + "123\n", S + "b456\n", "ab12" + S + "\ncd789\n", S}, []byte("\r\n ")},
		{"edi/nested", m["edi/nested"].Schema, []string{"ISA*0\nST*" + S + "\nN1*a" + S + ":b\nSE\n", "ISA\nST*1\nN1*" + S + "\nSE\n", "ISA\nST*1" + S + "SE\n"}, []byte("*:?\r\n")},
		{"json/array", m["json/array"].Schema, []string{`[{"a":1,"b":{"c":"x` + S + `y"}}]`, `[{"a":"` + S + `"}]`, `[{"a":1}` + S + `]`}, []byte("\"\\{}[],:")},
		{"xml/basic", m["xml/basic"].Schema, []string{`<r><a k="` + S + `"><b>1</b></a></r>`, `<r><a><b>` + S + `</b></a></r>`, `<r><a k="1"/>` + S + `</r>`}, []byte("<>&\"'")},
	}
}

func init() {
	core.Register(&core.Prop{
		ID:    "C18",
		Level: "exploration",
		Rule:  "for encodings {iso-8859-1, windows-1252} x all seven formats: every byte value 0x00-0xFF in every slot (inside a value, as a whole value, next to a delimiter/quote/newline, at the very start/end of the input) and every pair of bytes from the structurally relevant set (bytes decoding to delimiters, quotes, CR, LF, release character, 0xEF 0xBB 0xBF, 0x80-0x9F, 0xFF); inputs crossing the decoder's 4096-byte buffer, 3-line records (fixedlength2, csv2) with high bytes and empty lines inside the records over more than three reader buffers with the first line padded by 0..47 bytes, and a 9000-byte ASCII value with high bytes at every 41st (thorough: every) position; thorough: every pair of bytes 0x00-0xFF inside a value; UTF-8 BOM x formats x {BOM+data (also with the three BOM bytes split over the first reads in every way), BOM only, BOM with the default (absent) encoding, the three BOM bytes under each single-byte encoding}; the transcript with 'encoding: E' on the raw bytes must equal the transcript with 'encoding: utf-8' on the bytes converted with the standard code page, and a leading BOM must change nothing and never appear in the output; distinct by (format, encoding, input)",
		Assumptions: []string{
			"golang.org/x/text/encoding/charmap's batch conversion is the 'standard code page' reference",
		},
		Run: func(c *core.Ctx) {
			idx := 0
			try := func(cs c18Case) bool {
				idx++
				if !c.Mine(idx) {
					return true
				}
				c.Begin(func() interface{} { return cs })
				sig, detail := c18Check(cs)
				c.Eval(cs.Item + "|" + cs.Encoding + "|" + cs.Family)
				if sig != "" {
					c.Violation(sig, detail, cs, func() string { s, _ := c18Check(cs); return s })
				} else if c.WantSample() && idx%4001 == 0 {
					c.Sample(map[string]interface{}{"item": cs.Item, "encoding": cs.Encoding, "family": cs.Family, "input": fmt.Sprintf("%q", cs.Input)})
				}
				return !c.TimeUpEvery(16)
			}
			const S = "\x01SLOT\x01"
			for _, it := range c18Items() {
				for _, enc := range []string{"iso-8859-1", "windows-1252"} {
					for _, tpl := range it.Slots {
						for b := 0; b < 256; b++ {
							in := strings.Replace(tpl, S, string([]byte{byte(b)}), 1)
							if !try(c18Case{Item: it.Name, Schema: it.Schema, Encoding: enc, Input: []byte(in), Family: "single-byte"}) {
								return
							}
						}
					}
					var set []byte
					set = append(set, it.Special...)
					set = append(set, 0xEF, 0xBB, 0xBF, 0xFF, 0xA0, 0xE9, 0x00, 0x7F)
					for b := 0x80; b <= 0x9F; b++ {
						set = append(set, byte(b))
					}
					for ti, tpl := range it.Slots {
						if c.Quick() && ti > 1 {
							break
						}
						for _, b1 := range set {
							for _, b2 := range set {
								in := strings.Replace(tpl, S, string([]byte{b1, b2}), 1)
								if !try(c18Case{Item: it.Name, Schema: it.Schema, Encoding: enc, Input: []byte(in), Family: "byte-pair"}) {
									return
								}
							}
						}
					}
					// every pair of bytes as the first two bytes of the input (where byte order marks of other
					// encodings would sit: FF FE, FE FF are the text "ÿþ", "þÿ" in a single-byte encoding)
					if !c.Quick() || it.Name == "csv2/flat" || it.Name == "fixedlength2/flat" || it.Name == "xml/basic" {
						for b1 := 0; b1 < 256; b1++ {
							for b2 := 0; b2 < 256; b2++ {
								if c.Quick() && b1 < 0x80 && b2 < 0x80 && (b1+b2)%7 != 0 {
									continue // quick: ASCII-ASCII pairs are thinned out
								}
								in := strings.Replace(it.Slots[1], S, string([]byte{byte(b1), byte(b2)}), 1)
								if !strings.HasPrefix(in, string([]byte{byte(b1), byte(b2)})) {
									in = string([]byte{byte(b1), byte(b2)}) + strings.Replace(it.Slots[0], S, "v", 1)
								}
								if !try(c18Case{Item: it.Name, Schema: it.Schema, Encoding: enc, Input: []byte(in), Family: "leading-byte-pair"}) {
									return
								}
							}
						}
					}
					// the decoder's buffer boundary
					for _, n := range []int{4090, 4094, 4095, 4096, 4097, 4098, 8191, 8192, 8193} {
						for _, b := range []byte{0xE9, 0x80, 0x99, 'A'} {
							in := strings.Replace(it.Slots[0], S, strings.Repeat(string([]byte{b}), n)+string([]byte{0x85, b}), 1)
							if !try(c18Case{Item: it.Name, Schema: it.Schema, Encoding: enc, Input: []byte(in), Family: "buffer-boundary"}) {
								return
							}
						}
					}
					// one or two high bytes at every position of a long ASCII run (the decoder works in 4096-byte
					// blocks whose output is longer than their input): position sweep
					for _, b := range []byte{0xE9, 0x80} {
						step := 41
						if !c.Quick() {
							step = 1
						}
						for pos := 0; pos < 8300; pos += step {
							body := []byte(strings.Repeat("ABCDEFGHIJ", 900))
							body[pos] = b
							body[(pos*7+13)%len(body)] = b
							in := strings.Replace(it.Slots[0], S, string(body), 1)
							if !try(c18Case{Item: it.Name, Schema: it.Schema, Encoding: enc, Input: []byte(in), Family: "high-byte-position-sweep"}) {
								return
							}
						}
					}
					if !c.Quick() {
						// every pair of bytes inside a value
						for b1 := 0; b1 < 256; b1++ {
							for b2 := 0; b2 < 256; b2++ {
								in := strings.Replace(it.Slots[0], S, string([]byte{byte(b1), byte(b2)}), 1)
								if !try(c18Case{Item: it.Name, Schema: it.Schema, Encoding: enc, Input: []byte(in), Family: "all-byte-pairs"}) {
									return
								}
							}
						}
					}
					// the three BOM bytes are ordinary characters in a single-byte encoding
					for _, tpl := range it.Slots {
						body := strings.Replace(tpl, S, "v", 1)
						for _, pre := range []string{"\xEF\xBB\xBF", "\xEF\xBB", "\xEF", "\xEF\xBB\xBF\xEF\xBB\xBF", "\xBF\xBB\xEF"} {
							if !try(c18Case{Item: it.Name, Schema: it.Schema, Encoding: enc, Input: []byte(pre + body), Family: "bom-bytes-under-single-byte-encoding"}) {
								return
							}
						}
					}
				}
				// UTF-8 BOM
				for _, tpl := range it.Slots {
					for _, v := range []string{"v", "é", ""} {
						body := strings.Replace(tpl, S, v, 1)
						if !try(c18Case{Item: it.Name, Schema: it.Schema, Encoding: "utf-8", Input: []byte(body), Family: "bom-utf8-arriving-in-pieces"}) {
							return
						}
						if !try(c18Case{Item: it.Name, Schema: it.Schema, Encoding: "utf-8", Input: []byte(body), Family: "bom-utf8"}) ||
							!try(c18Case{Item: it.Name, Schema: it.Schema, Encoding: "(default)", Input: []byte(body), Family: "bom-default-encoding"}) {
							return
						}
					}
				}
				if !try(c18Case{Item: it.Name, Schema: it.Schema, Encoding: "utf-8", Input: nil, Family: "bom-utf8"}) {
					return
				}
			}
			// many multi-line records with high bytes and empty lines inside the records, over more than three
			// reader buffers, the first line padded by 0..47 bytes: the two sides of the law have their buffer
			// boundaries at different places (a high byte is two bytes once converted)
			{
				m := map[string]string{}
				for _, it := range c09Corpus() {
					m[it.Name] = it.Schema
				}
				for _, name := range []string{"c09/fixedlength2-rows3", "c09/csv2-rows3"} {
					for _, enc := range []string{"iso-8859-1", "windows-1252"} {
						for fill := 0; fill < 48; fill++ {
							var b strings.Builder
							for i := 0; b.Len() < 3*4096+500; i++ {
								pad := ""
								if i == 0 {
									pad = strings.Repeat("p", fill)
								}
								sep := ","
								if strings.Contains(name, "fixedlength2") {
									sep = "-"
								}
								fmt.Fprintf(&b, "a%02d%s\xe9%s%s\n", i%100, sep, strings.Repeat("x", i%17), pad)
								if i%3 == 1 {
									b.WriteString("\n")
								}
								fmt.Fprintf(&b, "b%02d%s\x80%s\r\n", i%100, sep, strings.Repeat("y", i%13))
								if i%4 == 2 {
									b.WriteString("\r\n")
								}
								fmt.Fprintf(&b, "c%02d%s\xff%s\n", i%100, sep, strings.Repeat("z", i%7))
							}
							if !try(c18Case{Item: name, Schema: m[name], Encoding: enc, Input: []byte(b.String()), Family: "many-multi-line-records"}) {
								return
							}
						}
					}
				}
			}
		},
		Replay: func(raw json.RawMessage) (string, string) {
			var cs c18Case
			if err := json.Unmarshal(raw, &cs); err != nil {
				return "harness:bad-replay", err.Error()
			}
			sig, detail := c18Check(cs)
			if sig == "" {
				detail = "transcripts agree"
			}
			return sig, detail
		},
	})
}
