package props

import (
	"fmt"
	"strings"

	"verif/mc/corpus"
	"verif/mc/hx"
)

// DumpCorpus prints the fault-free transcripts of the corpora (debug aid: `mc corpus`).
func DumpCorpus() {
	show := func(name, schemaText string, inputs [][]byte) {
		schema, err, _ := hx.NewSchema("s", schemaText)
		if err != nil {
			fmt.Printf("== %s: SCHEMA REJECTED: %v\n", name, err)
			return
		}
		for i, in := range inputs {
			r := hx.Run(schema, strings.NewReader(string(in)), hx.Opts{Raw: true})
			fmt.Printf("== %s #%d (%d bytes) newTransformErr=%q panic=%q\n", name, i, len(in), r.NewTransformErr, r.PanicSite)
			for _, s := range r.Steps {
				fmt.Printf("   %s   raw=%s\n", s.String(), s.Raw)
			}
		}
	}
	for _, it := range corpus.Minimal() {
		var ins [][]byte
		for _, s := range it.Inputs {
			ins = append(ins, []byte(s))
		}
		show(it.Name, it.Schema, ins)
	}
	for _, it := range c09Corpus()[len(corpus.Minimal()):] {
		show(it.Name, it.Schema, it.Inputs)
	}
	for _, it := range c09Tiny() {
		show("tiny:"+it.Name, it.Schema, it.Inputs)
	}
}
