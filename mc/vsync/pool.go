package vsync

import (
	"fmt"
	gosync "sync"
)

// PoolChoice, when non-nil, decides what Pool.Get returns when the pool is not empty:
// 0 = the most recently Put object (default), 1 = a fresh object from New, 2 = the oldest object.
// It models sync.Pool's freedom to drop or reorder cached objects.
var PoolChoice func(p *Pool, avail int) int

// Counters for evidence / sanity (reset by the harness).
var (
	PoolGets, PoolReuses, PoolPuts int
)

// Pool is a deterministic stand-in for sync.Pool: a LIFO free list that never drops objects by
// itself and that refuses (panics on) putting the same object twice.
type Pool struct {
	New func() interface{}

	mu    gosync.Mutex
	items []interface{}
	in    map[interface{}]struct{}
}

// DoublePut is the panic value raised when an object that is already pooled is Put again.
type DoublePut struct{ Obj interface{} }

func (d DoublePut) Error() string {
	return fmt.Sprintf("vsync: object %p put into the pool twice", d.Obj)
}

func (p *Pool) Get() interface{} {
	Yield()
	p.mu.Lock()
	PoolGets++
	n := len(p.items)
	c := 0
	if n > 0 && PoolChoice != nil {
		c = PoolChoice(p, n)
	}
	if n == 0 || c == 1 {
		p.mu.Unlock()
		if p.New == nil {
			return nil
		}
		return p.New()
	}
	idx := n - 1
	if c == 2 {
		idx = 0
	}
	x := p.items[idx]
	p.items = append(p.items[:idx], p.items[idx+1:]...)
	delete(p.in, x)
	PoolReuses++
	p.mu.Unlock()
	Yield() // the caller now owns x; whoever put it may still be running
	return x
}

func (p *Pool) Put(x interface{}) {
	Yield()
	if x == nil {
		return
	}
	p.mu.Lock()
	PoolPuts++
	if p.in == nil {
		p.in = map[interface{}]struct{}{}
	}
	if _, dup := p.in[x]; dup {
		p.mu.Unlock()
		panic(DoublePut{x})
	}
	p.in[x] = struct{}{}
	p.items = append(p.items, x)
	p.mu.Unlock()
	Yield() // x is published: another thread may take it before the caller's next step
}

// Items returns a copy of the pooled objects, oldest first (harness use).
func (p *Pool) Items() []interface{} {
	p.mu.Lock()
	defer p.mu.Unlock()
	return append([]interface{}(nil), p.items...)
}

// Len reports the number of pooled objects (harness use).
func (p *Pool) Len() int { p.mu.Lock(); defer p.mu.Unlock(); return len(p.items) }

// Contains reports whether x is currently pooled (harness use).
func (p *Pool) Contains(x interface{}) bool {
	p.mu.Lock()
	defer p.mu.Unlock()
	_, ok := p.in[x]
	return ok
}

// Mutex is a cooperative mutex: under the scheduler a contended Lock is a blocking scheduling
// point; sequentially it behaves like an ordinary non-reentrant lock.
type Mutex struct {
	real   gosync.Mutex
	locked bool
}

func (m *Mutex) Lock() {
	if !Active() {
		m.real.Lock()
		return
	}
	Yield()
	waitUntil(func() bool { return !m.locked })
	m.locked = true
}

func (m *Mutex) Unlock() {
	if !Active() {
		m.real.Unlock()
		return
	}
	m.locked = false
	Yield()
}

// RWMutex is modelled as a plain Mutex (a sound over-approximation of exclusion).
type RWMutex struct{ Mutex }

func (m *RWMutex) RLock()   { m.Lock() }
func (m *RWMutex) RUnlock() { m.Unlock() }

// Once mirrors sync.Once with a scheduling point before the check.
type Once struct {
	m    Mutex
	done bool
}

func (o *Once) Do(f func()) {
	Yield()
	o.m.Lock()
	defer o.m.Unlock()
	if !o.done {
		defer func() { o.done = true }()
		f()
	}
}

// The remaining sync types are passed through unchanged.
type (
	WaitGroup = gosync.WaitGroup
	Map       = gosync.Map
	Cond      = gosync.Cond
	Locker    = gosync.Locker
)
