// Package vatomic is the shim for "sync/atomic": real atomic operations preceded by a scheduling point.
package vatomic

import (
	goatomic "sync/atomic"

	"verif/mc/vsync"
)

func AddInt64(addr *int64, delta int64) int64 { vsync.Yield(); return goatomic.AddInt64(addr, delta) }
func LoadInt64(addr *int64) int64             { vsync.Yield(); return goatomic.LoadInt64(addr) }
func StoreInt64(addr *int64, v int64)         { vsync.Yield(); goatomic.StoreInt64(addr, v) }
func CompareAndSwapInt64(addr *int64, o, n int64) bool {
	vsync.Yield()
	return goatomic.CompareAndSwapInt64(addr, o, n)
}
func AddInt32(addr *int32, delta int32) int32 { vsync.Yield(); return goatomic.AddInt32(addr, delta) }
func LoadInt32(addr *int32) int32             { vsync.Yield(); return goatomic.LoadInt32(addr) }
func StoreInt32(addr *int32, v int32)         { vsync.Yield(); goatomic.StoreInt32(addr, v) }
func CompareAndSwapInt32(addr *int32, o, n int32) bool {
	vsync.Yield()
	return goatomic.CompareAndSwapInt32(addr, o, n)
}
func AddUint64(addr *uint64, delta uint64) uint64 {
	vsync.Yield()
	return goatomic.AddUint64(addr, delta)
}
func LoadUint64(addr *uint64) uint64     { vsync.Yield(); return goatomic.LoadUint64(addr) }
func StoreUint64(addr *uint64, v uint64) { vsync.Yield(); goatomic.StoreUint64(addr, v) }

// The typed atomics: every operation is a scheduling point, like the function forms above.
type Value struct{ v goatomic.Value }

func (x *Value) Load() any        { vsync.Yield(); return x.v.Load() }
func (x *Value) Store(val any)    { vsync.Yield(); x.v.Store(val) }
func (x *Value) Swap(new any) any { vsync.Yield(); return x.v.Swap(new) }
func (x *Value) CompareAndSwap(old, new any) bool {
	vsync.Yield()
	return x.v.CompareAndSwap(old, new)
}

type Int64 struct{ v goatomic.Int64 }

func (x *Int64) Load() int64        { vsync.Yield(); return x.v.Load() }
func (x *Int64) Store(val int64)    { vsync.Yield(); x.v.Store(val) }
func (x *Int64) Add(d int64) int64  { vsync.Yield(); return x.v.Add(d) }
func (x *Int64) Swap(n int64) int64 { vsync.Yield(); return x.v.Swap(n) }
func (x *Int64) CompareAndSwap(o, n int64) bool {
	vsync.Yield()
	return x.v.CompareAndSwap(o, n)
}

type Int32 struct{ v goatomic.Int32 }

func (x *Int32) Load() int32        { vsync.Yield(); return x.v.Load() }
func (x *Int32) Store(val int32)    { vsync.Yield(); x.v.Store(val) }
func (x *Int32) Add(d int32) int32  { vsync.Yield(); return x.v.Add(d) }
func (x *Int32) Swap(n int32) int32 { vsync.Yield(); return x.v.Swap(n) }
func (x *Int32) CompareAndSwap(o, n int32) bool {
	vsync.Yield()
	return x.v.CompareAndSwap(o, n)
}

type Bool struct{ v goatomic.Bool }

func (x *Bool) Load() bool       { vsync.Yield(); return x.v.Load() }
func (x *Bool) Store(val bool)   { vsync.Yield(); x.v.Store(val) }
func (x *Bool) Swap(n bool) bool { vsync.Yield(); return x.v.Swap(n) }
func (x *Bool) CompareAndSwap(o, n bool) bool {
	vsync.Yield()
	return x.v.CompareAndSwap(o, n)
}
