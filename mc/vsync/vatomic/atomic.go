// Package vatomic is the shim for "sync/atomic": real atomic operations preceded by a scheduling point.
package vatomic

import (
	goatomic "sync/atomic"

	"verif/mc/vsync"
)

func AddInt64(addr *int64, delta int64) int64 { vsync.Yield(); return goatomic.AddInt64(addr, delta) }
func LoadInt64(addr *int64) int64             { vsync.Yield(); return goatomic.LoadInt64(addr) }
func StoreInt64(addr *int64, v int64)         { vsync.Yield(); goatomic.StoreInt64(addr, v) }
func CompareAndSwapInt64(addr *int64, o, n int64) bool {
	vsync.Yield()
	return goatomic.CompareAndSwapInt64(addr, o, n)
}
func AddInt32(addr *int32, delta int32) int32 { vsync.Yield(); return goatomic.AddInt32(addr, delta) }
func LoadInt32(addr *int32) int32             { vsync.Yield(); return goatomic.LoadInt32(addr) }
func StoreInt32(addr *int32, v int32)         { vsync.Yield(); goatomic.StoreInt32(addr, v) }
func CompareAndSwapInt32(addr *int32, o, n int32) bool {
	vsync.Yield()
	return goatomic.CompareAndSwapInt32(addr, o, n)
}
func AddUint64(addr *uint64, delta uint64) uint64 {
	vsync.Yield()
	return goatomic.AddUint64(addr, delta)
}
func LoadUint64(addr *uint64) uint64     { vsync.Yield(); return goatomic.LoadUint64(addr) }
func StoreUint64(addr *uint64, v uint64) { vsync.Yield(); goatomic.StoreUint64(addr, v) }

type (
	Value = goatomic.Value
	Int64 = goatomic.Int64
	Int32 = goatomic.Int32
	Bool  = goatomic.Bool
)
