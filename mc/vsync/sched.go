// Package vsync is (a) a drop-in shim for the parts of "sync" that omniparser uses, substituted for
// the real package by a `go build -overlay` import rewrite, and (b) the cooperative scheduler that
// turns every shim operation into a scheduling point. With no scheduler installed every operation
// is a plain sequential implementation (deterministic LIFO pool, ordinary mutex).
package vsync

import (
	"fmt"
	"runtime/debug"
)

// Chooser answers a choice point with n >= 2 alternatives. free == true means that taking a
// non-default alternative does not count against the deviation (preemption) bound.
type Chooser func(n int, free bool) int

type thread struct {
	id       int
	wake     chan struct{}
	finished bool
	blocked  func() bool // non-nil while the thread waits for a condition (mutex)
	panicVal interface{}
	panicStk string
}

// Sched is one cooperative execution of a set of thread bodies.
type Sched struct {
	choose  Chooser
	threads []*thread
	cur     *thread
	done    chan struct{}
	// Deadlock is set when unfinished threads exist and none is enabled.
	Deadlock bool
	// Steps counts scheduling points at which more than one thread was enabled.
	Steps int
	// Switches lists (step, from, to) of every context switch taken.
	Trace []string
}

var sch *Sched

// Active reports whether a scheduler is installed.
func Active() bool { return sch != nil }

// ThreadPanic describes a panic that escaped a thread body.
type ThreadPanic struct {
	Thread int
	Value  interface{}
	Stack  string
}

// RunThreads executes the bodies as cooperative threads; choose decides every scheduling point.
// It returns the panics that escaped thread bodies (nil entries for clean threads) and whether the
// execution deadlocked.
func RunThreads(choose Chooser, bodies []func()) ([]*ThreadPanic, bool) {
	s := &Sched{choose: choose, done: make(chan struct{})}
	for i := range bodies {
		s.threads = append(s.threads, &thread{id: i, wake: make(chan struct{})})
	}
	sch = s
	defer func() { sch = nil }()
	for i, b := range bodies {
		t, body := s.threads[i], b
		go func() {
			<-t.wake
			defer func() {
				if r := recover(); r != nil {
					t.panicVal = r
					t.panicStk = string(debug.Stack())
				}
				s.finish(t)
			}()
			body()
		}()
	}
	first := s.pick(nil)
	if first == nil {
		return nil, false
	}
	s.cur = first
	first.wake <- struct{}{}
	<-s.done
	var ps []*ThreadPanic
	any := false
	for _, t := range s.threads {
		if t.panicVal != nil {
			ps = append(ps, &ThreadPanic{Thread: t.id, Value: t.panicVal, Stack: t.panicStk})
			any = true
		} else {
			ps = append(ps, nil)
		}
	}
	if !any {
		ps = nil
	}
	return ps, s.Deadlock
}

func (s *Sched) enabled(t *thread) bool {
	return !t.finished && (t.blocked == nil || !t.blocked())
}

// pick chooses the next thread to run. cur (may be nil or not enabled) comes first in the
// canonical order, so alternative 0 always means "no context switch".
func (s *Sched) pick(cur *thread) *thread {
	var en []*thread
	curEnabled := cur != nil && s.enabled(cur)
	if curEnabled {
		en = append(en, cur)
	}
	for _, t := range s.threads {
		if t != cur && s.enabled(t) {
			en = append(en, t)
		}
	}
	switch len(en) {
	case 0:
		return nil
	case 1:
		return en[0]
	}
	s.Steps++
	c := s.choose(len(en), !curEnabled)
	if c < 0 || c >= len(en) {
		panic(fmt.Sprintf("vsync: chooser returned %d of %d", c, len(en)))
	}
	return en[c]
}

func (s *Sched) yield() {
	t := s.cur
	next := s.pick(t)
	if next == nil {
		// t itself is blocked and nobody else can run: deadlock. Abandon the execution.
		s.Deadlock = true
		close(s.done)
		select {} // park forever; the execution is over
	}
	if next == t {
		return
	}
	s.cur = next
	next.wake <- struct{}{}
	<-t.wake
}

func (s *Sched) finish(t *thread) {
	t.finished = true
	next := s.pick(nil)
	if next == nil {
		for _, o := range s.threads {
			if !o.finished {
				s.Deadlock = true
			}
		}
		close(s.done)
		return
	}
	s.cur = next
	next.wake <- struct{}{}
}

// Yield is a scheduling point. It is a no-op without a scheduler.
func Yield() {
	if s := sch; s != nil {
		s.yield()
	}
}

// waitUntil blocks the calling thread (cooperatively) until cond holds.
func waitUntil(cond func() bool) {
	s := sch
	if s == nil {
		if !cond() {
			panic("vsync: blocking operation would deadlock in sequential mode")
		}
		return
	}
	for !cond() {
		t := s.cur
		t.blocked = func() bool { return !cond() }
		s.yield()
		t.blocked = nil
	}
}
