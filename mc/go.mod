module verif/mc

go 1.23

require (
	github.com/antchfx/xpath v1.1.11
	github.com/jf-tech/go-corelib v0.0.14
	github.com/jf-tech/omniparser v0.0.0
	github.com/tkuchiki/go-timezone v0.2.0
	golang.org/x/text v0.3.8
)

require (
	github.com/dlclark/regexp2 v1.7.0 // indirect
	github.com/dop251/goja v0.0.0-20230812105242-81d76064690d // indirect
	github.com/go-sourcemap/sourcemap v2.1.3+incompatible // indirect
	github.com/google/pprof v0.0.0-20230207041349-798e818bf904 // indirect
	github.com/google/uuid v1.1.2 // indirect
	github.com/hashicorp/golang-lru v0.5.4 // indirect
	github.com/xeipuuv/gojsonpointer v0.0.0-20180127040702-4e3ac2762d5f // indirect
	github.com/xeipuuv/gojsonreference v0.0.0-20180127040603-bd5ef7bd5415 // indirect
	github.com/xeipuuv/gojsonschema v1.2.0 // indirect
	golang.org/x/net v0.0.0-20220722155237-a158d28d115b // indirect
)

replace github.com/jf-tech/omniparser => /repo

replace github.com/jf-tech/go-corelib => ./third_party/go-corelib
