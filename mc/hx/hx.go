// Package hx holds harness helpers: running a Transform to a transcript, controlled io.Readers.
package hx

import (
	stdcsv "encoding/csv"
	"encoding/json"
	"encoding/xml"
	"errors"
	"fmt"
	"io"
	"os"
	"strings"
	"unicode/utf8"

	"github.com/jf-tech/omniparser"
	"github.com/jf-tech/omniparser/errs"
	"github.com/jf-tech/omniparser/extensions/omniv21/fileformat"
	"github.com/jf-tech/omniparser/extensions/omniv21/fileformat/csv"
	"github.com/jf-tech/omniparser/extensions/omniv21/fileformat/edi"
	"github.com/jf-tech/omniparser/extensions/omniv21/fileformat/fixedlength"
	csv2 "github.com/jf-tech/omniparser/extensions/omniv21/fileformat/flatfile/csv"
	fixedlength2 "github.com/jf-tech/omniparser/extensions/omniv21/fileformat/flatfile/fixedlength"
	jsonf "github.com/jf-tech/omniparser/extensions/omniv21/fileformat/json"
	xmlf "github.com/jf-tech/omniparser/extensions/omniv21/fileformat/xml"
	"github.com/jf-tech/omniparser/extensions/omniv21/transform"
	"github.com/jf-tech/omniparser/idr"
	"github.com/jf-tech/omniparser/transformctx"

	"verif/mc/core"
)

// Step is one observed Read result.
type Step struct {
	Kind string `json:"k"` // rec | fail | fatal | eof | panic
	Out  string `json:"o,omitempty"`
	Err  string `json:"e,omitempty"`
	Sum  string `json:"s,omitempty"`
	Raw  string `json:"r,omitempty"`
}

func (s Step) String() string {
	switch s.Kind {
	case "rec":
		return "rec " + s.Out + " #" + s.Sum
	case "eof":
		return "eof"
	}
	return s.Kind + " " + s.Err
}

// Terminal tells whether the step ends a transform.
func (s Step) Terminal() bool { return s.Kind == "fatal" || s.Kind == "eof" || s.Kind == "panic" }

// Transcript renders steps one per line.
func Transcript(steps []Step) string {
	var b strings.Builder
	for i, s := range steps {
		fmt.Fprintf(&b, "%d: %s\n", i, s.String())
	}
	return b.String()
}

// SameSteps compares two transcripts.
func SameSteps(a, b []Step) bool {
	if len(a) != len(b) {
		return false
	}
	for i := range a {
		if a[i] != b[i] {
			return false
		}
	}
	return true
}

// Opts controls Run.
type Opts struct {
	MaxReads      int // hard cap on Read calls (default 1000)
	AfterTerminal int // extra Reads issued after the first terminal result
	Raw           bool
	NoChecksum    bool
	Externals     map[string]string
	Exts          []omniparser.Extension
}

// NewSchema calls omniparser.NewSchema, converting a panic into an error description.
func NewSchema(name, text string, exts ...omniparser.Extension) (s omniparser.Schema, err error, panicSite string) {
	pv, site := core.Safe(func() { s, err = omniparser.NewSchema(name, strings.NewReader(text), exts...) })
	if pv != nil {
		return nil, fmt.Errorf("panic: %v", pv), site
	}
	return s, err, ""
}

// Classify turns a Read result into a Step.
func Classify(b []byte, err error) Step {
	switch {
	case err == nil:
		return Step{Kind: "rec", Out: string(b)}
	case err == io.EOF:
		return Step{Kind: "eof"}
	case errs.IsErrTransformFailed(err):
		return Step{Kind: "fail", Err: err.Error()}
	default:
		return Step{Kind: "fatal", Err: err.Error()}
	}
}

// Result of Run.
type Result struct {
	NewTransformErr string
	Steps           []Step
	PanicSite       string // non-empty when a panic escaped NewTransform/Read/RawRecord
	PanicVal        string
	Capped          bool   // MaxReads reached without a terminal result
	Malformed       string // contract problems noticed while stepping (bytes with error etc.)
}

// Run drives the documented loop (Read; RawRecord) over the input until a terminal result.
func Run(schema omniparser.Schema, input io.Reader, o Opts) Result {
	var res Result
	max := o.MaxReads
	if max == 0 {
		max = 1000
	}
	var tr omniparser.Transform
	var err error
	pv, site := core.Safe(func() {
		tr, err = schema.NewTransform("in", input, &transformctx.Ctx{ExternalProperties: o.Externals})
	})
	if pv != nil {
		res.PanicSite, res.PanicVal = site, fmt.Sprint(pv)
		return res
	}
	if err != nil {
		res.NewTransformErr = err.Error()
		return res
	}
	after := -1
	for i := 0; i < max; i++ {
		var st Step
		pv, site := core.Safe(func() {
			b, err := tr.Read()
			st = Classify(b, err)
			if err != nil && b != nil {
				res.Malformed = "non-nil bytes returned together with an error"
			}
			if err == nil {
				if b == nil {
					res.Malformed = "nil bytes returned with nil error"
				} else if !utf8.Valid(b) {
					res.Malformed = "record is not valid UTF-8"
				}
				rr, rerr := tr.RawRecord()
				if rerr != nil {
					res.Malformed = "RawRecord failed after a successful Read: " + rerr.Error()
				} else {
					if !o.NoChecksum {
						st.Sum = rr.Checksum()
					}
					if o.Raw {
						if n, ok := rr.Raw().(*idr.Node); ok {
							st.Raw = idr.JSONify2(n)
						}
					}
				}
			}
		})
		if pv != nil {
			res.PanicSite, res.PanicVal = site, fmt.Sprint(pv)
			res.Steps = append(res.Steps, Step{Kind: "panic", Err: fmt.Sprint(pv) + " @ " + site})
			return res
		}
		res.Steps = append(res.Steps, st)
		if st.Terminal() {
			if after < 0 {
				after = o.AfterTerminal
			}
			if after == 0 {
				return res
			}
			after--
		}
	}
	if after < 0 {
		res.Capped = true
	}
	return res
}

// ---------------------------------------------------------------------------------------------
// controlled readers

// ErrFault1 and ErrFault2 are the injected I/O errors.
var (
	ErrFault1 = errors.New("injected I/O fault one")
	ErrFault2 = errors.New("injected I/O fault two")
)

// FaultIdentities are error values an input reader may well return and that a format reader could take
// for something of its own: the standard 'input ended inside a token' error, a deadline error
// (Timeout() == true), syntax errors of the standard decoders (a stage upstream handing them on, e.g.
// through io.Pipe.CloseWithError), and a message with a formatting verb in it. FaultReader kind
// 4+i returns FaultIdentities[i] persistently.
var FaultIdentities = []error{
	io.ErrUnexpectedEOF,
	os.ErrDeadlineExceeded,
	&stdcsv.ParseError{StartLine: 1, Line: 1, Column: 1, Err: stdcsv.ErrBareQuote},
	jsonSyntaxError(),
	&xml.SyntaxError{Msg: "injected", Line: 1},
	io.ErrNoProgress,
	errors.New("disk 100% full %s %d"),
}

func jsonSyntaxError() error {
	var v interface{}
	return json.Unmarshal([]byte("{"), &v) // a *json.SyntaxError with a message
}

// FaultKindTransientWithData: the call that reaches At returns its bytes together with ErrFault1, the reader
// then carries on with the rest of the data and fails for good (ErrFault2) where io.EOF would come.
const FaultKindTransientWithData = 11

// FaultReader delivers Data[:At] and then fails.
// Kind 0: ErrFault1 on every call from At on.
// Kind 1: ErrFault1 once, then ErrFault2 forever.
// Kind 2: the call that reaches At returns its bytes together with ErrFault1; ErrFault1 afterwards.
// Kind 3 (exploratory): ErrFault1 once, then the remaining data, then ErrFault2 forever.
// OneByte delivers one byte per call instead of as much as fits.
type FaultReader struct {
	Data      []byte
	At        int
	Kind      int
	OneByte   bool
	pos       int
	failed    int
	Delivered bool // the fault was returned at least once
	Calls     int
}

func (f *FaultReader) Read(p []byte) (int, error) {
	f.Calls++
	if len(p) == 0 {
		return 0, nil
	}
	limit := f.At
	if (f.Kind == 3 || f.Kind == FaultKindTransientWithData) && f.failed > 0 {
		limit = len(f.Data)
	}
	if f.pos >= limit {
		f.Delivered = true
		f.failed++
		switch {
		case f.Kind == 1 && f.failed > 1:
			return 0, ErrFault2
		case (f.Kind == 3 || f.Kind == FaultKindTransientWithData) && f.failed > 1:
			return 0, ErrFault2
		}
		if f.Kind >= 4 && f.Kind-4 < len(FaultIdentities) {
			return 0, FaultIdentities[f.Kind-4]
		}
		return 0, ErrFault1
	}
	n := limit - f.pos
	if n > len(p) {
		n = len(p)
	}
	if f.OneByte {
		n = 1
	}
	copy(p, f.Data[f.pos:f.pos+n])
	f.pos += n
	if (f.Kind == 2 || (f.Kind == FaultKindTransientWithData && f.failed == 0)) && f.pos >= limit {
		f.Delivered = true
		f.failed++
		return n, ErrFault1
	}
	return n, nil
}

// ChoiceReader delivers Data under the explorer's control. At every Read call with rem > 0 bytes
// left the alternatives are: 0 = as much as fits (the default: one big chunk), k in 1..m-1 = only k
// bytes (m = min(rem, len(p), MaxCut+1)), m = everything that fits together with io.EOF if that
// exhausts the data (else a plain 1-byte read), m+1 = an empty (0, nil) read.
type ChoiceReader struct {
	Data    []byte
	X       *core.Exec
	MaxCut  int // largest explicit short-read size offered as an alternative (0 = all)
	pos     int
	empties int
}

func (c *ChoiceReader) Read(p []byte) (int, error) {
	if len(p) == 0 {
		return 0, nil
	}
	rem := len(c.Data) - c.pos
	if rem == 0 {
		return 0, io.EOF
	}
	fit := rem
	if fit > len(p) {
		fit = len(p)
	}
	m := fit
	if c.MaxCut > 0 && m > c.MaxCut+1 {
		m = c.MaxCut + 1
	}
	// alternatives: 0 | 1..m-1 | m (data+EOF) | m+1 (empty read, at most 3 in a row)
	n := m + 2
	ch := c.X.Choose(n, false)
	switch {
	case ch == 0:
		copy(p, c.Data[c.pos:c.pos+fit])
		c.pos += fit
		c.empties = 0
		return fit, nil
	case ch < m:
		copy(p, c.Data[c.pos:c.pos+ch])
		c.pos += ch
		c.empties = 0
		return ch, nil
	case ch == m:
		copy(p, c.Data[c.pos:c.pos+fit])
		c.pos += fit
		c.empties = 0
		if c.pos == len(c.Data) {
			return fit, io.EOF
		}
		return fit, nil
	default:
		c.empties++
		if c.empties > 3 {
			copy(p, c.Data[c.pos:c.pos+1])
			c.pos++
			return 1, nil
		}
		return 0, nil
	}
}

// CutReader delivers Data split at the given sorted cut offsets (one chunk per Read call).
type CutReader struct {
	Data []byte
	Cuts []int
	// EmptyBefore makes every piece (and the final io.EOF) be preceded by one empty (0, nil) read: never two
	// in a row, but as many in total as there are pieces.
	EmptyBefore bool
	// EOFWithLast makes the last piece arrive together with io.EOF (as iotest.DataErrReader does).
	EOFWithLast bool
	pos         int
	ci          int
	gaveEmpty   bool
}

func (c *CutReader) Read(p []byte) (int, error) {
	if len(p) == 0 {
		return 0, nil
	}
	if c.EmptyBefore && !c.gaveEmpty {
		c.gaveEmpty = true
		return 0, nil
	}
	c.gaveEmpty = false
	if c.pos >= len(c.Data) {
		return 0, io.EOF
	}
	for c.ci < len(c.Cuts) && c.Cuts[c.ci] <= c.pos {
		c.ci++
	}
	end := len(c.Data)
	if c.ci < len(c.Cuts) {
		end = c.Cuts[c.ci]
	}
	n := end - c.pos
	if n > len(p) {
		n = len(p)
	}
	copy(p, c.Data[c.pos:c.pos+n])
	c.pos += n
	if c.EOFWithLast && c.pos >= len(c.Data) {
		return n, io.EOF
	}
	return n, nil
}

// FormatReaderFactory validates a schema once (full NewSchema path for acceptance, then the
// format's own ValidateSchema) and returns a factory of FormatReaders for inputs.
func FormatReaderFactory(schemaText string) (func(input string) (fileformat.FormatReader, error), error) {
	if _, err, _ := NewSchema("s", schemaText); err != nil {
		return nil, err
	}
	content := []byte(schemaText)
	var hdr struct {
		PS struct {
			Format string `json:"file_format_type"`
		} `json:"parser_settings"`
	}
	if err := json.Unmarshal(content, &hdr); err != nil {
		return nil, err
	}
	fo, err := transform.ValidateTransformDeclarations(content, nil, nil)
	if err != nil {
		return nil, err
	}
	formats := []fileformat.FileFormat{
		csv.NewCSVFileFormat("s"), csv2.NewCSVFileFormat("s"), edi.NewEDIFileFormat("s"),
		fixedlength.NewFixedLengthFileFormat("s"), fixedlength2.NewFixedLengthFileFormat("s"),
		jsonf.NewJSONFileFormat("s"), xmlf.NewXMLFileFormat("s"),
	}
	for _, ff := range formats {
		rt, err := ff.ValidateSchema(hdr.PS.Format, content, fo)
		if err == errs.ErrSchemaNotSupported {
			continue
		}
		if err != nil {
			return nil, err
		}
		ff := ff
		return func(input string) (fileformat.FormatReader, error) {
			return ff.CreateFormatReader("in", strings.NewReader(input), rt)
		}, nil
	}
	return nil, errs.ErrSchemaNotSupported
}
