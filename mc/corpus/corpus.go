// Package corpus holds the minimal per-format schemas and inputs shared by the property checks,
// plus access to the repository's sample schema/input pairs.
package corpus

import (
	"os"
	"path/filepath"
	"sort"
	"strings"
)

// Item is one schema with a few inputs.
type Item struct {
	Name   string   // e.g. "csv2/nested"
	Format string   // csv csv2 fixed-length fixedlength2 edi json xml
	Schema string   // schema JSON text
	Inputs []string // well-formed inputs (first one is the canonical one)
}

func hdr(format string) string {
	return `"parser_settings":{"version":"omni.2.1","file_format_type":"` + format + `"}`
}

// Minimal returns the hand-written minimal corpus (CORP-fmt of DESIGN.md).
func Minimal() []Item {
	return []Item{
		{Name: "csv/basic", Format: "csv", Schema: `{` + hdr("csv") + `,
 "file_declaration":{"delimiter":",","data_row_index":1,"columns":[{"name":"a"},{"name":"b"}]},
 "transform_declarations":{"FINAL_OUTPUT":{"object":{"a":{"xpath":"a"},"b":{"xpath":"b","type":"int"}}}}}`,
			Inputs: []string{"x,1\ny,2\nz,3\n", "x,1\n\"q,\"\"r\",2\ny,zz\nw,4", "é,7\r\nb,8\r\n"}},
		{Name: "csv/header", Format: "csv", Schema: `{` + hdr("csv") + `,
 "file_declaration":{"delimiter":"|","replace_double_quotes":true,"header_row_index":2,"data_row_index":4,
   "columns":[{"name":"A"},{"name":"B C","alias":"BC"}]},
 "transform_declarations":{"FINAL_OUTPUT":{"xpath":".[A != 'skip']","object":{"a":{"xpath":"A"},"bc":{"xpath":"BC"}}}}}`,
			Inputs: []string{"title\nA|B C\n----\n1|2\nskip|3\n\"4|5\"\n6|7\n", "t\nA|B C|D\n\n\n1|2|3\n"}},
		{Name: "csv/header-extra-columns", Format: "csv", Schema: `{` + hdr("csv") + `,
 "file_declaration":{"delimiter":",","header_row_index":1,"data_row_index":2,"columns":[{"name":"A"},{"name":"B"}]},
 "transform_declarations":{"FINAL_OUTPUT":{"object":{"a":{"xpath":"A"},"b":{"xpath":"B"}}}}}`,
			Inputs: []string{"A,B,NOTE,MORE\n1,2,x,y\n3,4,z,w\n5,6\n", "A,B\n1,2\n"}},
		{Name: "json/long-values", Format: "json", Schema: `{` + hdr("json") + `,
 "transform_declarations":{"FINAL_OUTPUT":{"xpath":"/*","object":{"a":{"xpath":"a"}}}}}`,
			Inputs: []string{`[{"a":"1` + strings.Repeat("x", 5000) + `"},{"a":"2` + strings.Repeat("y", 5000) + `"},{"a":"3` + strings.Repeat("z", 5000) + `"}]`}},
		{Name: "csv/data-row-jump", Format: "csv", Schema: `{` + hdr("csv") + `,
 "file_declaration":{"delimiter":",","data_row_index":3,"columns":[{"name":"a"},{"name":"b"}]},
 "transform_declarations":{"FINAL_OUTPUT":{"object":{"a":{"xpath":"a"},"b":{"xpath":"b"}}}}}`,
			Inputs: []string{"junk line\nA,B\nskip,me\n1,2\n3,4\n", "x\n\ny,z\n\"q\n\",1\n"}},
		{Name: "csv2/flat", Format: "csv2", Schema: `{` + hdr("csv2") + `,
 "file_declaration":{"delimiter":",","records":[{"name":"R","columns":[{"name":"a"},{"name":"b","index":3}]}]},
 "transform_declarations":{"FINAL_OUTPUT":{"object":{"a":{"xpath":"a"},"b":{"xpath":"b","type":"int"}}}}}`,
			Inputs: []string{"x,-,1\ny,-,2\nz,-,3\n", "x,-,1\n\n\"q,\"\"r\",-,2\ny,-,zz\nw,-,4", "é,-,7\r\nb,,8\r\n"}},
		{Name: "csv2/rows2", Format: "csv2", Schema: `{` + hdr("csv2") + `,
 "file_declaration":{"delimiter":"|","records":[{"rows":2,"columns":[{"name":"a","index":2,"line_index":1},{"name":"b","index":1,"line_index":2}]}]},
 "transform_declarations":{"FINAL_OUTPUT":{"xpath":".[a!='skip']","object":{"a":{"xpath":"a"},"b":{"xpath":"b"}}}}}`,
			Inputs: []string{"1|2\n3|4\n5|skip\n6|7\n8|9\n10|11\n", "1|2\n3|4\n5|6\n"}},
		{Name: "csv2/hf", Format: "csv2", Schema: `{` + hdr("csv2") + `,
 "file_declaration":{"delimiter":",","records":[{"name":"R","header":"^B","footer":"^E","columns":[{"name":"n","line_pattern":"^[0-9]"},{"name":"m","index":2,"line_pattern":"^[0-9]"}]}]},
 "transform_declarations":{"FINAL_OUTPUT":{"object":{"n":{"xpath":"n"},"m":{"xpath":"m"}}}}}`,
			Inputs: []string{"B\n1,2\nx,y\nE\nB\n5,6\nE\n", "B\nE\nB,1\n7,8\nE"}},
		{Name: "csv2/nested", Format: "csv2", Schema: `{` + hdr("csv2") + `,
 "file_declaration":{"delimiter":",","records":[
   {"name":"F","header":"^F,","min":1,"max":1,"columns":[{"name":"id","index":2}]},
   {"name":"G","type":"record_group","is_target":true,"child_records":[
     {"name":"H","header":"^H,","max":1,"columns":[{"name":"w","index":2}]},
     {"name":"D","header":"^D,","min":1,"columns":[{"name":"v","index":2}]}]},
   {"name":"T","header":"^T","min":1,"max":1}]},
 "transform_declarations":{"FINAL_OUTPUT":{"object":{"f":{"xpath":"../F/id"},"w":{"xpath":"H/w"},"vs":{"array":[{"xpath":"D/v"}]}}}}}`,
			Inputs: []string{"F,f1\nH,w1\nD,1\nD,2\nH,w2\nD,3\nT\n", "F,f1\nT\n"}},
		{Name: "fixed-length/rows", Format: "fixed-length", Schema: `{` + hdr("fixed-length") + `,
 "file_declaration":{"envelopes":[{"columns":[{"name":"a","start_pos":1,"length":2},{"name":"b","start_pos":3,"length":3}]}]},
 "transform_declarations":{"FINAL_OUTPUT":{"object":{"a":{"xpath":"a"},"b":{"xpath":"b","type":"int"}}}}}`,
			Inputs: []string{"ab123\ncd456\n\nef  7\n", "ab1\r\ncdxyz\r\néf 12", "a\n"}},
		{Name: "fixed-length/rows2", Format: "fixed-length", Schema: `{` + hdr("fixed-length") + `,
 "file_declaration":{"envelopes":[{"by_rows":2,"columns":[{"name":"a","start_pos":1,"length":2,"line_pattern":"^a"},{"name":"b","start_pos":2,"length":2,"line_pattern":"^b"}]}]},
 "transform_declarations":{"FINAL_OUTPUT":{"xpath":".[a!='a0']","object":{"a":{"xpath":"a"},"b":{"xpath":"b"}}}}}`,
			Inputs: []string{"a1\nb12\na0\nb34\na2\nb56\n", "a1\nb12\na2\n"}},
		{Name: "fixed-length/hf", Format: "fixed-length", Schema: `{` + hdr("fixed-length") + `,
 "file_declaration":{"envelopes":[
   {"name":"G","by_header_footer":{"header":"^A0","footer":"^A9"},"not_target":true,"columns":[{"name":"c","start_pos":4,"length":3,"line_pattern":"^A5"}]},
   {"name":"V","by_header_footer":{"header":"^V0","footer":"^V9"},"columns":[{"name":"t","start_pos":4,"length":4,"line_pattern":"^V2"}]},
   {"name":"Z","by_header_footer":{"header":"^Z0","footer":"^Z0"},"not_target":true}]},
 "transform_declarations":{"FINAL_OUTPUT":{"xpath":".[t!='skip']","object":{"t":{"xpath":"t"},"c":{"xpath":"../G/c"}}}}}`,
			Inputs: []string{"A0\nA5 car\nA9\nV0\nV2 t001\nV9\nV0\nV2 skip\nV9\nV0\nV2 t003\nV9\nZ0\n", "A0\nA9\nV0\nV9\nZ0\n"}},
		{Name: "fixedlength2/flat", Format: "fixedlength2", Schema: `{` + hdr("fixedlength2") + `,
 "file_declaration":{"envelopes":[{"name":"R","columns":[{"name":"a","start_pos":1,"length":2},{"name":"b","start_pos":3,"length":3}]}]},
 "transform_declarations":{"FINAL_OUTPUT":{"object":{"a":{"xpath":"a"},"b":{"xpath":"b","type":"int"}}}}}`,
			Inputs: []string{"ab123\ncd456\n\nef  7\n", "ab1\r\ncdxyz\r\néf 12", "a\n"}},
		{Name: "fixedlength2/rows2", Format: "fixedlength2", Schema: `{` + hdr("fixedlength2") + `,
 "file_declaration":{"envelopes":[{"rows":2,"columns":[{"name":"a","start_pos":1,"length":2,"line_index":1},{"name":"b","start_pos":2,"length":2,"line_index":2}]}]},
 "transform_declarations":{"FINAL_OUTPUT":{"xpath":".[a!='a0']","object":{"a":{"xpath":"a"},"b":{"xpath":"b"}}}}}`,
			Inputs: []string{"a1\nb12\na0\nb34\na2\nb56\n", "a1\nb12\na2\n"}},
		{Name: "fixedlength2/hf", Format: "fixedlength2", Schema: `{` + hdr("fixedlength2") + `,
 "file_declaration":{"envelopes":[
   {"name":"G","header":"^A0","footer":"^A9","min":1,"max":1,"columns":[{"name":"c","start_pos":4,"length":3,"line_pattern":"^A5"}]},
   {"name":"V","header":"^V0","footer":"^V9","is_target":true,"columns":[{"name":"t","start_pos":4,"length":4,"line_pattern":"^V2"}]},
   {"name":"Z","header":"^Z0","min":1,"max":1}]},
 "transform_declarations":{"FINAL_OUTPUT":{"xpath":".[t!='skip']","object":{"t":{"xpath":"t"},"c":{"xpath":"../G/c"}}}}}`,
			Inputs: []string{"A0\nA5 car\nA9\nV0\nV2 t001\nV9\nV0\nV2 skip\nV9\nV0\nV2 t003\nV9\nZ0\n", "A0\nA9\nZ0\n"}},
		{Name: "fixedlength2/nested", Format: "fixedlength2", Schema: `{` + hdr("fixedlength2") + `,
 "file_declaration":{"envelopes":[
   {"name":"H","header":"^H","min":1,"max":1,"child_envelopes":[
     {"name":"G","type":"envelope_group","is_target":true,"child_envelopes":[
       {"name":"N","header":"^N","columns":[{"name":"t","start_pos":2,"length":3}],"max":1},
       {"name":"S","header":"^S","min":0,"max":2,"columns":[{"name":"s","start_pos":2,"length":2}]}]},
     {"name":"T","header":"^T","min":1,"max":1}]}]},
 "transform_declarations":{"FINAL_OUTPUT":{"object":{"t":{"xpath":"N/t"},"ss":{"array":[{"xpath":"S/s"}]}}}}}`,
			Inputs: []string{"H\nNabc\nS01\nS02\nNdef\nNghi\nS03\nT\n", "H\nT\n"}},
		{Name: "edi/flat", Format: "edi", Schema: `{` + hdr("edi") + `,
 "file_declaration":{"segment_delimiter":"~","element_delimiter":"*","segment_declarations":[
   {"name":"ISA","child_segments":[
     {"name":"A","is_target":true,"min":0,"max":-1,"elements":[{"name":"e1","index":1},{"name":"e2","index":2,"default":"d"}]}]},
   {"name":"IEA"}]},
 "transform_declarations":{"FINAL_OUTPUT":{"object":{"e1":{"xpath":"e1"},"e2":{"xpath":"e2","type":"int"}}}}}`,
			Inputs: []string{"ISA*0~A*x*1~A*y*2~A*z~IEA~", "ISA~\nA*p*q~\nA*r*5~\nIEA~\n", "ISA~IEA~"}},
		{Name: "edi/components", Format: "edi", Schema: `{` + hdr("edi") + `,
 "file_declaration":{"segment_delimiter":"~","element_delimiter":"*","component_delimiter":":","repetition_delimiter":"^","segment_declarations":[
   {"name":"A","is_target":true,"min":0,"max":-1,"elements":[{"name":"c1","index":1,"component_index":1},{"name":"c2","index":1,"component_index":2},{"name":"e2","index":2,"default":"d"}]}]},
 "transform_declarations":{"FINAL_OUTPUT":{"object":{"c1":{"xpath":"c1"},"c2":{"xpath":"c2"},"e2":{"xpath":"e2"}}}}}`,
			Inputs: []string{"A*1:2*3~A*4:5~", "A*1:2~A*1~A*3:4~", "A*1~", "A*:~A*^:^~"}},
		{Name: "edi/nested", Format: "edi", Schema: `{` + hdr("edi") + `,
 "file_declaration":{"segment_delimiter":"\n","element_delimiter":"*","component_delimiter":":","release_character":"?","segment_declarations":[
   {"name":"ISA","child_segments":[
     {"name":"grp","type":"segment_group","is_target":true,"min":0,"max":-1,"child_segments":[
       {"name":"ST","min":1,"max":1,"elements":[{"name":"id","index":1}]},
       {"name":"N1","min":0,"max":2,"elements":[{"name":"c1","index":1,"component_index":1},{"name":"c2","index":1,"component_index":2,"empty_if_missing":true}]},
       {"name":"SE"}]}]},
   {"name":"IEA","min":0}]},
 "transform_declarations":{"FINAL_OUTPUT":{"xpath":".[ST/id!='skip']","object":{"id":{"xpath":"ST/id"},"n":{"array":[{"xpath":"N1","object":{"c1":{"xpath":"c1"},"c2":{"xpath":"c2"}}}]}}}}}`,
			Inputs: []string{"ISA*0\nST*1\nN1*a:b\nN1*c?:d\nSE\nST*skip\nSE\nST*3\nN1*e?*f:g\nSE\nIEA\n", "ISA\r\nST*9\r\nSE\r\n"}},
		{Name: "json/array", Format: "json", Schema: `{` + hdr("json") + `,
 "transform_declarations":{"FINAL_OUTPUT":{"xpath":"/*","object":{"a":{"xpath":"a","type":"int"},"b":{"xpath":"b/c"}}}}}`,
			Inputs: []string{`[{"a":1,"b":{"c":"x"}},{"a":"zz"},{"a":3,"b":{"c":"é"}}]`, "[\n {\"a\": 1},\n {\"a\": 2}\n]\n", `[]`}},
		{Name: "json/filter", Format: "json", Schema: `{` + hdr("json") + `,
 "transform_declarations":{"FINAL_OUTPUT":{"xpath":"/r/items/*[k='1']","object":{"v":{"xpath":"v"},"top":{"xpath":"../../name"}}}}}`,
			Inputs: []string{`{"name":"N","r":{"items":[{"k":"1","v":"a"},{"k":"2","v":"b"},{"k":"1","v":"c"}]}}`, `{"r":{"items":[]}}`}},
		{Name: "xml/basic", Format: "xml", Schema: `{` + hdr("xml") + `,
 "transform_declarations":{"FINAL_OUTPUT":{"xpath":"/r/a","object":{"k":{"xpath":"@k"},"t":{"xpath":"b","type":"int"}}}}}`,
			Inputs: []string{`<r><a k="1"><b>1</b></a><a k="2"><b>x</b></a><a><b>3</b></a></r>`, "<?xml version=\"1.0\"?>\n<r>\n <a k=\"é\"><b>5</b></a>\n <c/>\n</r>\n", `<r/>`}},
		{Name: "xml/filter", Format: "xml", Schema: `{` + hdr("xml") + `,
 "transform_declarations":{"FINAL_OUTPUT":{"xpath":"/r/g/a[@k='1']","object":{"t":{"xpath":"."},"h":{"xpath":"../../h"}}}}}`,
			Inputs: []string{`<r><h>H</h><g><a k="1">x</a><a k="2">y</a><a k="1">z</a></g></r>`, `<r><g><a k="2">y</a></g></r>`}},
	}
}

// ByFormat groups items by format name.
func ByFormat(items []Item) map[string][]Item {
	m := map[string][]Item{}
	for _, it := range items {
		m[it.Format] = append(m[it.Format], it)
	}
	return m
}

// Formats lists the seven built-in formats.
var Formats = []string{"csv", "csv2", "fixed-length", "fixedlength2", "edi", "json", "xml"}

// RepoDir is the repository root the checks run against.
func RepoDir() string {
	if d := os.Getenv("VERIF_REPO"); d != "" {
		return d
	}
	return "/repo"
}

// Samples loads the repository's sample schema/input pairs (extensions/omniv21/samples).
func Samples() []Item {
	root := filepath.Join(RepoDir(), "extensions/omniv21/samples")
	var out []Item
	for _, dir := range []string{"csv", "csv2", "fixedlength", "fixedlength2", "edi", "json", "xml"} {
		matches, _ := filepath.Glob(filepath.Join(root, dir, "*.schema.json"))
		sort.Strings(matches)
		for _, sp := range matches {
			base := strings.TrimSuffix(sp, ".schema.json")
			ins, _ := filepath.Glob(base + ".input.*")
			if len(ins) == 0 {
				continue
			}
			sb, err1 := os.ReadFile(sp)
			ib, err2 := os.ReadFile(ins[0])
			if err1 != nil || err2 != nil {
				continue
			}
			f := dir
			if f == "fixedlength" {
				f = "fixed-length"
			}
			out = append(out, Item{Name: "sample/" + dir + "/" + filepath.Base(base), Format: f, Schema: string(sb), Inputs: []string{string(ib)}})
		}
	}
	return out
}
