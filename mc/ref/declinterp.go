package ref

import (
	"errors"
	"fmt"
	"reflect"
	"sort"
	"strconv"
	"strings"

	"github.com/jf-tech/omniparser/idr"
)

// DeclInterp is the reference evaluator of `transform_declarations`: an interpreter of the RAW
// schema JSON (as decoded by encoding/json) that follows doc/transforms.md, doc/xpath.md and the
// property text. It has no cache, evaluates object children in REVERSED key order (the value must
// not depend on evaluation order) and inlines templates at the reference site. It shares with the
// implementation only the node tree, the xpath engine (idr.MatchAll with the expression cache
// disabled) and, for the `copy` function, idr.J2NodeToInterface (C08's subject).
type DeclInterp struct {
	Decls     map[string]interface{} // transform_declarations
	Externals map[string]string
	Funcs     map[string]RefFunc
}

// RefFunc is a reference implementation of a custom function. Params gives the zero value used
// for an absent (nil) argument at each position; the last entry applies to all further arguments.
type RefFunc struct {
	Params []interface{}
	Call   func(n *idr.Node, args []interface{}) (interface{}, error)
}

// ErrRecord is a per-record failure.
var ErrRecord = errors.New("per-record failure")

func fail(format string, a ...interface{}) error {
	return fmt.Errorf("%w: %s", ErrRecord, fmt.Sprintf(format, a...))
}

type rdecl = map[string]interface{}

func has(d rdecl, k string) bool { _, ok := d[k]; return ok }

func flag(d rdecl, k string) bool { b, _ := d[k].(bool); return b }

// resolve inlines a template reference: the body with the site's xpath/xpath_dynamic.
func (di *DeclInterp) resolve(d rdecl) rdecl {
	for has(d, "template") {
		body, _ := di.Decls[d["template"].(string)].(rdecl)
		nd := rdecl{}
		for k, v := range body {
			nd[k] = v
		}
		if has(d, "xpath") || has(d, "xpath_dynamic") {
			delete(nd, "xpath")
			delete(nd, "xpath_dynamic")
			if has(d, "xpath") {
				nd["xpath"] = d["xpath"]
			}
			if has(d, "xpath_dynamic") {
				nd["xpath_dynamic"] = d["xpath_dynamic"]
			}
		}
		d = nd
	}
	return d
}

func kindOf(d rdecl) string {
	for _, k := range []string{"const", "external", "custom_func", "object", "array"} {
		if has(d, k) {
			return k
		}
	}
	return "field"
}

// xpathOf computes the xpath of a declaration at node n. ok=false means "treat as no match".
func (di *DeclInterp) xpathOf(d rdecl, n *idr.Node) (xp string, ok bool) {
	if s, isStr := d["xpath"].(string); isStr && strings.TrimSpace(s) != "" {
		return s, true
	}
	if dyn, isDyn := d["xpath_dynamic"].(rdecl); isDyn {
		v, err := di.eval(dyn, n, posPlain)
		if err != nil || v == nil {
			return "", false
		}
		s, isStr := v.(string)
		if !isStr || strings.TrimSpace(s) == "" {
			return "", false
		}
		return s, true
	}
	return ".", true
}

// matchAll evaluates an xpath from n: the expression is compiled by the library (which also turns down
// what is not a node-set expression), the iteration is done here, so that a shortcut taken inside the
// library's MatchAll / MatchSingle is not shared with the reference.
func matchAll(n *idr.Node, xp string) (nodes []*idr.Node, err error) {
	if xp == "." {
		return []*idr.Node{n}, nil
	}
	expr, err := idr.GetNodeSetXPathExpr(xp)
	if err != nil {
		return nil, err
	}
	defer func() {
		if r := recover(); r != nil {
			nodes, err = nil, fmt.Errorf("xpath query failed: %v", r)
		}
	}()
	iter := idr.QueryIter(n, expr)
	for iter.MoveNext() {
		cur, ok := iter.Current().(interface{ Current() *idr.Node })
		if !ok {
			return nil, fmt.Errorf("unexpected navigator type %T", iter.Current())
		}
		nodes = append(nodes, cur.Current())
	}
	return nodes, nil
}

type position int

const (
	posPlain     position = iota // xpath (if any) anchors the cursor with MatchSingle
	posArrayElem                 // directly under array: the array already applied the xpath
	posFinal                     // FINAL_OUTPUT: the record node is supplied by the reader
)

// single anchors the cursor of d at n: nil,nil = no match.
func (di *DeclInterp) single(d rdecl, n *idr.Node, pos position) (*idr.Node, error) {
	if pos != posPlain || (!has(d, "xpath") && !has(d, "xpath_dynamic")) {
		return n, nil
	}
	xp, ok := di.xpathOf(d, n)
	if !ok {
		return nil, nil
	}
	nodes, err := matchAll(n, xp)
	if err != nil {
		return nil, fail("xpath %q: %v", xp, err)
	}
	switch len(nodes) {
	case 0:
		return nil, nil
	case 1:
		return nodes[0], nil
	}
	return nil, fail("xpath %q matched %d nodes", xp, len(nodes))
}

// Eval evaluates FINAL_OUTPUT on the record node.
func (di *DeclInterp) Eval(record *idr.Node) (interface{}, error) {
	fo, _ := di.Decls["FINAL_OUTPUT"].(rdecl)
	v, err := di.eval(fo, record, posFinal)
	if err != nil {
		return nil, err
	}
	return v, nil
}

func (di *DeclInterp) eval(d rdecl, n *idr.Node, pos position) (interface{}, error) {
	d = di.resolve(d)
	switch kindOf(d) {
	case "const":
		// (an xpath on a const / external / array comes from the reference site of a template: it anchors
		// the cursor like any other xpath - no match, no value; several matches, a failure)
		if c, err := di.single(d, n, pos); err != nil || c == nil {
			return nil, err
		}
		return normalize(d, d["const"].(string))
	case "external":
		if c, err := di.single(d, n, pos); err != nil || c == nil {
			return nil, err
		}
		v, ok := di.Externals[d["external"].(string)]
		if !ok {
			return nil, fail("external %q not set", d["external"])
		}
		return normalize(d, v)
	case "field":
		c, err := di.single(d, n, pos)
		if err != nil || c == nil {
			return nil, err
		}
		return normalize(d, c.InnerText())
	case "object":
		c, err := di.single(d, n, pos)
		if err != nil || c == nil {
			return nil, err
		}
		obj := map[string]interface{}{}
		children := d["object"].(rdecl)
		keys := make([]string, 0, len(children))
		for k := range children {
			keys = append(keys, k)
		}
		sort.Sort(sort.Reverse(sort.StringSlice(keys)))
		for _, k := range keys {
			cd := children[k].(rdecl)
			v, err := di.eval(cd, c, posPlain)
			if err != nil {
				return nil, err
			}
			if kept, keep := keepOrOmit(di.resolve(cd), v); keep {
				obj[k] = kept
			}
		}
		return normalize(d, obj)
	case "array":
		if c, err := di.single(d, n, pos); err != nil || c == nil {
			return nil, err
		} else {
			n = c
		}
		var arr []interface{}
		for _, e := range d["array"].([]interface{}) {
			ed := di.resolve(e.(rdecl))
			xp, ok := di.xpathOf(ed, n)
			if !ok {
				continue // an xpath_dynamic that cannot be computed contributes nothing
			}
			nodes := []*idr.Node{n}
			if xp != "." {
				var err error
				if nodes, err = matchAll(n, xp); err != nil {
					return nil, fail("xpath %q: %v", xp, err)
				}
			}
			for _, en := range nodes {
				v, err := di.eval(ed, en, posArrayElem)
				if err != nil {
					return nil, err
				}
				if kept, keep := keepOrOmit(ed, v); keep {
					arr = append(arr, kept)
				}
			}
		}
		if arr == nil {
			// an array without elements is absent; with keep_empty_or_null it is emitted as null
			return nil, nil
		}
		return normalize(d, arr)
	case "custom_func":
		c, err := di.single(d, n, pos)
		if err != nil || c == nil {
			return nil, err
		}
		cf := d["custom_func"].(rdecl)
		fn, ok := di.Funcs[cf["name"].(string)]
		if !ok {
			return nil, fail("unknown function %v", cf["name"])
		}
		var args []interface{}
		rawArgs, _ := cf["args"].([]interface{})
		for i, a := range rawArgs {
			v, err := di.eval(a.(rdecl), c, posPlain)
			if err != nil {
				return nil, err
			}
			if v == nil { // absent value -> zero value of the parameter
				pi := i
				if pi >= len(fn.Params) {
					pi = len(fn.Params) - 1
				}
				if pi >= 0 {
					v = fn.Params[pi]
				}
			}
			args = append(args, v)
		}
		res, err := fn.Call(c, args)
		if err != nil {
			if _, mistyped := err.(ArgTypeError); !mistyped && flag(cf, "ignore_error") {
				return nil, nil
			}
			return nil, fail("function %v: %v", cf["name"], err)
		}
		return normalize(d, res)
	}
	return nil, fail("unknown declaration kind")
}

// ArgTypeError is what a RefFunc returns for an argument whose type its parameter does not take: the call
// cannot be made at all, so the record fails whatever ignore_error says (ignore_error is about errors the
// function itself returns).
type ArgTypeError struct{ Msg string }

func (e ArgTypeError) Error() string { return e.Msg }

func isEmptyValue(v interface{}) bool {
	rv := reflect.ValueOf(v)
	switch rv.Kind() {
	case reflect.Slice, reflect.Map, reflect.Array, reflect.String:
		return rv.Len() == 0
	}
	return false
}

// keepOrOmit applies the omit-empty rule of declaration d to an already normalised value.
func keepOrOmit(d rdecl, v interface{}) (interface{}, bool) {
	if v != nil && !isEmptyValue(v) {
		return v, true
	}
	if flag(d, "keep_empty_or_null") {
		return v, true
	}
	return nil, false
}

// normalize = trim (strings, unless no_trim) -> cast (non-nil values with `type`) -> omit if
// nil/empty unless keep_empty_or_null.
func normalize(d rdecl, v interface{}) (interface{}, error) {
	if s, ok := v.(string); ok && !flag(d, "no_trim") {
		v = strings.TrimSpace(s)
	}
	if t, ok := d["type"].(string); ok && v != nil {
		c, err := cast(v, t)
		if err != nil {
			return nil, fail("cannot convert %v to %s: %v", v, t, err)
		}
		v = c
	}
	kept, keep := keepOrOmit(d, v)
	if !keep {
		return nil, nil
	}
	return kept, nil
}

func cast(v interface{}, t string) (interface{}, error) {
	switch x := v.(type) {
	case string:
		switch t {
		case "int":
			return strconv.ParseInt(x, 10, 64)
		case "float":
			return strconv.ParseFloat(x, 64)
		case "boolean":
			return strconv.ParseBool(x)
		case "string":
			return x, nil
		}
	case int64:
		switch t {
		case "int":
			return x, nil
		case "float":
			return float64(x), nil
		case "string":
			return strconv.FormatInt(x, 10), nil
		}
	case float64:
		switch t {
		case "int":
			// (a float beyond the int64 range, or NaN, has no int to be cast to: that record fails)
			if x != x || x >= 9223372036854775808.0 || x < -9223372036854775808.0 {
				return nil, errors.New("value out of range")
			}
			return int64(x), nil
		case "float":
			return x, nil
		case "string":
			return fmt.Sprintf("%v", x), nil
		}
	case bool:
		switch t {
		case "boolean":
			return x, nil
		case "string":
			return strconv.FormatBool(x), nil
		}
	}
	return nil, errors.New("type conversion not supported")
}
