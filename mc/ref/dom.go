package ref

import (
	"encoding/xml"
	"fmt"
	"io"
	"strings"

	"github.com/antchfx/xpath"
)

// DNode is a node of the boring reference DOM: children in a slice, attributes in a slice.
type DNode struct {
	Kind     xpath.NodeType // RootNode, ElementNode, TextNode
	Name     string         // local name (elements), text (text nodes)
	Prefix   string
	Attrs    []DAttr
	Children []*DNode
	Parent   *DNode
	Index    int // position among the parent's children
}

// DAttr is an attribute of an element.
type DAttr struct {
	Name, Prefix, Value string
}

// ParseDOM builds the reference DOM from the standard decoder's tokens (RawToken: names as written).
func ParseDOM(doc string) (*DNode, error) {
	d := xml.NewDecoder(strings.NewReader(doc))
	root := &DNode{Kind: xpath.RootNode}
	cur := root
	for {
		t, err := d.RawToken()
		if err == io.EOF {
			return root, nil
		}
		if err != nil {
			return nil, err
		}
		switch e := t.(type) {
		case xml.StartElement:
			n := &DNode{Kind: xpath.ElementNode, Name: e.Name.Local, Prefix: e.Name.Space, Parent: cur, Index: len(cur.Children)}
			for _, a := range e.Attr {
				n.Attrs = append(n.Attrs, DAttr{Name: a.Name.Local, Prefix: a.Name.Space, Value: a.Value})
			}
			cur.Children = append(cur.Children, n)
			cur = n
		case xml.EndElement:
			cur = cur.Parent
		case xml.CharData:
			cur.Children = append(cur.Children, &DNode{Kind: xpath.TextNode, Name: string(e), Parent: cur, Index: len(cur.Children)})
		}
	}
}

// Text returns the string-value: concatenated descendant text.
func (n *DNode) Text() string {
	if n.Kind == xpath.TextNode {
		return n.Name
	}
	var b strings.Builder
	for _, c := range n.Children {
		b.WriteString(c.Text())
	}
	return b.String()
}

// Path identifies a node: child indices from the document node.
func (n *DNode) Path() string {
	if n.Parent == nil {
		return "/"
	}
	return n.Parent.Path() + fmt.Sprintf("%d/", n.Index)
}

// DNav is a straightforward xpath.NodeNavigator over the reference DOM (modelled on the
// navigator of antchfx/xmlquery: the context node is the navigator's root).
type DNav struct {
	root, cur *DNode
	attr      int
}

// NewDNav creates a navigator whose context (and root) is n.
func NewDNav(n *DNode) *DNav { return &DNav{root: n, cur: n, attr: -1} }

// Current returns the node (and attribute index, -1 if none) the navigator is on.
func (x *DNav) Current() (*DNode, int) { return x.cur, x.attr }

func (x *DNav) NodeType() xpath.NodeType {
	if x.attr >= 0 {
		return xpath.AttributeNode
	}
	return x.cur.Kind
}
func (x *DNav) LocalName() string {
	if x.attr >= 0 {
		return x.cur.Attrs[x.attr].Name
	}
	return x.cur.Name
}
func (x *DNav) Prefix() string {
	if x.attr >= 0 {
		return x.cur.Attrs[x.attr].Prefix
	}
	return x.cur.Prefix
}
func (x *DNav) Value() string {
	if x.attr >= 0 {
		return x.cur.Attrs[x.attr].Value
	}
	return x.cur.Text()
}
func (x *DNav) Copy() xpath.NodeNavigator { c := *x; return &c }
func (x *DNav) MoveToRoot()               { x.cur, x.attr = x.root, -1 }
func (x *DNav) MoveToParent() bool {
	if x.attr >= 0 {
		x.attr = -1
		return true
	}
	if x.cur.Parent == nil {
		return false
	}
	x.cur = x.cur.Parent
	return true
}
func (x *DNav) MoveToNextAttribute() bool {
	if x.attr+1 >= len(x.cur.Attrs) {
		return false
	}
	x.attr++
	return true
}
func (x *DNav) MoveToChild() bool {
	if x.attr >= 0 || len(x.cur.Children) == 0 {
		return false
	}
	x.cur = x.cur.Children[0]
	return true
}
func (x *DNav) MoveToFirst() bool {
	if x.attr >= 0 || x.cur.Parent == nil || x.cur.Index == 0 {
		return false
	}
	x.cur = x.cur.Parent.Children[0]
	return true
}
func (x *DNav) MoveToNext() bool {
	if x.attr >= 0 || x.cur.Parent == nil || x.cur.Index+1 >= len(x.cur.Parent.Children) {
		return false
	}
	x.cur = x.cur.Parent.Children[x.cur.Index+1]
	return true
}
func (x *DNav) MoveToPrevious() bool {
	if x.attr >= 0 || x.cur.Parent == nil || x.cur.Index == 0 {
		return false
	}
	x.cur = x.cur.Parent.Children[x.cur.Index-1]
	return true
}
func (x *DNav) MoveTo(o xpath.NodeNavigator) bool {
	n, ok := o.(*DNav)
	if !ok || n.root != x.root {
		return false
	}
	x.cur, x.attr = n.cur, n.attr
	return true
}
