// Package ref holds the boring reference models the implementation is compared with. Nothing in
// this package imports the code it is a reference for.
package ref

import (
	"fmt"
	"strings"
)

// HDecl is an abstract record/segment declaration of a hierarchy.
type HDecl struct {
	Name     string
	Group    bool
	Min      int
	Max      int // -1 = unbounded
	Target   bool
	Children []*HDecl
	Idx      int // preorder index, for error identification
	// Record kinds of csv2/fixedlength2 (zero values = a record identified by its name):
	Any    bool   // rows-based record: matches any unit(s)
	Rows   int    // rows-based: number of units per instance (0 means 1)
	Footer string // header/footer record: instance runs through the first unit with this name
}

// Unit is one input unit (line / segment): a name and a serial number that makes it traceable.
type Unit struct {
	Name   string
	Serial int
}

// RNode is a node of the reference tree.
type RNode struct {
	Name   string
	Serial int    // -1 for group nodes and the root
	Extra  string // further consumed units of a multi-unit record ("+<serial>")
	Kids   []*RNode
	Parent *RNode
}

// GreedyResult is the outcome of the reference matcher.
type GreedyResult struct {
	Deliveries []string // snapshot of the whole tree at each target delivery, target marked with '*'
	Terminal   string   // "eof" | "min:<declIdx>:<got>" | "unexpected:<unit index>"
}

// starts tells whether the units at pos start an instance of d: decided by d itself for a record,
// by its first non-group descendant (through first children) for a group. n is the number of
// units the record consumes.
func starts(d *HDecl, units []Unit, pos int) (n int, ok bool) {
	for d.Group {
		if len(d.Children) == 0 {
			return 0, false
		}
		d = d.Children[0]
	}
	switch {
	case d.Any:
		n = d.Rows
		if n == 0 {
			n = 1
		}
		return n, pos+n <= len(units)
	case units[pos].Name != d.Name:
		return 0, false
	case d.Footer != "":
		for j := pos; j < len(units); j++ {
			if units[j].Name == d.Footer {
				return j - pos + 1, true
			}
		}
		return 0, false
	}
	return 1, true
}

type minErr struct {
	d   *HDecl
	got int
}

type greedy struct {
	units []Unit
	pos   int
	root  *RNode
	out   []string
}

// Snapshot renders the tree under root; mark is rendered with a leading '*'.
func Snapshot(root, mark *RNode) string {
	var b strings.Builder
	var walk func(n *RNode)
	walk = func(n *RNode) {
		if n == mark {
			b.WriteByte('*')
		}
		b.WriteString(n.Name)
		if n.Serial >= 0 {
			fmt.Fprintf(&b, "#%d%s", n.Serial, n.Extra)
		}
		if len(n.Kids) > 0 {
			b.WriteByte('(')
			for i, k := range n.Kids {
				if i > 0 {
					b.WriteByte(' ')
				}
				walk(k)
			}
			b.WriteByte(')')
		}
	}
	walk(root)
	return b.String()
}

func (g *greedy) seq(decls []*HDecl, parent *RNode) *minErr {
	for _, d := range decls {
		count := 0
		for (d.Max < 0 || count < d.Max) && g.pos < len(g.units) {
			k, ok := starts(d, g.units, g.pos)
			if !ok {
				break
			}
			n := &RNode{Name: d.Name, Serial: -1, Parent: parent}
			if !d.Group {
				n.Serial = g.units[g.pos].Serial
				if k > 1 { // only first and last unit of a multi-unit record are observable
					n.Extra = fmt.Sprintf("+%d", g.units[g.pos+k-1].Serial)
				}
				g.pos += k
			}
			parent.Kids = append(parent.Kids, n)
			if e := g.seq(d.Children, n); e != nil {
				return e
			}
			count++
			if d.Target {
				g.out = append(g.out, Snapshot(g.root, n))
				parent.Kids = parent.Kids[:len(parent.Kids)-1] // delivered targets leave the tree
			}
		}
		if count < d.Min {
			return &minErr{d, count}
		}
	}
	return nil
}

// Greedy is the declarative meaning of a hierarchy: for each declaration in order take up to max
// instances while the next unit starts one (recursively matching the children of each), fail on an
// unmet minimum, fail on leftover input; a target instance is delivered when it is complete.
func Greedy(decls []*HDecl, units []Unit, rootName string) GreedyResult {
	return greedyRun(decls, units, rootName, false)
}

// GreedyRootRestart is NOT the property: it describes one known deviation of the EDI reader, which
// starts the whole top-level declaration sequence afresh (under a new root) when, after the
// sequence has completed, the next unit starts the first top-level declaration again. It is used
// only to recognise that specific deviation among disagreements.
func GreedyRootRestart(decls []*HDecl, units []Unit, rootName string) GreedyResult {
	return greedyRun(decls, units, rootName, true)
}

func greedyRun(decls []*HDecl, units []Unit, rootName string, restart bool) GreedyResult {
	g := &greedy{units: units, root: &RNode{Name: rootName, Serial: -1}}
	e := g.seq(decls, g.root)
	for restart && e == nil && g.pos < len(units) && len(decls) > 0 {
		if _, ok := starts(decls[0], units, g.pos); !ok {
			break
		}
		g.root = &RNode{Name: rootName, Serial: -1}
		e = g.seq(decls, g.root)
	}
	res := GreedyResult{Deliveries: g.out}
	switch {
	case e != nil:
		res.Terminal = fmt.Sprintf("min:%d:%d", e.d.Idx, e.got)
	case g.pos < len(units):
		res.Terminal = fmt.Sprintf("unexpected:%d", g.pos)
	default:
		res.Terminal = "eof"
	}
	return res
}

// Number assigns preorder indices.
func Number(decls []*HDecl) []*HDecl {
	var all []*HDecl
	var walk func(ds []*HDecl)
	walk = func(ds []*HDecl) {
		for _, d := range ds {
			d.Idx = len(all)
			all = append(all, d)
			walk(d.Children)
		}
	}
	walk(decls)
	return all
}

// Describe renders a hierarchy compactly, e.g. "G{1,-1}*[A{0,1} B{1,1}]".
func Describe(decls []*HDecl) string {
	var b strings.Builder
	var walk func(ds []*HDecl)
	walk = func(ds []*HDecl) {
		for i, d := range ds {
			if i > 0 {
				b.WriteByte(' ')
			}
			if d.Group {
				b.WriteByte('@')
			}
			fmt.Fprintf(&b, "%s{%d,%d}", d.Name, d.Min, d.Max)
			if d.Target {
				b.WriteByte('*')
			}
			if len(d.Children) > 0 {
				b.WriteByte('[')
				walk(d.Children)
				b.WriteByte(']')
			}
		}
	}
	walk(decls)
	return b.String()
}
