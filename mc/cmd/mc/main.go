// Command mc is the model-checking driver: `mc run C05 quick`, `mc replay <file>`, and the internal
// `mc worker ...` used by run.
package main

import (
	"fmt"
	"os"
	"strconv"

	"verif/mc/core"
	"verif/mc/props"
)

func main() {
	if len(os.Args) < 2 {
		fmt.Fprintln(os.Stderr, "usage: mc run <ID> <quick|thorough> | mc replay <file> | mc list")
		os.Exit(2)
	}
	switch os.Args[1] {
	case "run":
		tier := "quick"
		if len(os.Args) > 3 {
			tier = os.Args[3]
		}
		if t := os.Getenv("VERIF_TIER"); t == "quick" || t == "thorough" {
			if len(os.Args) <= 3 {
				tier = t
			}
		}
		os.Exit(core.ParentMain(os.Args[2], tier))
	case "worker":
		sh, _ := strconv.Atoi(os.Args[4])
		n, _ := strconv.Atoi(os.Args[5])
		os.Exit(core.WorkerMain(os.Args[2], os.Args[3], sh, n, os.Args[6]))
	case "replay":
		os.Exit(core.ReplayMain(os.Args[2]))
	case "c15probe":
		i, _ := strconv.Atoi(os.Args[2])
		props.C15Probe(i)
	case "c14bench":
		props.C14Bench()
	case "corpus":
		props.DumpCorpus()
	case "list":
		for _, id := range core.Props() {
			fmt.Println(id)
		}
	default:
		fmt.Fprintln(os.Stderr, "unknown command", os.Args[1])
		os.Exit(2)
	}
}
