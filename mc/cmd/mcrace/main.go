//go:build verifrace

// Command mcrace is the free-running pass: the same harness bodies as the scheduler-driven checks,
// run on real goroutines with the real sync.Pool / atomics under the race detector (built with
// -race and the hooks-only overlay). A data race makes the detector exit with status 66.
package main

import (
	"fmt"
	"os"

	"verif/mc/props"
)

func main() {
	if len(os.Args) < 2 {
		fmt.Fprintln(os.Stderr, "usage: mcrace <nodes|transforms|javascript>")
		os.Exit(2)
	}
	if err := props.RaceScenario(os.Args[1]); err != nil {
		fmt.Println("FAILURE:", err)
		os.Exit(1)
	}
	fmt.Println("clean")
}
