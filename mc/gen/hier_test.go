package gen

import (
	"testing"

	"verif/mc/ref"
)

func TestCounts(t *testing.T) {
	occ := [][2]int{{0, 1}, {0, 2}, {0, -1}, {1, 1}, {1, 2}, {1, -1}, {2, 2}, {2, -1}}
	for n := 1; n <= 3; n++ {
		seen := map[string]bool{}
		c := Hierarchies(HierSpec{Nodes: n, Depth: 3, Names: []string{"A", "B", "C"}, Occ: occ}, func(i int, d []*ref.HDecl) bool {
			s := ref.Describe(d)
			if seen[s] {
				t.Fatalf("dup %s", s)
			}
			seen[s] = true
			return true
		})
		t.Logf("n=%d hierarchies=%d", n, c)
	}
	if c := Sequences(4, 5, func([]int) bool { return true }); c != 1365 {
		t.Fatalf("sequences %d", c)
	}
}
