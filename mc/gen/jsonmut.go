package gen

import (
	"encoding/json"
	"fmt"
	"sort"
	"strings"
)

// JSONPos is a position (value) inside a decoded JSON document.
type JSONPos struct {
	Path []interface{} // string keys and int indices from the root
}

func (p JSONPos) String() string {
	var b strings.Builder
	for _, e := range p.Path {
		switch x := e.(type) {
		case string:
			b.WriteString("." + x)
		case int:
			fmt.Fprintf(&b, "[%d]", x)
		}
	}
	if b.Len() == 0 {
		return "$"
	}
	return "$" + b.String()
}

// Positions lists every value position of a decoded document in a deterministic order.
func Positions(doc interface{}) []JSONPos {
	var out []JSONPos
	var walk func(v interface{}, path []interface{})
	walk = func(v interface{}, path []interface{}) {
		out = append(out, JSONPos{Path: append([]interface{}(nil), path...)})
		switch x := v.(type) {
		case map[string]interface{}:
			keys := make([]string, 0, len(x))
			for k := range x {
				keys = append(keys, k)
			}
			sort.Strings(keys)
			for _, k := range keys {
				walk(x[k], append(path, k))
			}
		case []interface{}:
			for i, e := range x {
				walk(e, append(path, i))
			}
		}
	}
	walk(doc, nil)
	return out
}

func deepCopy(v interface{}) interface{} {
	switch x := v.(type) {
	case map[string]interface{}:
		m := make(map[string]interface{}, len(x))
		for k, e := range x {
			m[k] = deepCopy(e)
		}
		return m
	case []interface{}:
		s := make([]interface{}, len(x))
		for i, e := range x {
			s[i] = deepCopy(e)
		}
		return s
	}
	return v
}

// Get returns the value at a position.
func Get(doc interface{}, p JSONPos) interface{} {
	v := doc
	for _, e := range p.Path {
		switch k := e.(type) {
		case string:
			v = v.(map[string]interface{})[k]
		case int:
			v = v.([]interface{})[k]
		}
	}
	return v
}

// deleteMarker asks Replace to remove the element instead of replacing it.
type deleteMarker struct{}

// Delete is the replacement value meaning "remove this member / element".
var Delete = deleteMarker{}

// Replace returns a copy of doc with the value at p replaced by nv (or removed for Delete).
func Replace(doc interface{}, p JSONPos, nv interface{}) interface{} {
	if len(p.Path) == 0 {
		if _, del := nv.(deleteMarker); del {
			return nil
		}
		return nv
	}
	root := deepCopy(doc)
	parent := root
	var grand interface{}
	var grandKey interface{}
	for i, e := range p.Path[:len(p.Path)-1] {
		grand, grandKey = parent, e
		_ = i
		switch k := e.(type) {
		case string:
			parent = parent.(map[string]interface{})[k]
		case int:
			parent = parent.([]interface{})[k]
		}
	}
	last := p.Path[len(p.Path)-1]
	_, del := nv.(deleteMarker)
	switch k := last.(type) {
	case string:
		if del {
			delete(parent.(map[string]interface{}), k)
		} else {
			parent.(map[string]interface{})[k] = nv
		}
	case int:
		arr := parent.([]interface{})
		if del {
			na := append(append([]interface{}{}, arr[:k]...), arr[k+1:]...)
			if grand == nil {
				return na
			}
			switch gk := grandKey.(type) {
			case string:
				grand.(map[string]interface{})[gk] = na
			case int:
				grand.([]interface{})[gk] = na
			}
		} else {
			arr[k] = nv
		}
	}
	return root
}

// Replacements is the value alphabet of single structural mutations.
func Replacements() []interface{} {
	return []interface{}{nil, true, float64(0), float64(1), float64(-1), float64(1 << 31), "", "x",
		[]interface{}{}, map[string]interface{}{}, []interface{}{nil}, map[string]interface{}{"a": nil},
		"\"", "\n", "\ufffd", "[", json.RawMessage("9223372036854775807"), json.RawMessage("-9223372036854775808"),
		// numbers that are integers to a JSON schema validator but not to a decoder filling an int
		json.RawMessage("1.0"), json.RawMessage("1e0"), json.RawMessage("2.0"), json.RawMessage("100000000000000000000")}
}

// SwapKind turns an object into the array of its values and an array into an object keyed by index.
func SwapKind(v interface{}) (interface{}, bool) {
	switch x := v.(type) {
	case map[string]interface{}:
		keys := make([]string, 0, len(x))
		for k := range x {
			keys = append(keys, k)
		}
		sort.Strings(keys)
		arr := make([]interface{}, 0, len(x))
		for _, k := range keys {
			arr = append(arr, x[k])
		}
		return arr, true
	case []interface{}:
		m := map[string]interface{}{}
		for i, e := range x {
			m[fmt.Sprint(i)] = e
		}
		return m, true
	}
	return nil, false
}

// Marshal renders a decoded document.
func Marshal(doc interface{}) string {
	b, _ := json.Marshal(doc)
	return string(b)
}

// DuplicateKey renders doc with the member at p (which must be an object member) written twice,
// the second time with value second.
func DuplicateKey(doc interface{}, p JSONPos, second interface{}) (string, bool) {
	if len(p.Path) == 0 {
		return "", false
	}
	key, ok := p.Path[len(p.Path)-1].(string)
	if !ok {
		return "", false
	}
	const marker = "\u0001DUPLICATE\u0001"
	parentPos := JSONPos{Path: p.Path[:len(p.Path)-1]}
	parent := Get(doc, parentPos).(map[string]interface{})
	withMarker := Replace(doc, parentPos, marker)
	text := Marshal(withMarker)
	mb, _ := json.Marshal(marker)
	keys := make([]string, 0, len(parent))
	for k := range parent {
		keys = append(keys, k)
	}
	sort.Strings(keys)
	var parts []string
	for _, k := range keys {
		kb, _ := json.Marshal(k)
		parts = append(parts, string(kb)+":"+Marshal(parent[k]))
	}
	kb, _ := json.Marshal(key)
	parts = append(parts, string(kb)+":"+Marshal(second))
	return strings.Replace(text, string(mb), "{"+strings.Join(parts, ",")+"}", 1), true
}

// ShadowSection renders doc (an object) with an extra top-level member: 'extraKey': 'extra', written before
// all the other members (after == false) or after them (after == true). A JSON schema validator looks at
// the last occurrence of a key and not at all at a key it does not know; a decoder filling structs takes
// in every occurrence, in order, matching keys regardless of letter case.
func ShadowSection(doc interface{}, extraKey string, extra interface{}, after bool) (string, bool) {
	top, ok := doc.(map[string]interface{})
	if !ok {
		return "", false
	}
	keys := make([]string, 0, len(top))
	for k := range top {
		keys = append(keys, k)
	}
	sort.Strings(keys)
	kb, _ := json.Marshal(extraKey)
	extraPart := string(kb) + ":" + Marshal(extra)
	var parts []string
	if !after {
		parts = append(parts, extraPart)
	}
	for _, k := range keys {
		kb, _ := json.Marshal(k)
		parts = append(parts, string(kb)+":"+Marshal(top[k]))
	}
	if after {
		parts = append(parts, extraPart)
	}
	return "{" + strings.Join(parts, ",") + "}", true
}
