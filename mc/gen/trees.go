package gen

// Shapes enumerates all ordered rooted trees with exactly n nodes and depth <= maxDepth (root at
// depth 1) as preorder parent arrays (parent[0] = -1). The slice passed to visit is reused.
func Shapes(n, maxDepth int, visit func(parent []int) bool) {
	parent := make([]int, n)
	depth := make([]int, n)
	parent[0], depth[0] = -1, 1
	var rec func(i int) bool
	rec = func(i int) bool {
		if i == n {
			return visit(parent)
		}
		// the parent of node i must lie on the rightmost path: node i-1 or one of its ancestors
		for p := i - 1; p >= 0; p = parent[p] {
			if depth[p] < maxDepth {
				parent[i], depth[i] = p, depth[p]+1
				if !rec(i + 1) {
					return false
				}
			}
		}
		return true
	}
	if n > 0 {
		rec(1)
	}
}

// Counter iterates a mixed-radix counter; digits is reused. It calls visit for every combination.
func Counter(radix []int, visit func(digits []int) bool) {
	d := make([]int, len(radix))
	for {
		if !visit(d) {
			return
		}
		i := 0
		for ; i < len(d); i++ {
			d[i]++
			if d[i] < radix[i] {
				break
			}
			d[i] = 0
		}
		if i == len(d) {
			return
		}
	}
}
