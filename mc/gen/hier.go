// Package gen holds the exhaustive small-scope enumerators.
package gen

import "verif/mc/ref"

// shapes returns all ordered forests with exactly n nodes and depth <= depth.
func shapes(n, depth int) [][]*ref.HDecl {
	if n == 0 {
		return [][]*ref.HDecl{nil}
	}
	if depth == 0 {
		return nil
	}
	var out [][]*ref.HDecl
	// first tree has k nodes (1 root + k-1 below), rest forest has n-k
	for k := 1; k <= n; k++ {
		for _, kids := range shapes(k-1, depth-1) {
			for _, rest := range shapes(n-k, depth) {
				t := &ref.HDecl{Children: cloneForest(kids)}
				out = append(out, append([]*ref.HDecl{t}, cloneForest(rest)...))
			}
		}
	}
	return out
}

func cloneForest(f []*ref.HDecl) []*ref.HDecl {
	var out []*ref.HDecl
	for _, d := range f {
		c := *d
		c.Children = cloneForest(d.Children)
		out = append(out, &c)
	}
	return out
}

// HierSpec bounds the hierarchy enumeration.
type HierSpec struct {
	Nodes int      // exactly this many declarations
	Depth int      // maximum nesting depth
	Names []string // record names
	Occ   [][2]int // (min,max) combinations, max -1 = unbounded
}

// Hierarchies enumerates every declaration hierarchy of the spec: every forest shape, every inner
// node as a group or as a named record with children, every leaf as a named record, every
// occurrence combination per node and every single target position. visit must not retain decls.
// It returns the number of hierarchies visited; visit returns false to stop.
func Hierarchies(sp HierSpec, visit func(idx int, decls []*ref.HDecl) bool) int {
	count := 0
	for _, shape := range shapes(sp.Nodes, sp.Depth) {
		nodes := ref.Number(shape)
		n := len(nodes)
		radix := make([]int, n)
		for i, d := range nodes {
			k := len(sp.Names)
			if len(d.Children) > 0 {
				k++ // + group
			}
			radix[i] = k * len(sp.Occ)
		}
		ctr := make([]int, n)
		for {
			for i, d := range nodes {
				kind := ctr[i] / len(sp.Occ)
				occ := sp.Occ[ctr[i]%len(sp.Occ)]
				d.Min, d.Max = occ[0], occ[1]
				if kind == len(sp.Names) {
					d.Group, d.Name = true, "G"
				} else {
					d.Group, d.Name = false, sp.Names[kind]
				}
				d.Target = false
			}
			for t := 0; t < n; t++ {
				nodes[t].Target = true
				if !visit(count, shape) {
					return count
				}
				count++
				nodes[t].Target = false
			}
			// increment mixed-radix counter
			i := 0
			for ; i < n; i++ {
				ctr[i]++
				if ctr[i] < radix[i] {
					break
				}
				ctr[i] = 0
			}
			if i == n {
				break
			}
		}
	}
	return count
}

// Sequences enumerates all sequences over an alphabet of k symbols with length 0..maxLen; seq holds
// symbol indices and is reused between calls.
func Sequences(k, maxLen int, visit func(seq []int) bool) int {
	count := 0
	seq := make([]int, 0, maxLen)
	var rec func() bool
	rec = func() bool {
		count++
		if !visit(seq) {
			return false
		}
		if len(seq) == maxLen {
			return true
		}
		for s := 0; s < k; s++ {
			seq = append(seq, s)
			if !rec() {
				return false
			}
			seq = seq[:len(seq)-1]
		}
		return true
	}
	rec()
	return count
}
